#!/usr/bin/env python3
"""Regenerates MANIFEST.json from the table below (kept valid at all times)."""
import json, os
HERE = os.path.dirname(os.path.abspath(__file__))
BASE_CMD = "cd /repo && /venv/bin/python -m pytest -ra -q -p no:cacheprovider --timeout=900 --continue-on-collection-errors"
CHECKS = {
 "C01": dict(level="proof", technique="Lean 4 theorems (scan_eq characterisation, induction over the coordinate loop) + exact differential correspondence through the order embedding phi",
   text="Lean 4 proves, for vectors of every length over any linear order and every marker pair, that the model of ParetoDominance.compare returns the textbook strict-partial-order verdict (feasibility first, then Pareto dominance), is irreflexive, antisymmetric and transitive, and that the epsilon comparator agrees on different vectors and names the second of two identical vectors. The model is tied to /repo on every run by an exact differential test (phi-embedded doubles, exact rationals).",
   note="Trusted: Lean kernel + propext/Classical.choice/Quot.sound; the hand-written model and the correspondence (a test); NaN/inf excluded; eps pairs closer than rounding error excluded as in the statement.", ref="5/C01"),
 "C07": dict(level="proof", technique="Lean 4 projection theorem over all schedules of an action-level model + forced-schedule differential test on the real joblib threads",
   text="PARTIAL. Lean 4 proves for every batch size, worker count and schedule that, if each action of Job.evaluate touches only its own design's record and store row (the footprint built into the model), every complete interleaving yields exactly the serial records, one stored row with the final data per newly evaluated design and exactly one objective call per not-yet-evaluated design (proj_run, schedule_independent, parallel_fields, parallel_eq_serial). That the real threads have this footprint is tested, not proved: schedules are forced on the real joblib threads at objective-call and store-sync gates (with a real SQLite file, including a writer that holds the lock while others retry), the schedule taken is replayed through the model and records, rows and call counts are compared.",
   note="Trusted/assumed: interleavings inside one modelled action (bytecode level under the GIL), SQLite's own locking and joblib's threading backend are exercised, not proved; np.round supplied as a table; Lean kernel + standard axioms.", ref="5/C07"),
 "C11": dict(level="proof", technique="Lean 4 invariant proof over all event traces and crash points of a commit-level store model + crash-point enumeration (os._exit / SIGKILL) on the real writer",
   text="PARTIAL. Lean 4 proves for every trace of upsert/commit events on any number of connections (serial or interleaved writers) and every crash point that the rows a reader finds have pairwise distinct ids, are blobs of upserts that were executed and committed before the crash (so any predicate true of every blob handed to the store, e.g. costs match the vector, is true of every row), that a synchronisation whose commit is in the prefix stays present at every later crash point, and that the last single-statement synchronisation wins. SQLite's atomic commit is the model's assumption. The tie to the code is crash-point enumeration: a forked writer (NSGA-II, eps-MOEA, sweep; serial and parallel) is killed at every logged event (objective call, before/after every SQL statement and commit) and at random instants; the file must open through a read-mode view, every row must be complete with costs matching its vector, every synchronisation that had returned must be present, and the raw rows must equal the model's crashAt of the logged prefix (either side of an in-flight commit). PRAGMA journal_mode is monitored.",
   note="Assumed: SQLite atomic commit / rollback-journal recovery, OS page cache survives process death (no power loss; synchronous=0 is not claimed durable), crashes before the store exists are excluded by the statement. Lean kernel + standard axioms.", ref="5/C11"),
 "C02": dict(level="proof", technique="Lean 4 loop-invariant proof (pair-progress invariant for the comparison phase, counter = number of unprocessed dominators for the peeling loop, uniqueness by strong induction) + exact differential correspondence through phi",
   text="Proof. For every population (any size, number of objectives, duplicates, feasibility markers, order) the Lean model of fast_nondominated_sorting - reset, i<j comparison loops with counters and dominate lists, peeling while loop with fuel - gives every member a front number satisfying the property's recurrence (fnds_rank), proved at counter/pair granularity, not by enumeration or a level abstraction. Also proved: termination within fuel n+1, uniqueness of the recurrence, order/multiplicity independence (fnds_perm), front 1 = non-dominated set, nobody unranked, same front => incomparable, dominator => earlier front, and that the driver's isTrueRank check accepts exactly the model's answer. The model is tied to /repo by exact equality of front numbers on generated populations (incl. objects carrying stale features, every input order).",
   note="Theorems assume equal numbers of objectives (SameLen) and the C01 comparator model. Not covered: the same object twice, colliding ids, NaN/inf costs. Tie to the code is a differential test. Lean kernel + standard axioms.", ref="5/C02"),
 "C09": dict(level="proof", technique="Lean 4 proofs about the loop models of generate / pop_acceptance / run counters (invariants, induction on the oracle list and on the generation count) + differential runs with a logging problem",
   text="Lean 4 proves for every N>=2, every oracle of children and every equality test that the generate loop returns exactly N pairwise unequal offspring whenever it returns (generate_size); that pop_acceptance keeps the population size and follows its three clauses for every flag vector and random pick (popAccept_size, popAccept_cases); and the run counters: NSGA-II N*G evaluations and generations 1..G of N designs, steady algorithms N*(G+1) evaluations and generations 0..G (induction on G). Elitism rests on the C03 truncation theorems. Tie to the code: real NSGA-II / eps-MOEA / OMOPSO / SMPSO runs over a grid of configurations with and without injected transient failures (evaluation count, tag histogram, per-generation distinctness, elitism and best-cost monotonicity evaluated on the recorded generations), GeneticAlgorithm.generate with scripted children, Selector.pop_acceptance with recorded random picks - all compared with the model.",
   note="The run-level counters are simple models; what carries weight there is the correspondence with real runs (a test). PSOGA not covered (not claimed by the statement). Lean kernel + standard axioms.", ref="5/C09"),
 "C03": dict(level="proof", technique="Lean 4 proofs over an executable model (successive stable mergeSort passes with per-pass Forall2 invariants; sortedness of take k ++ drop k with Nodup/Perm counting; case analysis of the tournament) + differential / envelope correspondence",
   text="18 Lean 4 theorems about an executable model of crowding_distance, nondominated_truncate/nondominated_cmp and TournamentSelector.select cover every clause of the statement for all fronts and populations, all k, every input order and every possible set() order and representative: crowding of small fronts, permutation of members, range [0,m], infinite extremes with ties, the order-theoretic interior formula without ties (crowd_formula, _inf, _sum), truncation size / no duplicates / rank first (under 'equal designs carry equal front numbers') / no survivor dominated / crowding second, tournament membership, rank and dominance clauses. Tie to the code: exact comparison of crowding values on generated fronts, envelope check of truncation (every clause evaluated on the observed survivors, then the model must reproduce them from a reconstructed set() order), tournament with recorded random draws.",
   note="Front numbers are inputs here (that they are Pareto ranks is C02). Rank clause assumes copies of a design carry one front number (false without it because set() keeps the first copy). Finite crowding values within 1e-9 relative (IEEE rounding trusted). Tie to the code is a differential test. Lean kernel + standard axioms.", ref="5/C03"),
 "C16": dict(level="proof", technique="Lean 4 proofs over the reals of formulas written once over a Num class (closed forms of the Python loops by induction, telescoping, cos^2+sin^2=1, arcsin construction for the onto clause) + Float-model differential test and identities evaluated on the implementation's outputs",
   text="19 Lean 4 theorems over the real interpretation of the executable model of benchmark_pareto.py, for every m>=1, every number of variables and every point: DTLZ1 objectives sum to (1+g)/2, DTLZ2/3/4 vectors have norm 1+g, ZDT1 f2 = g(1-sqrt(f1/g)) with g = 1+9 mean, bi-objective f1*f2 = 1+x2 (x1 >= 0.1), all objectives non-negative on the box, and with the distance variables at 0.5 the image lies on and covers the simplex / non-negative unit sphere. Tie to the code: the same formulas run on Float in the driver are compared per objective with evaluate() on random, face, corner and near-front points (doubles shipped as bits), and the identities are evaluated on the implementation's own outputs.",
   note="IEEE rounding, libm vs the real sin/cos/sqrt/pow and overflow are not proved (1e-9 agreement band). The tie to the code is a differential test. Lean kernel + standard axioms.", ref="5/C16"),
}
TODO = {}
def main():
    props = [json.loads(l) for l in open(os.path.join(HERE, "properties.jsonl"))]
    checks = []
    for p in props:
        c = CHECKS.get(p["id"])
        if not c: continue
        checks.append({
            "property_id": p["id"],
            "quick_cmd": "./check %s --tier quick" % p["id"],
            "thorough_cmd": "./check %s --tier thorough" % p["id"],
            "evidence_file": "evidence/%s.json" % p["id"],
            "replay_cmd_template": "./check %s --replay {path}" % p["id"],
            "engine": "lean4-model+correspondence",
            "level_claimed": {"category": c["level"], "text": c["text"], "design_ref": c["ref"]},
            "level_note": c["note"],
            "technique": c["technique"],
        })
    na = [{"property_id": p["id"], "reason": TODO.get(p["id"], "check not built yet in this round (planned, see DESIGN.md section 9); not claimed until its quick command exists")}
          for p in props if p["id"] not in CHECKS]
    man = {
        "version": 1,
        "setup_cmd": "cd lean && lake build",
        "hooks": {"guard": "ARTAP_VERIF", "enable": "no source hooks: all instrumentation is installed from the harness process (ARTAP_VERIF=1 is exported by ./check for future use)",
                  "baseline_off_cmd": BASE_CMD, "source_commits": [], "add_only": True},
        "engines": [{"name": "lean4-model+correspondence", "path": "lean/ + harness/ + check",
                     "serves_properties": [c["property_id"] for c in checks],
                     "kind_free_text": "hand-written executable Lean 4 model, kernel-checked theorems (Props/*.lean), differential correspondence against /repo through a line protocol"}],
        "checks": checks,
        "notes": "See DESIGN.md. exit 2 = infrastructure trouble (never a verdict).",
        "not_applicable": na,
    }
    json.dump(man, open(os.path.join(HERE, "MANIFEST.json"), "w"), indent=1)
if __name__ == "__main__":
    main()
