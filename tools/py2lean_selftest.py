#!/usr/bin/env python3
"""Mutation self-test of the translation tie (tools/py2lean.py).

Works on a scratch git worktree of $REPO (default /repo) under $PY2LEAN_SCRATCH/wt (default
/root/scratch/gen/wt) and on a scratch copy of /verif/lean under $PY2LEAN_SCRATCH/lean, so neither /repo
nor the committed Gen files are touched.  For every covered function: property-breaking edits (the tie must break: `generated:false`
or `tie_checks:false`) and harmless edits (the tie should still check).

    tools/py2lean_selftest.py [Name ...] [--keep]

Prints one line per edit and a summary; exit 0 iff every breaking edit broke the tie (harmless edits
that break it are reported, not failed: they cost a fallback to the correspondence tie, nothing more).
"""
import json
import os
import shutil
import subprocess
import sys

HERE = os.path.dirname(os.path.abspath(__file__))
VERIF = os.path.dirname(HERE)
REPO = os.environ.get("REPO", "/repo")
SCRATCH = os.environ.get("PY2LEAN_SCRATCH", "/root/scratch/gen")
WT = os.path.join(SCRATCH, "wt")
LEAN = os.path.join(SCRATCH, "lean")

sys.path.insert(0, HERE)
from py2lean_mutations import MUTATIONS  # noqa: E402


def sh(*cmd, **kw):
    return subprocess.run(list(cmd), capture_output=True, text=True, **kw)


def setup():
    os.makedirs(SCRATCH, exist_ok=True)
    if not os.path.isdir(WT):
        r = sh("git", "-C", REPO, "worktree", "add", "--detach", WT, "HEAD")
        if r.returncode != 0:
            sys.exit("cannot create worktree: " + r.stderr)
    if not os.path.isdir(LEAN):
        shutil.copytree(os.path.join(VERIF, "lean"), LEAN, symlinks=True)
    for sub in ("Tie", "Gen", "Model"):
        src = os.path.join(VERIF, "lean", "ArtapModel", sub)
        dst = os.path.join(LEAN, "ArtapModel", sub)
        os.makedirs(dst, exist_ok=True)
        for f in os.listdir(src):
            if f.endswith(".lean"):
                with open(os.path.join(src, f), "rb") as a:
                    data = a.read()
                p = os.path.join(dst, f)
                if not os.path.exists(p) or open(p, "rb").read() != data:
                    with open(p, "wb") as b:
                        b.write(data)


def teardown():
    sh("git", "-C", REPO, "worktree", "remove", "--force", WT)
    sh("git", "-C", REPO, "worktree", "prune")
    shutil.rmtree(LEAN, ignore_errors=True)


def tie(name):
    env = dict(os.environ, REPO=WT)
    r = sh(sys.executable, os.path.join(HERE, "py2lean.py"), "--tie", name, "--lean-dir", LEAN, env=env)
    if r.returncode != 0:
        sys.exit("py2lean internal error: " + r.stdout + r.stderr)
    return json.loads(r.stdout.strip().splitlines()[-1])


def apply(path, edits):
    with open(path, encoding="utf-8") as f:
        src = f.read()
    for ed in edits:
        if callable(ed):
            src = ed(src)
            continue
        old, new, *cnt = ed
        n = cnt[0] if cnt else 1
        if src.count(old) < n:
            sys.exit("mutation does not apply (%d < %d occurrences): %r" % (src.count(old), n, old))
        if cnt and cnt[0] == 0:
            src = src.replace(old, new)
        else:
            # the n-th occurrence (1-based)
            idx = -1
            for _ in range(n):
                idx = src.index(old, idx + 1)
            src = src[:idx] + new + src[idx + len(old):]
    with open(path, "w", encoding="utf-8") as f:
        f.write(src)


def main():
    args = [a for a in sys.argv[1:] if not a.startswith("--")]
    keep = "--keep" in sys.argv
    names = args or list(MUTATIONS)
    setup()
    rows = []
    ok = True
    try:
        for name in names:
            m = MUTATIONS[name]
            sh("git", "-C", WT, "checkout", "--", ".")
            base = tie(name)
            rows.append((name, "-", "baseline", "unchanged source", base))
            if not base["tie_checks"]:
                ok = False
            for fn, kind, what, edits in m["edits"]:
                sh("git", "-C", WT, "checkout", "--", ".")
                apply(os.path.join(WT, m["source"]), edits)
                r = tie(name)
                broke = not (r["generated"] and r["tie_checks"])
                rows.append((name, fn, kind, what, r))
                if kind == "break" and not broke:
                    ok = False
                print("%-10s %-28s %-8s %-62s -> %s%s" % (
                    name, fn, kind, what,
                    "tie BROKEN" if broke else "tie checks",
                    "" if (broke == (kind == "break")) else ("   <== MISSED" if kind == "break" else "   (false alarm)")),
                    flush=True)
                if broke:
                    print("           detail: %s" % r["detail"][:200], flush=True)
        sh("git", "-C", WT, "checkout", "--", ".")
    finally:
        if not keep:
            teardown()
    nb = sum(1 for r in rows if r[2] == "break")
    cb = sum(1 for r in rows if r[2] == "break" and not (r[4]["generated"] and r[4]["tie_checks"]))
    nh = sum(1 for r in rows if r[2] == "harmless")
    ch = sum(1 for r in rows if r[2] == "harmless" and r[4]["generated"] and r[4]["tie_checks"])
    print("breaking edits caught: %d/%d   harmless edits absorbed: %d/%d   baselines ok: %s" % (
        cb, nb, ch, nh, all(r[4]["tie_checks"] for r in rows if r[2] == "baseline")))
    return 0 if ok else 1


if __name__ == "__main__":
    sys.exit(main())
