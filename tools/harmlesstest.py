#!/usr/bin/env python3
"""Confirm a behaviour-preserving rewrite and run checks against it (they must NOT raise an alarm).

usage: tools/harmlesstest.py [--record] <dir> [<prop> ...]      (dir holds patch.diff, check.py, meta.json)
Creates a scratch worktree of /repo (outside /repo and /verif), confirms the demonstration passes without and
fails with the change, runs ./check <prop> --tier quick with REPO pointing at the patched worktree, removes the
worktree again and prints one JSON summary line.  (REPO=<worktree> makes the checks import the patched tree; it is
equivalent to `git -C /repo apply` + `git -C /repo checkout -- .` but does not disturb other work in /repo.)
"""
import json, os, subprocess, sys, tempfile, shutil, time
record = "--record" in sys.argv
if record:
    sys.argv.remove("--record")
seed = os.path.abspath(sys.argv[1])
meta = json.load(open(os.path.join(seed, "meta.json")))
props = sys.argv[2:] or [meta["property"]]
wt = tempfile.mkdtemp(prefix="seedwt-", dir="/root/scratch")
os.rmdir(wt)
def sh(cmd, **kw):
    return subprocess.run(cmd, shell=True, capture_output=True, text=True, **kw)
res = {"seed": os.path.basename(seed), "property": meta["property"]}
try:
    r = sh("git -C /repo worktree add -q %s HEAD" % wt); assert r.returncode == 0, r.stderr
    env = dict(os.environ, PYTHONPATH=wt)
    r0 = sh("/venv/bin/python %s/check.py" % seed, env=env, cwd=wt, timeout=1800)
    res["demo_clean_rc"] = r0.returncode
    r = sh("git -C %s apply %s/patch.diff" % (wt, seed)); assert r.returncode == 0, r.stderr
    r1 = sh("/venv/bin/python %s/check.py" % seed, env=env, cwd=wt, timeout=1800)
    res["demo_patched_rc"] = r1.returncode
    res["demo_patched_out"] = (r1.stdout + r1.stderr)[-300:]
    res["checks"] = {}
    for p in props:
        t = time.time()
        r = sh("./check %s --tier quick" % p, env=dict(os.environ, REPO=wt, VERIF_EVIDENCE_DIR="/root/scratch/seed-evidence"), cwd="/verif", timeout=3600)
        vio = [l for l in r.stdout.splitlines() if l.startswith("VIOLATION")]
        nxt = ""
        lines = r.stdout.splitlines()
        for i, l in enumerate(lines):
            if l.startswith("VIOLATION") and i + 1 < len(lines):
                nxt = lines[i + 1].strip()[:300]
        res["checks"][p] = {"rc": r.returncode, "violation": vio[:1], "what": nxt, "s": round(time.time() - t, 1)}
        res.setdefault("tie_broken", []).extend(l[:160] for l in r.stdout.splitlines() if l.startswith("TIE-BROKEN"))
finally:
    # the checks regenerated lean/ArtapModel/Gen/*.lean from the patched tree: regenerate them from /repo again
    sh("python3 /verif/tools/py2lean.py --all", env=dict(os.environ, REPO="/repo"), cwd="/verif")
    sh("git -C /repo worktree remove --force %s" % wt)
    shutil.rmtree(wt, ignore_errors=True)
if record:
    dst = os.path.join("/verif/harmless", os.path.basename(seed))
    os.makedirs(dst, exist_ok=True)
    for f in ("patch.diff", "check.py"):
        if os.path.abspath(os.path.join(seed, f)) != os.path.abspath(os.path.join(dst, f)):
            shutil.copy(os.path.join(seed, f), os.path.join(dst, f))
    meta["confirmed_by_verif"] = {
        "what_was_run": "tools/seedtest.py: scratch worktree of /repo HEAD; check.py on the clean worktree (rc %s), git apply patch.diff, check.py again (rc %s); then ./check <id> --tier quick with REPO=<patched worktree>; worktree removed" % (res.get("demo_clean_rc"), res.get("demo_patched_rc")),
        "oracle_passes_without_rewrite": res.get("demo_clean_rc") == 0,
        "oracle_passes_with_rewrite": res.get("demo_patched_rc") == 0,
        "checks": res.get("checks"),
        "false_alarms": sorted(p for p, c in res.get("checks", {}).items() if c["rc"] == 1),
        "tie_broken_lines": res.get("tie_broken"),
    }
    json.dump(meta, open(os.path.join(dst, "meta.json"), "w"), indent=1)
print(json.dumps(res))
