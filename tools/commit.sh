#!/bin/bash
# Regenerate lean/ArtapModel/Gen from /repo (never commit the translation of a scratch tree), then commit everything.
cd /verif && REPO=/repo python3 tools/py2lean.py --all > /tmp/py2lean_all.json 2>&1
bad=$(grep -c '"tie_checks": false\|"generated": false' /tmp/py2lean_all.json)
echo "ties: $(grep -c '"tie_checks": true' /tmp/py2lean_all.json) ok, $bad broken"
python3 tools_manifest.py
git add -A && git commit -qm "$1" && git log --oneline | head -1
