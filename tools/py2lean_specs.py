"""Spec entries of tools/py2lean.py: what the translator is told about each function.

Types are not inferred from Python.  Per function:
  py         qualified name in the source file
  lean       name of the generated Lean function (namespace Artap.Gen.<Module>)
  header     implicit / instance binders shared by the function and its loop functions
  py_params  canonical names of the Python parameters, by position (renamed parameters are harmless)
  params     Lean parameter list
  ret        type of the value of `return`;  raises=True wraps the result in Option (none = exception)
  bind       binding table: Python expression (written with the canonical parameter names) -> (Lean text, type)
  vars       Python parameters that are Lean variables as they stand: name -> type
  types      accessors of spec types: type -> ".attr" / "['key']" -> (template with {0}, type)
  carrier    opaque types that are only compared
"""

L = lambda t: ("List", t)

_MARKERS = {
    "p[-1]": ("mp", "Int"), "q[-1]": ("mq", "Int"),
    "p[:-1]": ("p", L("α")), "q[:-1]": ("q", L("α")),
}


def _random_sample_2(fn, n, env, want):
    """`random.sample(xs, 2)`: the two drawn positions are the oracle parameters `i`, `j`
    (distinct and in range, otherwise the call raises)."""
    from py2lean import Tm, Op, V, Tup, bad
    import ast
    if len(n.args) != 2 or not (isinstance(n.args[1], ast.Constant) and n.args[1].value == 2):
        bad(n, "random.sample with a sample size other than the constant 2")
    pre, xs, ty = fn.expr(n.args[0], env)
    if not (isinstance(ty, tuple) and ty[0] == "List"):
        bad(n, "random.sample of something that is not a list")
    a, b = fn.tmp(), fn.tmp()
    pre = pre + [("guard", Op("≠", Tm("i", fv=["i"]), Tm("j", fv=["j"]))),
                 ("bind", a, Tm("{0}[i]?", [xs], fv=["i"])), ("bind", b, Tm("{0}[j]?", [xs], fv=["j"]))]
    return pre, Tup([V(a), V(b)]), ("Prod", (ty[1], ty[1]))


def _random_choice_pair(fn, n, env, want):
    """`random.choice(pair)`: oracle parameter `coin` (true = first member)."""
    from py2lean import Tm, If, Op, C, bad
    if len(n.args) != 1:
        bad(n, "random.choice arity")
    pre, c, ty = fn.expr(n.args[0], env)
    if not (isinstance(ty, tuple) and ty[0] == "Prod" and len(ty[1]) == 2 and ty[1][0] == ty[1][1]):
        bad(n, "random.choice of something that is not the sampled pair")
    return pre, If(Op("=", Tm("coin", fv=["coin"]), C("true")), Tm("{0}.1", [c]), Tm("{0}.2", [c])), ty[1][0]


def _random_choice_list(fn, n, env, want):
    """`random.choice(xs)` on a list: the k-th call site (source order) draws position
    `<oracle k> % len(xs)`; IndexError on an empty list."""
    from py2lean import Tm, Op, V, C, bad
    import ast
    sites = sorted((c.lineno, c.col_offset) for c in ast.walk(fn.fn)
                   if isinstance(c, ast.Call) and ast.unparse(c.func) == "random.choice")
    names = fn.s["oracles"]
    k = sites.index((n.lineno, n.col_offset))
    if len(n.args) != 1 or k >= len(names):
        bad(n, "random.choice call site without an oracle parameter in the spec")
    pre, xs, ty = fn.expr(n.args[0], env)
    if not (isinstance(ty, tuple) and ty[0] == "List"):
        bad(n, "random.choice of something that is not a list")
    o = names[k]
    t = fn.tmp()
    ln = Tm("(List.length {0})", [xs])
    pre = pre + [("guard", Op("≠", ln, C("0"))),
                 ("bind", t, Tm("{0}[(%s %% (List.length {0}))]?" % o, [xs], fv=[o]))]
    return pre, V(t), ty[1]


def _individual_by_id(fn, n, env, want):
    """`self.individual(individuals, id)`: ids are positions (distinct ids, as the model assumes), so the first
    member with that id is the member at position `id`; no such member -> `None`, and the feature access
    that follows raises: emitted as the guard `id < n` at the call."""
    from py2lean import Tm, Op, bad
    if len(n.args) != 2 or n.keywords or ast_unparse(n.args[0]) != "individuals":
        bad(n, "self.individual called on something other than (individuals, id)")
    pre, v, ty = fn.expr(n.args[1], env, "Nat")
    if ty != "Nat":
        bad(n, "id of type %s" % ty)
    return pre + [("guard", Op("<", v, Tm("n", fv=["n"])))], v, "Pos"


def ast_unparse(n):
    import ast
    return ast.unparse(n)


SPECS = {
    "Sorting": {
        "source": "artap/operators.py",
        "serves": ["C02", "C03", "C09"],
        "imports": ["ArtapModel.Model.Sorting"],
        "functions": [
            {   # Individuals are positions 0..n-1 (`Pos`, written Nat; ids = positions); the three features that the
                # function writes live in three tables indexed by position (stale values on entry are the parameters
                # counter / dominate / front); the comparator verdict on two members is `cmp i j`.
                "py": "Selector.fast_nondominated_sorting", "lean": "Selector_fast_nondominated_sorting",
                "py_params": ["self", "individuals"],
                "params": [("cmp", "Nat → Nat → Nat"), ("n", "Nat"), ("counter", L("Int")),
                           ("dominate", L(L("Nat"))), ("front", L(("Option", "Nat")))],
                "lean_types": {"Pos": "Nat", "Pos#cs": "Nat", "Pos#features": "Nat"},
                "tables": {"counter": "Int", "dominate": L("Nat"), "front": ("Option", "Nat")},
                "bind": {"individuals": ("(List.range n)", L("Pos")), "len(individuals)": ("n", "Nat")},
                "types": {
                    "Pos": {".features": ("{0}", "Pos#features"), ".costs_signed": ("{0}", "Pos#cs"),
                            ".id": ("{0}", "Nat")},
                    "Pos#features": {"['domination_counter']": ("@counter", "Int"),
                                     "['dominate']": ("@dominate", L("Nat")),
                                     "['front_number']": ("@front", ("Option", "Nat"))},
                },
                "calls": {
                    "self.comparator.compare": {"fn": "cmp", "args": ["Pos#cs", "Pos#cs"], "ret": "Nat"},
                    "self.individual": {"expr": _individual_by_id},
                },
                "ret": "Unit", "raises": True, "none_ret": "()",
                "result": ("{front}", L(("Option", "Nat"))),
                "fuel": ["n + 1"],
                "ignore": ["for sub_front in pareto_front:\n    crowding_distance(sub_front)"],
                "ignore_why": "crowding_distance writes only the crowding_distance feature, never a front number; tied separately (Crowding)",
            },
        ],
    },
    "Sampling": {
        "source": "artap/doe.py",
        "serves": ["C12"],
        "imports": ["ArtapModel.Model.Sampling"],
        "functions": [
            {   # the inner `while i > 0` loop runs on fuel `n_sample` (i < n_sample and every pass at least halves i
                # when base >= 2; base = 1 does not terminate = out of fuel, base = 0 raises in divmod)
                "py": "_van_der_corput", "lean": "van_der_corput",
                "py_params": ["n_sample", "base"], "allow_defaults": True,
                "params": [("n_sample", "Nat"), ("base", "Nat")],
                "vars": {"n_sample": "Nat", "base": "Nat"},
                "ret": L("Rat"), "raises": True,
                "fuel": ["n_sample"],
            },
        ],
    },
    "Dominance": {
        "source": "artap/operators.py",
        "serves": ["C01", "C02", "C03", "C04", "C09"],
        "imports": ["ArtapModel.Model.Dominance"],
        "functions": [
            {   # costs_signed = costs ++ [marker]; the model takes costs and marker separately
                "py": "ParetoDominance.compare", "lean": "ParetoDominance_compare",
                "header": "{α : Type} [LT α] [DecidableLT α]",
                "py_params": ["self", "p", "q"],
                "params": [("p", L("α")), ("q", L("α")), ("mp", "Int"), ("mq", "Int")],
                "ret": "Nat", "carrier": ["α"],
                "bind": _MARKERS,
            },
            {
                "py": "EpsilonDominance.compare", "lean": "EpsilonDominance_compare",
                "py_params": ["self", "p", "q"],
                "params": [("eps", L("Rat")), ("p", L("Rat")), ("q", L("Rat")), ("mp", "Int"), ("mq", "Int")],
                "ret": "Nat", "raises": True,
                "bind": {
                    "p[-1]": ("mp", "Int"), "q[-1]": ("mq", "Int"),
                    "p[:-1]": ("p", L("Rat")), "q[:-1]": ("q", L("Rat")),
                    "self.epsilons": ("eps", L("Rat")),
                },
            },
        ],
    },
    "Selection": {
        "source": "artap/operators.py",
        "serves": ["C03", "C09"],
        "imports": ["ArtapModel.Model.Selection"],
        "open": ["Artap"],
        "functions": [
            {
                "py": "nondominated_cmp", "lean": "nondominated_cmp",
                "py_params": ["p", "q"],
                "params": [("p", "Ind"), ("q", "Ind")],
                "vars": {"p": "Ind", "q": "Ind"},
                "ret": "Int",
                "types": {
                    "Ind": {".features": ("{0}", "Ind#features")},
                    "Ind#features": {"['front_number']": ("{0}.front", "Nat"),
                                     "['crowding_distance']": ("{0}.crowd", "Int")},
                },
            },
            {   # random.sample -> positions i j, random.choice -> coin, the comparator is a parameter
                "py": "TournamentSelector.select", "lean": "TournamentSelector_select",
                "py_params": ["self", "individuals"],
                "params": [("cmp", "Cand → Cand → Nat"), ("individuals", L("Cand")),
                           ("i", "Nat"), ("j", "Nat"), ("coin", "Bool")],
                "vars": {"individuals": L("Cand")},
                "ret": "Cand", "raises": True,
                "types": {
                    "Cand": {".features": ("{0}", "Cand#features"), ".costs_signed": ("{0}", "Cand#cs")},
                    "Cand#features": {"['front_number']": ("{0}.front", "Nat")},
                },
                "calls": {
                    "random.sample": {"expr": _random_sample_2},
                    "random.choice": {"expr": _random_choice_pair},
                    "self.dominance.compare": {"fn": "cmp", "args": ["Cand#cs", "Cand#cs"], "ret": "Nat"},
                },
            },
        ],
    },
    "Equality": {
        "source": "artap/individual.py",
        "serves": ["C20", "C03", "C09"],
        "imports": ["ArtapModel.Model.Equality"],
        "functions": [
            {
                "py": "Individual.__eq__", "lean": "Individual_eq",
                "py_params": ["self", "other"],
                "params": [("v", L("Rat")), ("w", L("Rat"))],
                "ret": "Bool", "raises": True,
                "bind": {"self.vector": ("v", L("Rat")), "other.vector": ("w", L("Rat"))},
            },
        ],
    },
    "Archive": {
        "source": "artap/archive.py",
        "serves": ["C04", "C09", "C18"],
        "imports": ["ArtapModel.Model.Archive"],
        "functions": [
            {   # generic in the element type, the comparator (may raise) and the costs equality, as the model
                "py": "Archive.add", "lean": "Archive_add",
                "header": "{α : Type}",
                "py_params": ["self", "individual"],
                "params": [("cmp", "α → α → Option Nat"), ("same", "α → α → Bool"),
                           ("contents", L("α")), ("individual", "α")],
                "vars": {"individual": "α"},
                "state": {"self._contents": ("contents", L("α"))},
                "ret": "Bool", "raises": True,
                "result": ("({contents}, {ret})", ("Prod", (L("α"), "Bool"))),
                "types": {"α": {".costs_signed": ("{0}", "α#cs")}},
                "eq": {"α#cs": "(same {0} {1})"},
                "calls": {"self._dominance.compare": {"fn": "cmp", "args": ["α#cs", "α#cs"], "ret": "Nat", "raises": True}},
            },
        ],
    },
    "Variation": {
        "source": "artap/operators.py",
        "serves": ["C08"],
        "imports": ["ArtapModel.Model.Variation"],
        "functions": [
            {
                "py": "Operator.clip", "lean": "Operator_clip",
                "py_params": ["value", "min_value", "max_value"],
                "params": [("value", "Rat"), ("min_value", "Rat"), ("max_value", "Rat")],
                "vars": {"value": "Rat", "min_value": "Rat", "max_value": "Rat"},
                "ret": "Rat",
            },
        ],
    },
    "Runs": {
        "source": "artap/operators.py",
        "serves": ["C09"],
        "imports": ["ArtapModel.Model.Runs"],
        "functions": [
            {   # the two random.choice draws are the oracle parameters pick1, pick2 (as in the model)
                "py": "Selector.pop_acceptance", "lean": "Selector_pop_acceptance",
                "header": "{D : Type}",
                "py_params": ["self", "individuals", "individual"],
                "params": [("cmp", "D → D → Nat"), ("eq", "D → D → Bool"), ("individuals", L("D")),
                           ("individual", "D"), ("pick1", "Nat"), ("pick2", "Nat")],
                "vars": {"individual": "D"},
                "state": {"individuals": ("individuals", L("D"))},
                "ret": "Unit", "raises": True,
                "result": ("{individuals}", L("D")),
                "types": {"D": {".costs_signed": ("{0}", "D#cs")}},
                "eq": {"D": "(eq {0} {1})"},
                "oracles": ["pick1", "pick2"],
                "calls": {
                    "self.dominance.compare": {"fn": "cmp", "args": ["D#cs", "D#cs"], "ret": "Nat"},
                    "random.choice": {"expr": _random_choice_list},
                },
            },
        ],
    },
}
