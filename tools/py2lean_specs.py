"""Spec entries of tools/py2lean.py: what the translator is told about each function.

Types are not inferred from Python.  Per function:
  py         qualified name in the source file
  lean       name of the generated Lean function (namespace Artap.Gen.<Module>)
  header     implicit / instance binders shared by the function and its loop functions
  py_params  canonical names of the Python parameters, by position (renamed parameters are harmless)
  params     Lean parameter list
  ret        type of the value of `return`;  raises=True wraps the result in Option (none = exception)
  bind       binding table: Python expression (written with the canonical parameter names) -> (Lean text, type)
  vars       Python parameters that are Lean variables as they stand: name -> type
  types      accessors of spec types: type -> ".attr" / "['key']" -> (template with {0}, type)
  carrier    opaque types that are only compared
  lean_types spec type -> the Lean type it is written as (e.g. individuals as positions: "Pos" -> "Nat")
  tables     per-object feature tables (lists by position): lean var -> value type; an accessor "@table" reads / writes it
  fields     attribute (source text) -> (record state variable, field, type): one object represented as a record
  types      an accessor may have a third component, the setter template `{{ {0} with f := {1} }}`;
             "[]" = indexing by a natural number (template over {0}, {1}, partial), "[:-1]" a slice named in the spec
  fuel       one entry per `while` loop (source order): Lean term over the parameters, or an oracle list
             {"stream", "elem", "pattern"} consumed one member per pass
  ignore     statements removed before compilation (source text, `re:<regex>`, or (text, reason)); shown in the header
  try        the oracle form of try/except: call, outcome term, ok pattern, ghost updates, handlers -> outcome class
  raise / return_none   exceptions as values of the result
  sort, binops, coerce, if_convert_append, ghost_state, allow_defaults   see tools/py2lean.py
  objects    spec record types whose values stand for mutable objects -> why the members of a list of them are distinct
             objects (object loops, see tools/py2lean.py); strings: string constants may be compared for equality
  prelude    (module level) Lean declarations of record types, printed verbatim in the generated file
  bind       an entry may have a third component "partial": the Lean text is Option-valued, none = the expression raises
Fourth round:
  num        floats are values of a carrier α with the operations of Artap.Num (see NUM_DOC in tools/py2lean.py);
             num_lt = the `lt` of the order class for `a < b` on floats
  knot       name of the definition that closes the recursion of a function compiled in open-recursion form (the
             self-call is routed through the first parameter by a `calls` entry); recursion budget = first argument
  iterables  spec type -> (template, element type): what `for item in value` yields (`?` = partial)
  strdict    dicts with string keys; the value = the document type that the items of a display are converted to
  int_is_int `int(e)` on an integer is that integer;  numpy_ints: values of type NpInt are numpy integers (`//` by zero
             is 0, a list may be repeated by them); subscript_assign: handler for `H[:, i] = e`
  try_dropped  exception class -> reason: handlers that are dropped (impossible in the modelled world)
"""

L = lambda t: ("List", t)

_MARKERS = {
    "p[-1]": ("mp", "Int"), "q[-1]": ("mq", "Int"),
    "p[:-1]": ("p", L("α")), "q[:-1]": ("q", L("α")),
}


def _random_sample_2(fn, n, env, want):
    """`random.sample(xs, 2)`: the two drawn positions are the oracle parameters `i`, `j`
    (distinct and in range, otherwise the call raises)."""
    from py2lean import Tm, Op, V, Tup, bad
    import ast
    if len(n.args) != 2 or not (isinstance(n.args[1], ast.Constant) and n.args[1].value == 2):
        bad(n, "random.sample with a sample size other than the constant 2")
    pre, xs, ty = fn.expr(n.args[0], env)
    if not (isinstance(ty, tuple) and ty[0] == "List"):
        bad(n, "random.sample of something that is not a list")
    a, b = fn.tmp(), fn.tmp()
    pre = pre + [("guard", Op("≠", Tm("i", fv=["i"]), Tm("j", fv=["j"]))),
                 ("bind", a, Tm("{0}[i]?", [xs], fv=["i"])), ("bind", b, Tm("{0}[j]?", [xs], fv=["j"]))]
    return pre, Tup([V(a), V(b)]), ("Prod", (ty[1], ty[1]))


def _random_choice_pair(fn, n, env, want):
    """`random.choice(pair)`: oracle parameter `coin` (true = first member)."""
    from py2lean import Tm, If, Op, C, bad
    if len(n.args) != 1:
        bad(n, "random.choice arity")
    pre, c, ty = fn.expr(n.args[0], env)
    if not (isinstance(ty, tuple) and ty[0] == "Prod" and len(ty[1]) == 2 and ty[1][0] == ty[1][1]):
        bad(n, "random.choice of something that is not the sampled pair")
    return pre, If(Op("=", Tm("coin", fv=["coin"]), C("true")), Tm("{0}.1", [c]), Tm("{0}.2", [c])), ty[1][0]


def _random_choice_list(fn, n, env, want):
    """`random.choice(xs)` on a list: the k-th call site (source order) draws position
    `<oracle k> % len(xs)`; IndexError on an empty list."""
    from py2lean import Tm, Op, V, C, bad
    import ast
    sites = sorted((c.lineno, c.col_offset) for c in ast.walk(fn.fn)
                   if isinstance(c, ast.Call) and ast.unparse(c.func) == "random.choice")
    names = fn.s["oracles"]
    k = sites.index((n.lineno, n.col_offset))
    if len(n.args) != 1 or k >= len(names):
        bad(n, "random.choice call site without an oracle parameter in the spec")
    pre, xs, ty = fn.expr(n.args[0], env)
    if not (isinstance(ty, tuple) and ty[0] == "List"):
        bad(n, "random.choice of something that is not a list")
    o = names[k]
    t = fn.tmp()
    ln = Tm("(List.length {0})", [xs])
    pre = pre + [("guard", Op("≠", ln, C("0"))),
                 ("bind", t, Tm("{0}[(%s %% (List.length {0}))]?" % o, [xs], fv=[o]))]
    return pre, V(t), ty[1]


def _individual_by_id(fn, n, env, want):
    """`self.individual(individuals, id)`: ids are positions (distinct ids, as the model assumes), so the first
    member with that id is the member at position `id`; no such member -> `None`, and the feature access
    that follows raises: emitted as the guard `id < n` at the call."""
    from py2lean import Tm, Op, bad
    if len(n.args) != 2 or n.keywords or ast_unparse(n.args[0]) != "individuals":
        bad(n, "self.individual called on something other than (individuals, id)")
    pre, v, ty = fn.expr(n.args[1], env, "Nat")
    if ty != "Nat":
        bad(n, "id of type %s" % ty)
    return pre + [("guard", Op("<", v, Tm("n", fv=["n"])))], v, "Pos"


def _individual_ctor(fn, n, env, want):
    """`Individual(vector)`: the fresh design object that goes to `Problem.failed` is its vector (`FInd`)."""
    from py2lean import bad
    if len(n.args) != 1 or n.keywords:
        bad(n, "Individual(...) with other than one positional argument")
    pre, v, ty = fn.expr(n.args[0], env)
    if ty != ("List", "Rat"):
        bad(n, "Individual(...) of something that is not a vector")
    return pre, v, "FInd"


def _calc_signed_costs(fn, st, env, after):
    """`individual.calc_signed_costs(self.problem.signs)` (individual.py, a callee, not translated here):
    costs_signed = signs * round(costs) + [not features['feasible']] - the model's signedCosts / markerOf."""
    from py2lean import Let, Tm, bad
    import ast
    c = st.value
    if len(c.args) != 1 or c.keywords or ast.unparse(c.args[0]) != "self.problem.signs":
        bad(st, "calc_signed_costs called with something other than self.problem.signs")
    return Let("d", Tm("{{ d with signed := signedCosts env d.prec d.costs, marker := some (markerOf d.feasible) }}",
                       fv=["d", "env"]), after(fn.forget(env, ["d"])))



def _objective_call(fn, n, env, want):
    """`self.problem.evaluate(individual)`: the user's objective is the parameter f; the call is logged in the ghost
    field `fcalls` of the record state `s` (the model's log of calls of the true objective)."""
    from py2lean import Tm, bad
    if len(n.args) != 1 or n.keywords:
        bad(n, "self.problem.evaluate with other than one positional argument")
    pre, v, ty = fn.expr(n.args[0], env)
    if ty != "Req":
        bad(n, "self.problem.evaluate called on something that is not the request")
    pre = pre + [("let", "s", Tm("{{ s with fcalls := s.fcalls ++ [{0}.x] }}", [v], fv=["s"]))]
    return pre, Tm("(f {0}.x)", [v], fv=["f"]), ("List", "Int")


def _evaluate_individual_call(fn, n, env, want):
    """`self.evaluate_individual(individual)`: the function generated above (same class); it updates the record
    state and may raise."""
    from py2lean import Tm, V, bad
    if len(n.args) != 1 or n.keywords:
        bad(n, "self.evaluate_individual with other than one positional argument")
    pre, v, ty = fn.expr(n.args[0], env)
    if ty != "Req":
        bad(n, "self.evaluate_individual called on something that is not the request")
    t = fn.tmp()
    return (pre + [("bind", ("s", t), Tm("(SurrogateModelPredict_evaluate_individual f ts s {0})", [v], fv=["f", "ts", "s"]))],
            V(t), ("List", "Int"))


def _add_data_stmt(fn, st, env, after):
    """`self.add_data(x, y)`: the function generated from SurrogateModel.add_data"""
    from py2lean import Let, Tm, bad
    c = st.value
    if len(c.args) != 2 or c.keywords:
        bad(st, "self.add_data with other than two positional arguments")
    p1, a, ta = fn.expr(c.args[0], env, ("List", "Int"))
    p2, b, tb = fn.expr(c.args[1], env, ("List", "Int"))
    if ta != ("List", "Int") or tb != ("List", "Int"):
        bad(st, "self.add_data on something other than a vector and a cost list")
    return fn.wrap(p1 + p2, Let("s", Tm("(SurrogateModel_add_data s {0} {1})", [a, b], fv=["s"]), after(fn.forget(env, ["s"]))), st, env)


def _train_stmt(fn, st, env, after):
    """`self.train()` (abstract; scikit / SMT implementations): modelled by what the wrapper relies on, as in
    Model/Surrogate.lean - the call happens (counted, with the size of the training set it sees) and sets trained."""
    from py2lean import Let, Tm, bad
    c = st.value
    if c.args or c.keywords:
        bad(st, "self.train with arguments")
    return Let("s", Tm("{{ s with trained := true, trainCalls := s.trainCalls + 1, trainSizes := s.trainSizes ++ [s.xs.length] }}",
                       fv=["s"]), after(fn.forget(env, ["s"])))


def _np_round(fn, n, env, want):
    """`np.round(y, decimals=self.features["precision"])`: the rounding function of the model's environment at the
    design's precision (`env.rnd prec y`; numpy's rounding itself is in the trusted base, as in Model/Eval.lean)."""
    from py2lean import Tm, bad
    import ast
    if len(n.args) != 1 or len(n.keywords) != 1 or n.keywords[0].arg != "decimals" \
            or ast.unparse(n.keywords[0].value) != "self.features['precision']":
        bad(n, "np.round called other than as np.round(y, decimals=self.features['precision'])")
    pre, v, ty = fn.expr(n.args[0], env, "Rat")
    if ty != "Rat":
        bad(n, "np.round of a value of type %s" % ty)
    return pre, Tm("(env.rnd prec {0})", [v], fv=["env", "prec"]), "Rat"


def _child_ctor(fn, n, env, want):
    """`Individual(vector)` in the worst-case evaluator: a fresh neighbour design (`Child.fresh`)."""
    from py2lean import Tm, bad
    if len(n.args) != 1 or n.keywords:
        bad(n, "Individual(...) with other than one positional argument")
    pre, v, ty = fn.expr(n.args[0], env)
    if ty != ("List", "Rat"):
        bad(n, "Individual(...) of something that is not a vector")
    return pre, Tm("(Child.fresh {0})", [v]), "Child"


def _uniform_draw(fn, n, env, want):
    """`uniform(0, 1)` (random.uniform): the next member of the oracle list `eps` (state variable); the list running
    dry is `none`.  That the draws lie in [0, 1] is a hypothesis of the theorems that need it, not of the tie."""
    from py2lean import Tm, V, bad
    import ast
    if fn.imports.get("uniform") != "random.uniform" or len(n.args) != 2 or n.keywords \
            or [ast.unparse(a) for a in n.args] != ["0", "1"]:
        bad(n, "uniform called other than as random.uniform(0, 1)")
    t = fn.tmp()
    return [("bind", (t, "eps"), Tm("(List.head? eps).map (fun e => (e, List.tail eps))", fv=["eps"]))], V(t), "Num"


def ast_unparse(n):
    import ast
    return ast.unparse(n)


SPECS = {
    "Sorting": {
        "source": "artap/operators.py",
        "serves": ["C02", "C03", "C09"],
        "imports": ["ArtapModel.Model.Sorting"],
        "functions": [
            {   # Individuals are positions 0..n-1 (`Pos`, written Nat; ids = positions); the three features that the
                # function writes live in three tables indexed by position (stale values on entry are the parameters
                # counter / dominate / front); the comparator verdict on two members is `cmp i j`.
                "py": "Selector.fast_nondominated_sorting", "lean": "Selector_fast_nondominated_sorting",
                "py_params": ["self", "individuals"],
                "params": [("cmp", "Nat → Nat → Nat"), ("n", "Nat"), ("counter", L("Int")),
                           ("dominate", L(L("Nat"))), ("front", L(("Option", "Nat")))],
                "lean_types": {"Pos": "Nat", "Pos#cs": "Nat", "Pos#features": "Nat"},
                "tables": {"counter": "Int", "dominate": L("Nat"), "front": ("Option", "Nat")},
                "bind": {"individuals": ("(List.range n)", L("Pos")), "len(individuals)": ("n", "Nat")},
                "types": {
                    "Pos": {".features": ("{0}", "Pos#features"), ".costs_signed": ("{0}", "Pos#cs"),
                            ".id": ("{0}", "Nat")},
                    "Pos#features": {"['domination_counter']": ("@counter", "Int"),
                                     "['dominate']": ("@dominate", L("Nat")),
                                     "['front_number']": ("@front", ("Option", "Nat"))},
                },
                "calls": {
                    "self.comparator.compare": {"fn": "cmp", "args": ["Pos#cs", "Pos#cs"], "ret": "Nat"},
                    "self.individual": {"expr": _individual_by_id},
                },
                "ret": "Unit", "raises": True, "none_ret": "()",
                "result": ("{front}", L(("Option", "Nat"))),
                "fuel": ["n + 1"],
                "ignore": [r"re:for (\w+) in \w+:\n    crowding_distance\(\1\)"],
                "ignore_why": "crowding_distance writes only the crowding_distance feature, never a front number; tied separately (Crowding)",
            },
        ],
    },
    "Crowding": {
        "source": "artap/operators.py",
        "serves": ["C03"],
        "imports": ["ArtapModel.Model.Selection"],
        "open": ["Artap"],
        "functions": [
            {   # `front` is a list of record values `CEnt` (the model's entry: idx, costs = costs_signed[:-1], acc =
                # features['crowding_distance'] with none = math.inf; the ghost field `rest` is never touched).
                # A feature write through `front[i]` replaces member i: valid because the members of a front are
                # distinct objects.  `x.costs_signed[dim]` is translated as the cost `x.costs[dim]?`: for
                # dim = len(costs) Python would read the feasibility marker instead of raising - not translated
                # (`none`), exactly as in the hand-written model.
                "py": "crowding_distance", "lean": "crowding_distance",
                "py_params": ["front"],
                "params": [("front", L("CEnt"))],
                "state": {"front": ("front", L("CEnt"))},
                "ret": "Unit", "raises": True,
                "result": ("{front}", L("CEnt")),
                "types": {
                    "CEnt": {".features": ("{0}", "CEnt#features"), ".costs_signed": ("{0}.costs", "CEnt#cs")},
                    "CEnt#features": {"['crowding_distance']": ("{0}.acc", ("Option", "Rat"), "{{ {0} with acc := {1} }}")},
                    "CEnt#cs": {"[:-1]": ("{0}", L("Rat")), "[]": ("{0}[{1}]?", "Rat")},
                },
                "lean_types": {"CEnt#cs": "List Rat", "CEnt#features": "CEnt"},
                "bind": {"math.inf": ("(none : Option Rat)", ("Option", "Rat"))},
                "binops": {("Option Rat", "+", "Rat"): ("(addOpt {0} {1})", ("Option", "Rat"))},
                "sort": "Rat",
            },
        ],
    },
    "Eval": {
        "source": "artap/job.py",
        "serves": ["C05", "C06"],
        "imports": ["ArtapModel.Model.Eval"],
        "open": ["Artap.Eval"],
        "functions": [
            {   # `individual` is the record value d : Design, `self.problem.failed` the list `failed` (of vectors), the
                # objective `self.problem.surrogate.evaluate(individual)` is the oracle env.obj (outcome classes ok /
                # transient = TimeoutError, RuntimeError / fatal = anything else); the ghost call log and call counter
                # of the model are updated at the oracle call.  Exceptions are values of the result (Err).
                "py": "Job.evaluate", "lean": "Job_evaluate",
                "py_params": ["self", "individual"],
                "params": [("env", "Env"), ("d", "Design"), ("log", L(("Prod", ("Nat", L("Rat"))))),
                           ("failed", L(L("Rat")))],
                "state": {"individual": ("d", "Design"), "self.problem.failed": ("failed", L("FInd"))},
                "ghost_state": {"log": L(("Prod", ("Nat", L("Rat"))))},
                "lean_types": {"FInd": "(List Rat)"},
                "fields": {
                    "individual.state": ("d", "state", "State"),
                    "individual.costs": ("d", "costs", L("Rat")),
                    "individual.vector": ("d", "vec", L("Rat")),
                    "individual.features['feasible']": ("d", "feasible", "Feas"),
                },
                "bind": {
                    "individual.State.EVALUATED": ("State.evaluated", "State"),
                    "individual.State.IN_PROGRESS": ("State.inProgress", "State"),
                    "individual.State.EMPTY": ("State.empty", "State"),
                    "self.problem is not None": ("true", "Bool"),
                    # the vector drawn after the call that has just failed (the call counter was advanced at the call)
                    "VectorAndNumbers.gen_vector(self.problem.parameters)": ("(env.reroll d.key (d.ncalls - 1))", L("Rat")),
                },
                "carrier": ["State"],
                "coerce": {("Bool", "Feas"): "(if {0} = true then Feas.yes else Feas.no)"},
                "calls": {
                    "self.problem.evaluate_inequality_constraints": {"fn": "env.cons", "args": [L("Rat")], "ret": L("Rat")},
                    "Individual": {"expr": _individual_ctor},
                    "individual.calc_signed_costs": {"stmt": _calc_signed_costs, "mutates": ["d"]},
                },
                "try": {
                    "call": "self.problem.surrogate.evaluate(individual)",
                    "outcome": "(env.obj d.key d.ncalls d.vec)",
                    "ok": (".ok {0}", L("Rat")),
                    "ghost": [("log", "(log ++ [(d.key, d.vec)])"), ("d", "{ d with ncalls := d.ncalls + 1 }")],
                    "handlers": {"(TimeoutError, RuntimeError)": (".transient _", [], None),
                                 "": (".fatal tag", ["tag"], "(some (Err.fatal tag))")},
                },
                "raise": {"RuntimeError('To many failures has appeared.')": "(some Err.tooMany)"},
                "return_none": "(none : Option Err)",
                "ret": ("Option", "Err"), "raises": False,
                "result": ("({ret}, {d}, ({{ log := {log}, failed := {failed} }} : World))",
                           ("Prod", (("Option", "Err"), "Design", "World"))),
                "ignore": [
                    ("individual.features['start_time'] = time.time()", "timing information, not part of the model"),
                    ("t_s = time.time()", "timing information, not part of the model"),
                    ("individual.features['finish_time'] = time.time()", "timing information, not part of the model"),
                    ("self.problem.data_store.sync_individual(individual)", "the write to the store is the subject of C10/C11"),
                    ("print('Job: error:', e)", "console output"),
                    ("print('Job: unexpected error:', sys.exc_info()[0])", "console output"),
                    (r"re:\w+\.state = individual\.State\.FAILED", "state of the fresh object that only carries the failed vector"),
                ],
            },
        ],
    },
    "Numbers": {
        "source": "artap/utils.py",
        "serves": ["C12", "C08"],
        "imports": ["ArtapModel.Model.Sampling"],
        "functions": [
            {   # specialised to the calls the model covers: bounds given, uniform distribution, real parameter;
                # `random()` is the oracle parameter u, `round` is Python 3's round-half-even (`pyRound`)
                "py": "VectorAndNumbers.gen_number", "lean": "gen_number",
                "py_params": ["cls", "bounds", "precision", "distribution", "p_type"], "allow_defaults": True,
                "params": [("lb", "Rat"), ("ub", "Rat"), ("precision", "Rat"), ("u", "Rat")],
                "vars": {"precision": "Rat"}, "mutable_params": ["precision"],
                "bind": {"bounds[0]": ("lb", "Rat"), "bounds[1]": ("ub", "Rat"), "random()": ("u", "Rat")},
                "static": {"bounds is None": False, "distribution == 'uniform'": True,
                           "distribution == 'normal'": False, "p_type == 'integer'": False},
                "calls": {"round": {"fn": "Artap.Sampling.pyRound", "args": ["Rat"], "ret": "Int"}},
                "ret": "Rat", "raises": True,
            },
        ],
    },
    "Sampling": {
        "source": "artap/doe.py",
        "serves": ["C12"],
        "imports": ["ArtapModel.Model.Sampling"],
        "functions": [
            {   # the inner `while i > 0` loop runs on fuel `n_sample` (i < n_sample and every pass at least halves i
                # when base >= 2; base = 1 does not terminate = out of fuel, base = 0 raises in divmod)
                "py": "_van_der_corput", "lean": "van_der_corput",
                "py_params": ["n_sample", "base"], "allow_defaults": True,
                "params": [("n_sample", "Nat"), ("base", "Nat")],
                "vars": {"n_sample": "Nat", "base": "Nat"},
                "ret": L("Rat"), "raises": True,
                "fuel": ["n_sample"],
            },
        ],
    },
    "Genetic": {
        "source": "artap/algorithm_genetic.py",
        "serves": ["C09"],
        "imports": ["ArtapModel.Model.Runs"],
        "functions": [
            {   # selection, crossover and mutation are not translated: their results, the two children of each pass of
                # the `while` loop, are the members of the oracle list `pairs` (one pair per pass; the list running
                # dry is `none`), exactly as in the hand-written `Artap.Runs.generate`
                "py": "GeneticAlgorithm.generate", "lean": "GeneticAlgorithm_generate",
                "header": "{D : Type}",
                "py_params": ["self", "parents", "archive"], "allow_defaults": True,
                "params": [("eq", "D → D → Bool"), ("N", "Nat"), ("pairs", L(("Prod", ("D", "D"))))],
                "bind": {"self.options['max_population_size']": ("N", "Nat")},
                "eq": {"D": "(eq {0} {1})"},
                "ret": L("D"), "raises": True,
                "if_convert_append": True,
                "fuel": [{"stream": "pairs", "elem": ("Prod", ("D", "D")), "pattern": ("child1", "child2")}],
                "ignore": [
                    "parent1 = self.selector.select(parents)",
                    "if archive:\n    if len(archive) <= 1:\n        parent2 = self.selector.select(parents)\n"
                    "    else:\n        parent2 = archive.rand_choice()\nelse:\n    parent2 = self.selector.select(parents)",
                    "vector_1, vector_2 = self.crossover.cross(parent1.vector, parent2.vector)",
                    "child1 = parent1.__class__(vector_1)",
                    "child2 = parent1.__class__(vector_2)",
                    "child1.vector = self.mutator.mutate(child1.vector, child2.vector)",
                    "child2.vector = self.mutator.mutate(child2.vector, child1.vector)",
                ],
                "ignore_why": "selection / crossover / mutation: their results are the oracle pair (child1, child2) of the pass",
            },
        ],
    },
    "Dominance": {
        "source": "artap/operators.py",
        "serves": ["C01", "C02", "C03", "C04", "C09"],
        "imports": ["ArtapModel.Model.Dominance"],
        "functions": [
            {   # costs_signed = costs ++ [marker]; the model takes costs and marker separately
                "py": "ParetoDominance.compare", "lean": "ParetoDominance_compare",
                "header": "{α : Type} [LT α] [DecidableLT α]",
                "py_params": ["self", "p", "q"],
                "params": [("p", L("α")), ("q", L("α")), ("mp", "Int"), ("mq", "Int")],
                "ret": "Nat", "carrier": ["α"],
                "bind": _MARKERS,
            },
            {
                "py": "EpsilonDominance.compare", "lean": "EpsilonDominance_compare",
                "py_params": ["self", "p", "q"],
                "params": [("eps", L("Rat")), ("p", L("Rat")), ("q", L("Rat")), ("mp", "Int"), ("mq", "Int")],
                "ret": "Nat", "raises": True,
                "bind": {
                    "p[-1]": ("mp", "Int"), "q[-1]": ("mq", "Int"),
                    "p[:-1]": ("p", L("Rat")), "q[:-1]": ("q", L("Rat")),
                    "self.epsilons": ("eps", L("Rat")),
                },
            },
        ],
    },
    "Selection": {
        "source": "artap/operators.py",
        "serves": ["C03", "C09"],
        "imports": ["ArtapModel.Model.Selection"],
        "open": ["Artap"],
        "functions": [
            {
                "py": "nondominated_cmp", "lean": "nondominated_cmp",
                "py_params": ["p", "q"],
                "params": [("p", "Ind"), ("q", "Ind")],
                "vars": {"p": "Ind", "q": "Ind"},
                "ret": "Int",
                "types": {
                    "Ind": {".features": ("{0}", "Ind#features")},
                    "Ind#features": {"['front_number']": ("{0}.front", "Nat"),
                                     "['crowding_distance']": ("{0}.crowd", "Int")},
                },
            },
            {   # random.sample -> positions i j, random.choice -> coin, the comparator is a parameter
                "py": "TournamentSelector.select", "lean": "TournamentSelector_select",
                "py_params": ["self", "individuals"],
                "params": [("cmp", "Cand → Cand → Nat"), ("individuals", L("Cand")),
                           ("i", "Nat"), ("j", "Nat"), ("coin", "Bool")],
                "vars": {"individuals": L("Cand")},
                "ret": "Cand", "raises": True,
                "types": {
                    "Cand": {".features": ("{0}", "Cand#features"), ".costs_signed": ("{0}", "Cand#cs")},
                    "Cand#features": {"['front_number']": ("{0}.front", "Nat")},
                },
                "calls": {
                    "random.sample": {"expr": _random_sample_2},
                    "random.choice": {"expr": _random_choice_pair},
                    "self.dominance.compare": {"fn": "cmp", "args": ["Cand#cs", "Cand#cs"], "ret": "Nat"},
                },
            },
        ],
    },
    "Equality": {
        "source": "artap/individual.py",
        "serves": ["C20", "C03", "C09"],
        "imports": ["ArtapModel.Model.Equality"],
        "functions": [
            {
                "py": "Individual.__eq__", "lean": "Individual_eq",
                "py_params": ["self", "other"],
                "params": [("v", L("Rat")), ("w", L("Rat"))],
                "ret": "Bool", "raises": True,
                "bind": {"self.vector": ("v", L("Rat")), "other.vector": ("w", L("Rat"))},
            },
        ],
    },
    "Archive": {
        "source": "artap/archive.py",
        "serves": ["C04", "C09", "C18"],
        "imports": ["ArtapModel.Model.Archive"],
        "functions": [
            {   # generic in the element type, the comparator (may raise) and the costs equality, as the model
                "py": "Archive.add", "lean": "Archive_add",
                "header": "{α : Type}",
                "py_params": ["self", "individual"],
                "params": [("cmp", "α → α → Option Nat"), ("same", "α → α → Bool"),
                           ("contents", L("α")), ("individual", "α")],
                "vars": {"individual": "α"},
                "state": {"self._contents": ("contents", L("α"))},
                "ret": "Bool", "raises": True,
                "result": ("({contents}, {ret})", ("Prod", (L("α"), "Bool"))),
                "types": {"α": {".costs_signed": ("{0}", "α#cs")}},
                "eq": {"α#cs": "(same {0} {1})"},
                "calls": {"self._dominance.compare": {"fn": "cmp", "args": ["α#cs", "α#cs"], "ret": "Nat", "raises": True}},
            },
        ],
    },
    "Swarm": {
        "source": "artap/algorithm_swarm.py",
        "serves": ["C18", "C08"],
        "imports": ["ArtapModel.Model.Swarm"],
        "prelude": """
/-- a particle as `update_position` sees it: `individual.vector` and `individual.features['velocity']` -/
structure Particle where
  vector : List Rat
  velocity : List Rat

/-- a particle as `update_particle_best` sees it: `costs_signed`, `features['best_cost']`, `vector`,
`features['best_vector']` (κ: signed cost vectors, V: design vectors; both are only moved around) -/
structure PBest (κ V : Type) where
  costs_signed : κ
  best_cost : κ
  vector : V
  best_vector : V
""",
        "functions": [
            {
                "py": "SwarmAlgorithm.speed_constriction", "lean": "speed_constriction",
                "py_params": ["velocity", "u_bound", "l_bound"],
                "params": [("velocity", "Rat"), ("u_bound", "Rat"), ("l_bound", "Rat")],
                "vars": {"velocity": "Rat", "u_bound": "Rat", "l_bound": "Rat"}, "mutable_params": ["velocity"],
                "ret": "Rat",
            },
            {   # `population` is a list of record values PBest (distinct objects: CopySelector / the generator build a
                # fresh object per particle); the comparator verdict on (costs_signed, best_cost) is the parameter cmp.
                # `features['best_cost']` is a cost vector (init_pbest has run): the call with best_cost = None raises a
                # TypeError inside the comparator and is outside the model.  The result gives the attribute *values* at
                # return; that best_vector then is the same list object as vector is not represented.
                "py": "SwarmAlgorithm.update_particle_best", "lean": "update_particle_best",
                "header": "{κ V : Type}",
                "py_params": ["self", "population"],
                "params": [("cmp", "κ → κ → Nat"), ("population", L("PBest"))],
                "state": {"population": ("population", L("PBest"))},
                "objects": {"PBest": "every particle of a swarm is an object of its own"},
                "lean_types": {"PBest": "(PBest κ V)", "PBest#features": "(PBest κ V)"},
                "types": {
                    "PBest": {".costs_signed": ("{0}.costs_signed", "κ"), ".vector": ("{0}.vector", "V"),
                              ".features": ("{0}", "PBest#features")},
                    "PBest#features": {
                        "['best_cost']": ("{0}.best_cost", "κ", "{{ {0} with best_cost := {1} }}"),
                        "['best_vector']": ("{0}.best_vector", "V", "{{ {0} with best_vector := {1} }}")},
                },
                "calls": {"self.dominance.compare": {"fn": "cmp", "args": ["κ", "κ"], "ret": "Nat"}},
                "ret": "Unit", "raises": False, "none_ret": "()",
                "result": ("{population}", L("PBest")),
            },
        ] + [
            {   # `individuals` is a list of record values Particle (distinct objects), `self.parameters` the list of
                # (lower, upper) bounds (`parameter['bounds'][0]`, `parameter['bounds'][1]`); IndexError (velocity
                # shorter than the coordinates visited) is `none`
                "py": "%s.update_position" % cls, "lean": "%s_update_position" % cls,
                "py_params": ["self", "individuals"],
                "params": [("params", L("Param")), ("individuals", L("Particle"))],
                "state": {"individuals": ("individuals", L("Particle"))},
                "objects": {"Particle": "every particle of a swarm is an object of its own"},
                "bind": {"self.parameters": ("params", L("Param"))},
                "lean_types": {"Param": "(Rat × Rat)", "Param#bounds": "(Rat × Rat)", "Particle#features": "Particle"},
                "types": {
                    "Particle": {".vector": ("{0}.vector", L("Rat"), "{{ {0} with vector := {1} }}"),
                                 ".features": ("{0}", "Particle#features")},
                    "Particle#features": {"['velocity']": ("{0}.velocity", L("Rat"), "{{ {0} with velocity := {1} }}")},
                    "Param": {"['bounds']": ("{0}", "Param#bounds")},
                    "Param#bounds": {"[0]": ("{0}.1", "Rat"), "[1]": ("{0}.2", "Rat")},
                },
                "ret": "Unit", "raises": True, "none_ret": "()",
                "result": ("{individuals}", L("Particle")),
            } for cls in ("OMOPSO", "SMPSO", "PSOGA")
        ],
    },
    "Truncate": {
        "source": "artap/archive.py",
        "serves": ["C04", "C18"],
        "imports": ["ArtapModel.Model.Archive"],
        "functions": [
            {   # generic in the element type; `x.features[getter]` is the parameter feat (the model's total feature
                # function: every member carries the feature, a KeyError is outside the model; the keys are compared
                # as integers - doubles travel through the order embedding, regime R1); `size` is a natural number
                # (max_population_size; a negative slice bound would count from the end)
                "py": "Archive.truncate", "lean": "Archive_truncate",
                "header": "{α : Type}",
                "py_params": ["self", "size", "getter", "larger_preferred"], "allow_defaults": True,
                "params": [("feat", "α → Int"), ("contents", L("α")), ("size", "Nat"), ("larger_preferred", "Bool")],
                "vars": {"size": "Nat", "larger_preferred": "Bool"},
                "state": {"self._contents": ("contents", L("α"))},
                "types": {"α": {".features": ("{0}", "α#features")},
                          "α#features": {"[getter]": ("(feat {0})", "Int")}},
                "lean_types": {"α#features": "α"},
                "sort": "Int",
                "ret": "Unit", "raises": True,
                "result": ("{contents}", L("α")),
            },
        ],
    },
    "Queries": {
        "source": "artap/problem.py",
        "serves": ["C17"],
        "imports": ["ArtapModel.Model.Results"],
        "open": ["Artap.Results"],
        "functions": [
            {   # `self.individuals` is the list inds of the model's recorded individuals; population_id is the tag
                "py": "Problem.population", "lean": "Problem_population",
                "py_params": ["self", "population_id"],
                "params": [("inds", L("Ind")), ("population_id", "Int")],
                "vars": {"population_id": "Int"},
                "bind": {"self.individuals": ("inds", L("Ind"))},
                "types": {"Ind": {".population_id": ("{0}.tag", "Int")}},
                "ret": L("Ind"),
            },
            {   # the call `self.population(max_index)` is the function generated above
                "py": "Problem.last_population", "lean": "Problem_last_population",
                "py_params": ["self"],
                "params": [("inds", L("Ind"))],
                "bind": {"self.individuals": ("inds", L("Ind"))},
                "types": {"Ind": {".population_id": ("{0}.tag", "Int")}},
                "calls": {"self.population": {"fn": "Problem_population inds", "args": ["Int"], "ret": L("Ind")}},
                "ret": L("Ind"),
            },
            {   # the result is an insertion-ordered dict tag -> list of individuals (`pyDict*` of the prelude)
                "py": "Problem.populations", "lean": "Problem_populations",
                "py_params": ["self"],
                "params": [("inds", L("Ind"))],
                "bind": {"self.individuals": ("inds", L("Ind"))},
                "types": {"Ind": {".population_id": ("{0}.tag", "Int")}},
                "ret": ("Dict", ("Int", L("Ind"))), "raises": True,
            },
        ],
    },
    "Results": {
        "source": "artap/results.py",
        "serves": ["C17"],
        "imports": ["ArtapModel.Model.Results", "ArtapModel.Gen.Queries"],
        "open": ["Artap.Results"],
        "functions": [
            {   # the two callees are the functions generated from artap/problem.py (Gen/Queries.lean)
                "py": "Results.population", "lean": "Results_population",
                "py_params": ["self", "population_id"], "allow_defaults": True,
                "params": [("inds", L("Ind")), ("population_id", "Int")],
                "vars": {"population_id": "Int"},
                "calls": {
                    "self.problem.last_population": {"fn": "Artap.Gen.Queries.Problem_last_population inds", "args": [], "ret": L("Ind")},
                    "self.problem.population": {"fn": "Artap.Gen.Queries.Problem_population inds", "args": ["Int"], "ret": L("Ind")},
                },
                "ret": L("Ind"),
            },
            {   # `self.problem.individuals` = inds; `self.problem.costs` = goals, one entry per goal function: the value of
                # its 'criteria' key when it has one (`Goal` = Option String); `name` = "a non-empty goal name was given"
                # (only its truth value is used); `self.goal_index(name)` = the oracle gidx (none = its ValueError);
                # costs travel as integers through the order embedding (regime R1), keys are only compared
                "py": "Results.find_optimum", "lean": "Results_find_optimum",
                "py_params": ["self", "name"], "allow_defaults": True,
                "params": [("inds", L("Ind")), ("goals", L("Goal")), ("name", "Bool"), ("gidx", ("Option", "Nat"))],
                "vars": {"name": "Bool"},
                "lean_types": {"Goal": "(Option String)"},
                "strings": True, "sort": "Int",
                "bind": {
                    "self.problem.individuals": ("inds", L("Ind")),
                    "self.problem.costs": ("goals", L("Goal")),
                    "self.goal_index(name)": ("gidx", "Nat", "partial"),
                },
                "types": {
                    "Ind": {".costs": ("{0}.costs", L("Int"))},
                    "Goal": {"in 'criteria'": ("(Option.isSome {0})", "Bool"), "['criteria']": ("?{0}", "Str")},
                },
                "ret": "Ind", "raises": True,
            },
        ],
    },
    "Surrogate": {
        "source": "artap/surrogate.py",
        "serves": ["C19"],
        "imports": ["ArtapModel.Model.Surrogate"],
        "open": ["Artap.Surrogate"],
        "functions": [
            {   # the wrapper object is the record state s : St (eval_counter, predict_counter, trained, x_data, y_data
                # and the ghost fields of the model)
                "py": "SurrogateModel.add_data", "lean": "SurrogateModel_add_data",
                "py_params": ["self", "x", "y"],
                "params": [("s", "St"), ("x", L("Int")), ("y", L("Int"))],
                "vars": {"x": L("Int"), "y": L("Int")},
                "ghost_state": {"s": "St"},
                "fields": {
                    "self.eval_counter": ("s", "evalCount", "Nat"),
                    "self.problem.surrogate.predict_counter": ("s", "predCount", "Nat"),
                    "self.trained": ("s", "trained", "Bool"),
                    "self.x_data": ("s", "xs", L(L("Int"))),
                    "self.y_data": ("s", "ys", L(L("Int"))),
                },
                "ret": "Unit", "none_ret": "()",
                "result": ("{s}", "St"),
            },
            {   # `individual` is the request (its vector); `self.problem.evaluate` is the objective f (logged);
                # `self.train_step` is the integer ts; `self.train()` as in the model (see _train_stmt)
                "py": "SurrogateModelPredict.evaluate_individual", "lean": "SurrogateModelPredict_evaluate_individual",
                "py_params": ["self", "individual"],
                "params": [("f", "List Int → List Int"), ("ts", "Int"), ("s", "St"), ("individual", "Req")],
                "vars": {"individual": "Req"},
                "ghost_state": {"s": "St"},
                "fields": {
                    "self.eval_counter": ("s", "evalCount", "Nat"),
                    "self.problem.surrogate.predict_counter": ("s", "predCount", "Nat"),
                    "self.trained": ("s", "trained", "Bool"),
                    "self.x_data": ("s", "xs", L(L("Int"))),
                    "self.y_data": ("s", "ys", L(L("Int"))),
                },
                "bind": {"self.train_step": ("ts", "Int")},
                "types": {"Req": {".vector": ("{0}.x", L("Int"))}},
                "calls": {
                    "self.problem.evaluate": {"expr": _objective_call, "mutates": ["s"]},
                    "self.add_data": {"stmt": _add_data_stmt, "mutates": ["s"]},
                    "self.train": {"stmt": _train_stmt, "mutates": ["s"]},
                },
                "ignore": [("if self.regressor is None:\n    self.init_default_regressor()",
                            "construction of the default regressor: the regressor is in the trusted base")],
                "ret": L("Int"), "raises": True,
                "result": ("({s}, {ret})", ("Prod", ("St", L("Int")))),
            },
            {   # `"predict" in dir(self.problem)` is hasHook, `self.problem.predict(individual)` the hook's answer carried by
                # the request (None = declines), `self.problem.surrogate` is the wrapper itself; the result is the returned
                # object (None or a cost list)
                "py": "SurrogateModelPredict.evaluate", "lean": "SurrogateModelPredict_evaluate",
                "py_params": ["self", "individual"],
                "params": [("f", "List Int → List Int"), ("hasHook", "Bool"), ("ts", "Int"), ("s", "St"), ("individual", "Req")],
                "vars": {"individual": "Req"},
                "ghost_state": {"s": "St"},
                "fields": {
                    "self.eval_counter": ("s", "evalCount", "Nat"),
                    "self.problem.surrogate.predict_counter": ("s", "predCount", "Nat"),
                    "self.trained": ("s", "trained", "Bool"),
                    "self.x_data": ("s", "xs", L(L("Int"))),
                    "self.y_data": ("s", "ys", L(L("Int"))),
                },
                "bind": {"'predict' in dir(self.problem)": ("hasHook", "Bool"),
                         "self.problem.predict(individual)": ("individual.hook", ("Option", L("Int")))},
                "calls": {"self.evaluate_individual": {"expr": _evaluate_individual_call, "mutates": ["s"]}},
                "ret": ("Option", L("Int")), "raises": True,
                "result": ("({s}, {ret})", ("Prod", ("St", ("Option", L("Int"))))),
            },
            {
                "py": "SurrogateModelEval.evaluate", "lean": "SurrogateModelEval_evaluate",
                "py_params": ["self", "individual"],
                "params": [("f", "List Int → List Int"), ("s", "St"), ("individual", "Req")],
                "vars": {"individual": "Req"},
                "ghost_state": {"s": "St"},
                "fields": {
                    "self.eval_counter": ("s", "evalCount", "Nat"),
                    "self.problem.surrogate.predict_counter": ("s", "predCount", "Nat"),
                    "self.trained": ("s", "trained", "Bool"),
                    "self.x_data": ("s", "xs", L(L("Int"))),
                    "self.y_data": ("s", "ys", L(L("Int"))),
                },
                "calls": {"self.problem.evaluate": {"expr": _objective_call, "mutates": ["s"]}},
                "ret": L("Int"),
                "result": ("({s}, {ret})", ("Prod", ("St", L("Int")))),
            },
        ],
    },
    "Signed": {
        "source": "artap/individual.py",
        "serves": ["C05"],
        "imports": ["ArtapModel.Model.Eval"],
        "open": ["Artap.Eval"],
        "functions": [
            {   # `self.costs_signed` is the list cs (the Python bool appended at the end travels as the number 1 / 0: bool
                # is an int subtype, and the comparators only use it as a number); `self.features["feasible"]` is
                # the model's three-valued Feas (its truth value); np.round is env.rnd (see _np_round)
                "py": "Individual.calc_signed_costs", "lean": "Individual_calc_signed_costs",
                "py_params": ["self", "p_signs"],
                "params": [("env", "Env"), ("prec", "Nat"), ("costs", L("Rat")), ("feasible", "Feas"), ("p_signs", L("Rat")),
                           ("cs", L("Rat"))],
                "vars": {"p_signs": L("Rat")},
                "state": {"self.costs_signed": ("cs", L("Rat"))},
                "bind": {"self.costs": ("costs", L("Rat")),
                         "self.features['feasible']": ("(Feas.truthy feasible)", "Bool")},
                "calls": {"np.round": {"expr": _np_round}},
                "coerce": {("Bool", "Rat"): "(if {0} = true then (1 : Rat) else 0)"},
                "ret": "Unit", "none_ret": "()",
                "result": ("{cs}", L("Rat")),
            },
        ],
    },
    "Robust": {
        "source": "artap/operators.py",
        "serves": ["C14"],
        "imports": ["ArtapModel.Model.Robust"],
        "open": ["Artap.Robust"],
        "functions": [
            {   # the submitted design is the record d : Ind with identity i (the bare name `individual` = its identity:
                # the work lists `self.individuals` / `self.to_evaluate` are lists of identities, as in the model);
                # `parameters[k]` is the k-th entry of tol (its 'tol' value, none = the key is missing)
                "py": "WorstCaseEvaluator.add", "lean": "WorstCaseEvaluator_add",
                "py_params": ["self", "individual"],
                "params": [("tol", L("Tol")), ("i", "Nat"), ("d", "Ind"), ("individuals", L("ObjId")),
                           ("to_evaluate", L("ObjId"))],
                "ghost_state": {"d": "Ind"},
                "state": {"self.individuals": ("individuals", L("ObjId")), "self.to_evaluate": ("to_evaluate", L("ObjId"))},
                "fields": {"individual.children": ("d", "children", L("Child")),
                           "individual.vector": ("d", "x", L("Rat"))},
                "bind": {"self.algorithm.problem.parameters": ("tol", L("Tol")), "individual": ("i", "ObjId")},
                "lean_types": {"Tol": "(Option Rat)", "ObjId": "Nat"},
                "types": {"Tol": {"['tol']": ("?{0}", "Rat")}},
                "calls": {"Individual": {"expr": _child_ctor}},
                "ignore": [
                    ("individual.children[-1].parents.append(individual)",
                     "back reference from the neighbour to its parent: `parents` is not part of the model"),
                    ("self.to_evaluate.extend(individual.children)",
                     "to_evaluate is a concatenation of whole families [parent] ++ parent.children; the model keeps it as "
                     "the list of the parents' identities, the children are reached through the parent"),
                ],
                "ret": "Unit", "raises": True, "none_ret": "()",
                "result": ("({d}, {individuals}, {to_evaluate})", ("Prod", ("Ind", L("ObjId"), L("ObjId")))),
            },
        ],
    },
    "Variation": {
        "source": "artap/operators.py",
        "serves": ["C08"],
        "imports": ["ArtapModel.Model.Variation"],
        "functions": [
            {
                "py": "Operator.clip", "lean": "Operator_clip",
                "py_params": ["value", "min_value", "max_value"],
                "params": [("value", "Rat"), ("min_value", "Rat"), ("max_value", "Rat")],
                "vars": {"value": "Rat", "min_value": "Rat", "max_value": "Rat"},
                "ret": "Rat",
            },
        ],
    },
    "Runs": {
        "source": "artap/operators.py",
        "serves": ["C09"],
        "imports": ["ArtapModel.Model.Runs"],
        "functions": [
            {   # the two random.choice draws are the oracle parameters pick1, pick2 (as in the model)
                "py": "Selector.pop_acceptance", "lean": "Selector_pop_acceptance",
                "header": "{D : Type}",
                "py_params": ["self", "individuals", "individual"],
                "params": [("cmp", "D → D → Nat"), ("eq", "D → D → Bool"), ("individuals", L("D")),
                           ("individual", "D"), ("pick1", "Nat"), ("pick2", "Nat")],
                "vars": {"individual": "D"},
                "state": {"individuals": ("individuals", L("D"))},
                "ret": "Unit", "raises": True,
                "result": ("{individuals}", L("D")),
                "types": {"D": {".costs_signed": ("{0}", "D#cs")}},
                "eq": {"D": "(eq {0} {1})"},
                "oracles": ["pick1", "pick2"],
                "calls": {
                    "self.dominance.compare": {"fn": "cmp", "args": ["D#cs", "D#cs"], "ret": "Nat"},
                    "random.choice": {"expr": _random_choice_list},
                },
            },
        ],
    },
}


def _bench(cls, raises=False, dim=False, ordered=False, **extra):
    """spec entry of a benchmark `evaluate(self, x)`: `x.vector` is the coordinate list xs over the carrier α of
    `Artap.Num`; `self.dimension` (where the body reads it) is the parameter `dimension : Nat`; the result is the
    returned list (one cost)"""
    e = {"py": "%s.evaluate" % cls, "lean": "%s_evaluate" % cls, "num": True,
         "header": "{α : Type} [Num α]" + (" [NumOrd α]" if ordered else ""),
         "py_params": ["self", "x"], "mutable_params": ["x"],
         "params": ([("dimension", "Nat")] if dim else []) + [("xs", L("Num"))],
         "bind": dict({"x.vector": ("xs", L("Num"))}, **({"self.dimension": ("dimension", "Nat")} if dim else {})),
         "ret": L("Num"), "raises": raises}
    if ordered:
        e["num_lt"] = "NumOrd.lt"
    e.update(extra)
    return e


SPECS["Bench"] = {
    "source": "artap/benchmark_functions.py",
    "serves": ["C15"],
    "imports": ["ArtapModel.Model.Bench"],
    "open": ["Artap.Bench"],
    "functions": [
        _bench("Sphere"),
        _bench("Booth", raises=True),
        _bench("Rosenbrock", raises=True, dim=True),
        _bench("Zakharov"),
        _bench("Rastrigin", dim=True),
        _bench("Griewank"),
        _bench("AlpineFunction"),
        _bench("Ackley", raises=True),
        _bench("ModifiedEasom"),
        _bench("EqualityConstr", dim=True, ordered=True),
        _bench("Perm", dim=True),
        _bench("XinSheYang"),
        _bench("XinSheYang2", raises=True),
        # the draws `uniform(0, 1)` are the members of the oracle list eps, one per call (running dry = none)
        _bench("XinSheYang3", raises=True, params=[("eps", L("Num")), ("xs", L("Num"))],
               ghost_state={"eps": L("Num")}, calls={"uniform": {"expr": _uniform_draw, "mutates": ["eps"]}}),
        _bench("SixHump", raises=True),
        _bench("Schwefel"),
        _bench("Michaelwicz"),
        _bench("Schubert", raises=True),
        _bench("GramacyLee", raises=True),
    ],
}

_ATOM_CALL = {"atom_nd": {"fn": "atom_nd", "args": ["Num", "Num", L("Num"), L("Num")], "ret": "Num", "raises": True}}

SPECS["BenchRobust"] = {
    "source": "artap/benchmark_robust.py",
    "serves": ["C15"],
    "imports": ["ArtapModel.Model.Bench"],
    "open": ["Artap.Bench"],
    "functions": [
        _bench("Synthetic2D", raises=True),
        _bench("Synthetic1D", raises=True),
        {   # the module-level helper of the 5D / 10D families: width, multiplier, point, centre
            "py": "atom_nd", "lean": "atom_nd", "num": True, "header": "{α : Type} [Num α]",
            "py_params": ["width", "multiplier", "x", "z"],
            "params": [("width", "Num"), ("multiplier", "Num"), ("x", L("Num")), ("z", L("Num"))],
            "vars": {"width": "Num", "multiplier": "Num", "x": L("Num"), "z": L("Num")},
            "ret": "Num", "raises": True,
        },
        _bench("Synthetic5D", raises=True, calls=_ATOM_CALL),
        _bench("Synthetic10D", raises=True, calls=_ATOM_CALL),
    ],
}


def _dtlz(cls):
    """DTLZ families: `len(self.costs)` is the parameter m (number of objectives), `x.vector` the variables"""
    return _bench(cls, raises=True, params=[("m", "Nat"), ("xs", L("Num"))],
                  bind={"x.vector": ("xs", L("Num")), "len(self.costs)": ("m", "Nat")}, ret=L("Num"))


SPECS["BenchMO"] = {
    "source": "artap/benchmark_pareto.py",
    "serves": ["C16"],
    "imports": ["ArtapModel.Model.BenchMO"],
    "functions": [
        {   # `individual.vector` is the variable list xs
            "py": "BiObjectiveTestProblem.evaluate", "lean": "BiObjectiveTestProblem_evaluate", "num": True,
            "header": "{α : Type} [Num α]", "py_params": ["self", "individual"],
            "params": [("xs", L("Num"))], "bind": {"individual.vector": ("xs", L("Num"))},
            "ret": L("Num"), "raises": True,
        },
        _dtlz("DTLZI"), _dtlz("DTLZII"), _dtlz("DTLZIII"), _dtlz("DTLZIV"),
        {   # ZDT1: the individual x is its variable list
            "py": "ZDT1.eval_g", "lean": "ZDT1_eval_g", "num": True, "header": "{α : Type} [Num α]",
            "py_params": ["self", "x"], "params": [("xs", L("Num"))], "bind": {"x.vector": ("xs", L("Num"))},
            "ret": "Num", "raises": True,
        },
        {
            "py": "ZDT1.eval_h", "lean": "ZDT1_eval_h", "num": True, "header": "{α : Type} [Num α]",
            "py_params": ["self", "f", "g"], "params": [("f", "Num"), ("g", "Num")],
            "vars": {"f": "Num", "g": "Num"}, "ret": "Num",
        },
        {   # the two callees are the functions generated above (same class)
            "py": "ZDT1.evaluate", "lean": "ZDT1_evaluate", "num": True, "header": "{α : Type} [Num α]",
            "py_params": ["self", "x"], "params": [("xs", L("Num"))],
            "bind": {"x.vector": ("xs", L("Num")), "x": ("xs", "Vec")}, "lean_types": {"Vec": "(List α)"},
            "calls": {"self.eval_g": {"fn": "ZDT1_eval_g", "args": ["Vec"], "ret": "Num", "raises": True},
                      "self.eval_h": {"fn": "ZDT1_eval_h", "args": ["Num", "Num"], "ret": "Num"}},
            "ret": L("Num"), "raises": True,
        },
    ],
}

_IND_BIND = {
    "self.id": ("i.id", "Int"), "self.vector": ("i.vector", L("J")), "self.costs": ("i.costs", L("J")),
    "self.costs_signed": ("i.costsSigned", "J"), "self.state": ("i.state", ("Option", "StateT")),
    "self.population_id": ("i.populationId", "J"), "self.algorithm_id": ("i.algorithmId", "J"),
    "self.custom": ("i.custom", "J"), "self.features": ("i.features", ("Dict", ("Str", "J"))),
    "self.parents": ("i.parents", L("J")), "self.children": ("i.children", L("J")),
}
_J_COERCE = {("Int", "J"): "(J.int {0})", ("List J", "J"): "(J.arr {0})", ("String", "J"): "(J.str {0})",
             ("List (String × J)", "J"): "(J.obj {0})"}

SPECS["Store"] = {
    "source": "artap/individual.py",
    "serves": ["C10", "C11"],
    "imports": ["ArtapModel.Model.Store"],
    "open": ["Artap.Store"],
    "prelude": """
-- `state == cls.State.EMPTY`: enum members are compared by identity
deriving instance DecidableEq for Artap.Store.State

/-- `dictionary[key]` on a decoded JSON document: a dict that has the key; anything else raises (KeyError on a
dict without the key, TypeError on a list / str / number / None with a str index) -/
def jGet : J → String → Option J
  | .obj d, k => dictGet d k
  | _, _ => none

/-- `isinstance(value, Iterable)` for the values that travel through the store (`J`): list / tuple / ndarray,
str and dict are iterable; None, bool, int, float and an Individual object are not -/
def jIsIterable : J → Bool
  | .arr _ | .str _ | .obj _ => true
  | _ => false

/-- `isinstance(value, Individual)` -/
def jIsInd : J → Bool
  | .ind _ => true
  | _ => false

/-- what `for item in value` yields: the members of a list; the characters of a str, each a str of length one;
the keys of a dict (strings); `none` = TypeError (not iterable) -/
def jIter : J → Option (List J)
  | .arr xs => some xs
  | .str s => some (s.toList.map (fun c => J.str (String.singleton c)))
  | .obj kvs => some (kvs.map (fun kv => J.str kv.1))
  | _ => none

/-- `value.id` of an Individual object; `none` = AttributeError -/
def jIndId : J → Option Int
  | .ind id => some id
  | _ => none
""",
    "functions": [
        {   # `state` is a member of Individual.State or anything else (none: e.g. the string that from_dict stores);
            # the returned str / None is the JSON value
            "py": "Individual.to_string", "lean": "Individual_to_string",
            "py_params": ["cls", "state"], "params": [("state", ("Option", "StateT"))],
            "vars": {"state": ("Option", "StateT")}, "carrier": ["StateT"], "lean_types": {"StateT": "State"},
            "bind": {"cls.State.EMPTY": ("State.empty", "StateT"), "cls.State.IN_PROGRESS": ("State.inProgress", "StateT"),
                     "cls.State.EVALUATED": ("State.evaluated", "StateT"), "cls.State.FAILED": ("State.failed", "StateT")},
            "strings": True, "coerce": _J_COERCE, "ret": "J", "none_ret": "J.null",
        },
        {   # open recursion: `self._replace_individual_id(item)` is the parameter rec_ (closed below with the
            # interpreter's recursion budget); `value` is a J; the returned list / int / value is a J
            "py": "Individual._replace_individual_id", "lean": "Individual_replace_individual_id_body",
            "knot": "Individual_replace_individual_id",
            "py_params": ["self", "value"], "params": [("rec_", "J → Option J"), ("value", "J")],
            "vars": {"value": "J"},
            "bind": {"isinstance(value, Iterable)": ("(jIsIterable value)", "Bool"),
                     "isinstance(value, Individual)": ("(jIsInd value)", "Bool")},
            "iterables": {"J": ("?(jIter {0})", "J")},
            "types": {"J": {".id": ("?(jIndId {0})", "Int")}},
            "calls": {"self._replace_individual_id": {"fn": "rec_", "args": ["J"], "ret": "J", "raises": True}},
            "coerce": _J_COERCE, "ret": "J", "raises": True,
        },
        {   # `self` is the snapshot i : Ind of the model (its attributes); the dicts are association lists with string
            # keys (`strdict`); `self.features` is a Python dict, so its keys are distinct (hypothesis of the tie);
            # `depth` is the recursion budget available to `_replace_individual_id`
            "py": "Individual.to_dict", "lean": "Individual_to_dict",
            "py_params": ["self"], "params": [("depth", "Nat"), ("i", "Ind")],
            "bind": _IND_BIND, "strdict": "J", "strings": True, "coerce": _J_COERCE,
            "calls": {"self._replace_individual_id": {"fn": "Individual_replace_individual_id depth", "args": ["J"],
                                                      "ret": "J", "raises": True},
                      "self.to_string": {"fn": "Individual_to_string", "args": [("Option", "StateT")], "ret": "J"}},
            "lean_types": {"StateT": "State"},
            "ret": "J", "raises": True,
        },
        {   # the fresh `Individual()` is the record v : View of the attributes that a read-mode view exposes (all nine
            # are overwritten); `dictionary` is the decoded JSON document
            "py": "Individual.from_dict", "lean": "Individual_from_dict",
            "py_params": ["dictionary"], "params": [("v", "View"), ("dictionary", "JDoc")],
            "vars": {"dictionary": "JDoc"}, "ghost_state": {"v": "View"}, "lean_types": {"JDoc": "J"},
            "types": {"JDoc": dict(("[%r]" % k, ("?(jGet {0} \"%s\")" % k, "J")) for k in
                                   ("id", "vector", "costs", "state", "costs_signed", "population_id", "algorithm_id",
                                    "custom", "features"))},
            "fields": {"individual.id": ("v", "id", "J"), "individual.vector": ("v", "vector", "J"),
                       "individual.costs": ("v", "costs", "J"), "individual.state": ("v", "state", "J"),
                       "individual.costs_signed": ("v", "costsSigned", "J"),
                       "individual.population_id": ("v", "populationId", "J"),
                       "individual.algorithm_id": ("v", "algorithmId", "J"),
                       "individual.custom": ("v", "custom", "J"), "individual.features": ("v", "features", "J")},
            "bind": {"individual": ("v", "View")},
            "ignore": [("individual = Individual()", "the fresh object is the record v; every attribute that a view exposes is assigned below")],
            "ret": "View", "raises": True,
        },
    ],
}


def _execute_upsert(fn, st, env, after):
    """`c.execute(self.sql_individuals_upsert, [X.id, json.dumps(X.to_dict())])`: `X.to_dict()` is the function
    generated from individual.py (Gen/Store.lean; it may raise), `json.dumps` is the model's `jsonRoundTrip`
    (TypeError on an Individual object, otherwise the document that json.loads reads back - trusted, as in
    Model/Store.lean), and the statement `INSERT .. ON CONFLICT(id) DO UPDATE` on the table is `upsert`."""
    from py2lean import Let, Tm, V, bad
    import ast
    c = st.value
    ok = len(c.args) == 2 and not c.keywords and ast.unparse(c.args[0]) == "self.sql_individuals_upsert" \
        and isinstance(c.args[1], ast.List) and len(c.args[1].elts) == 2
    if ok:
        e0, e1 = c.args[1].elts
        ok = isinstance(e0, ast.Attribute) and e0.attr == "id" and isinstance(e1, ast.Call) \
            and ast.unparse(e1.func) == "json.dumps" and len(e1.args) == 1 and not e1.keywords \
            and ast.unparse(e1.args[0]) == ast.unparse(e0.value) + ".to_dict()"
    if not ok:
        bad(st, "c.execute called other than as execute(self.sql_individuals_upsert, [X.id, json.dumps(X.to_dict())])")
    pre, x, ty = fn.expr(e0.value, env)
    if ty != "IndT":
        bad(st, "the upserted object is not an individual")
    t1, t2 = fn.tmp(), fn.tmp()
    pre = pre + [("bind", t1, Tm("(Artap.Gen.Store.Individual_to_dict depth {0})", [x], fv=["depth"])),
                 ("bind", t2, Tm("(jsonRoundTrip {0})", [V(t1)]))]
    return fn.wrap(pre, Let("s", Tm("(upsert s {0}.id {1})", [x, V(t2)], fv=["s"]), after(fn.forget(env, ["s"]))), st, env)


def _commit(fn, st, env, after):
    """`conn.commit()`: the upserts executed since the last commit become durable: the committed table `durable`
    becomes the working table s, and the ghost counter `commits` counts the call.  An exception before the commit is
    `none`, which stands for the rollback (the table as it was)."""
    from py2lean import Let, Tm, V, bad
    if st.value.args or st.value.keywords:
        bad(st, "conn.commit with arguments")
    env2 = fn.forget(env, ["durable", "commits"])
    return Let("durable", V("s"), Let("commits", Tm("(commits + 1)", fv=["commits"]), after(env2)))


_SYNC = {
    "strings": True, "ghost_state": {"s": "StoreT", "durable": "StoreT", "commits": "Nat"},
    "lean_types": {"StoreT": "Store", "IndT": "Ind"},
    "calls": {"c.execute": {"stmt": _execute_upsert, "mutates": ["s"]},
              "conn.commit": {"stmt": _commit, "mutates": ["durable", "commits"]}},
    "ignore": [("conn = self.conn()", "connection handling: SQLite is in the trusted base"),
               ("c = conn.cursor()", "connection handling: SQLite is in the trusted base")],
    "ret": "Unit", "raises": True, "none_ret": "()",
    "result": ("({durable}, {commits})", ("Prod", ("StoreT", "Nat"))),
}

SPECS["StoreSync"] = {
    "source": "artap/datastore.py",
    "serves": ["C10", "C11"],
    "imports": ["ArtapModel.Model.Store", "ArtapModel.Gen.Store"],
    "open": ["Artap.Store"],
    "functions": [
        dict(_SYNC, **{   # `self.mode == "write" or self.mode == "rewrite"` is the parameter `writing`; s is the working table of the
            # connection, `durable` the committed table (both the table at entry), `commits` the number of commits so far
            "py": "SqliteDataStore.sync_individual", "lean": "SqliteDataStore_sync_individual",
            "py_params": ["self", "individual"],
            "params": [("depth", "Nat"), ("writing", "Bool"), ("s", "StoreT"), ("durable", "StoreT"), ("commits", "Nat"),
                       ("individual", "IndT")],
            "vars": {"individual": "IndT"},
            "bind": {"self.mode == 'write' or self.mode == 'rewrite'": ("writing", "Bool")},
            "try_dropped": {"sqlite3.OperationalError": "SQLite is in the trusted base (DESIGN.md section 4): the statement "
                            "does not fail; the handler would retry the same call"},
        }),
        dict(_SYNC, **{
            "py": "SqliteDataStore.sync_all", "lean": "SqliteDataStore_sync_all",
            "py_params": ["self"],
            "params": [("depth", "Nat"), ("writing", "Bool"), ("s", "StoreT"), ("durable", "StoreT"), ("commits", "Nat"),
                       ("inds", L("IndT"))],
            "bind": {"self.mode == 'write' or self.mode == 'rewrite'": ("writing", "Bool"),
                     "self.problem.individuals": ("inds", L("IndT"))},
        }),
    ],
}

def _np_zeros(fn, n, env, want):
    """`np.zeros((a, b))`: the a-by-b matrix of zeros (`NpMat`: number of columns and the rows)"""
    from py2lean import Tm, bad
    import ast
    if len(n.args) != 1 or n.keywords or not isinstance(n.args[0], ast.Tuple) or len(n.args[0].elts) != 2:
        bad(n, "np.zeros called other than with a pair (rows, columns)")
    p1, a, ta = fn.expr(n.args[0].elts[0], env)
    p2, b, tb = fn.expr(n.args[0].elts[1], env)
    if ta not in ("Nat", "NpInt") or tb not in ("Nat", "NpInt"):
        bad(n, "np.zeros with a shape that is not a pair of integers")
    return p1 + p2, Tm("(NpMat.zeros {0} {1})", [a, b]), "NpMat"


def _np_set_column(fn, tgt, value, op, st, env, after):
    """`H[:, i] = rng` on a numpy matrix: `npSetCol` of the generated prelude (IndexError for a column that does not
    exist, ValueError for a list whose length is neither the number of rows nor one)"""
    from py2lean import Let, MatchOpt, Tm, V, bad
    import ast
    sl = tgt.slice
    if op is not None or len(sl.elts) != 2 or not isinstance(sl.elts[0], ast.Slice) \
            or sl.elts[0].lower is not None or sl.elts[0].upper is not None or sl.elts[0].step is not None \
            or not isinstance(tgt.value, ast.Name):
        bad(st, "matrix assignment other than `H[:, i] = list`")
    h = tgt.value.id
    if env.get(h) != "NpMat":
        bad(st, "column assignment to something that is not a numpy matrix")
    p1, v, tv = fn.expr(value, env, ("List", "Nat"))
    if isinstance(tv, tuple) and tv[0] == "List" and tv[1] == "?":
        fn.unresolved = True                      # element type found by the next typing pass
        return after(env)
    if tv != ("List", "Nat"):
        bad(st, "column assigned from a value of type %s" % (tv,))
    p2, i, ti = fn.expr(sl.elts[1], env, "Nat")
    if ti != "Nat":
        bad(st, "column index of type %s" % (ti,))
    t = fn.tmp()
    body = MatchOpt(Tm("(npSetCol {0} {1} {2})", [V(h), i, v]), t, Let(h, V(t), after(fn.forget(env, [h]))), fn.none(st))
    return fn.wrap(p1 + p2, body, st, env)


SPECS["Doe"] = {
    "source": "artap/doe.py",
    "serves": ["C13"],
    "imports": ["ArtapModel.Model.Doe"],
    "prelude": """
/-- a two-dimensional numpy array of level indices (stored as doubles by numpy, all integral): the number of columns
and the rows -/
structure NpMat where
  ncols : Nat
  rows : List (List Nat)

/-- `np.zeros((a, b))` -/
def NpMat.zeros (a b : Nat) : NpMat := ⟨b, List.replicate a (List.replicate b 0)⟩

/-- `np.prod(levels)` of a list of Python integers, as an integer; `none` = the list is empty: numpy answers the
*float* 1.0, which the next statement of `fullfact` (`np.zeros((1.0, 0))`) rejects with a TypeError before anything
else happens - the translation raises one statement earlier.  (Overflow of int64 is not represented.) -/
def npProd : List Nat → Option Nat
  | [] => none
  | l :: ls => some (Artap.Doe.prod (l :: ls))

/-- `H[:, i] = rng` (numpy): column `i` of every row is taken from the list `rng`.  IndexError when there is no
column `i`; the list must have one entry per row, a list of length one is broadcast to every row, anything else is a
ValueError. -/
def npSetCol (H : NpMat) (i : Nat) (rng : List Nat) : Option NpMat :=
  if i < H.ncols then
    if rng.length = H.rows.length then some ⟨H.ncols, List.zipWith (fun row v => row.set i v) H.rows rng⟩
    else match rng with
      | [v] => some ⟨H.ncols, H.rows.map (fun row => row.set i v)⟩
      | _ => none
  else none
""",
    "functions": [
        {   # `np.prod(levels)` is a numpy integer (type NpInt): `//` on it is numpy's floor division (x // 0 = 0 with
            # a RuntimeWarning, no exception) and it may repeat a list (`lvl * range_repeat`: __index__); H is an NpMat
            "py": "fullfact", "lean": "fullfact",
            "py_params": ["levels"], "params": [("levels", L("Nat"))], "vars": {"levels": L("Nat")},
            "numpy_ints": True, "lean_types": {"NpInt": "Nat"},
            "bind": {"np.prod(levels)": ("(npProd levels)", "NpInt", "partial")},
            "calls": {"np.zeros": {"expr": _np_zeros}},
            "subscript_assign": _np_set_column,
            "coerce": {("NpMat", "List (List Nat)"): "{0}.rows"},
            "ret": L(L("Nat")), "raises": True,
        },
        {   # x is the design matrix as rows of integers (the level indices that fullfact / pbdesign / bbdesign produce,
            # `int(col[index])` is that integer), factor_lists the level values of each factor (any type)
            "py": "construct_df", "lean": "construct_df", "header": "{α : Type}",
            "py_params": ["x", "factor_lists"],
            "params": [("x", L(L("Int"))), ("factor_lists", L(L("α")))],
            "vars": {"x": L(L("Int")), "factor_lists": L(L("α"))},
            "int_is_int": True, "ret": L(L("α")), "raises": True,
        },
        {   # plain integer loops of the generalized subset design
            "py": "_make_partitions", "lean": "make_partitions",
            "py_params": ["factor_levels", "num_partitions"],
            "params": [("factor_levels", L("Nat")), ("num_partitions", "Nat")],
            "vars": {"factor_levels": L("Nat"), "num_partitions": "Nat"},
            "ret": L(L(L("Int"))),
        },
        {   # `factor_level_ranges` is a dict factor name -> list of level values: an association list with string keys;
            # the two callees are the functions generated in this module
            "py": "build_full_fact", "lean": "build_full_fact", "header": "{α : Type}",
            "py_params": ["factor_level_ranges"],
            "params": [("factor_level_ranges", ("Dict", ("Str", L("α"))))],
            "vars": {"factor_level_ranges": ("Dict", ("Str", L("α")))},
            "strdict": "α", "strings": True,
            "calls": {"fullfact": {"fn": "fullfact", "args": [L("Nat")], "ret": L(L("Nat")), "raises": True},
                      "construct_df": {"fn": "construct_df", "args": [L(L("Int")), L(L("α"))], "ret": L(L("α")),
                                       "raises": True}},
            "coerce": {("List (List Nat)", "List (List Int)"): "(Artap.Doe.toIntRows {0})"},
            "ret": L(L("α")), "raises": True,
        },
    ],
}

# Tie-only module: composes `tie_Job_evaluate` (Tie/Eval.lean) with the refinement of the schedule model's per-design
# program to the sequential model (Props/C07.lean, Proofs/ConcEval.lean): C07's parallel-equals-serial theorem stated about
# the function regenerated from artap/job.py.  Nothing of its own is generated: `gen_of` names the module whose Gen file
# is regenerated before Tie/ConcEval.lean is re-checked.
SPECS["ConcEval"] = {
    "source": SPECS["Eval"]["source"],
    "serves": ["C07"],
    "gen_of": "Eval",
    "imports": list(SPECS["Eval"]["imports"]),
    "open": list(SPECS["Eval"]["open"]),
    "functions": SPECS["Eval"]["functions"],
}

SPECS["Store"] = SPECS.pop("Store")      # listed after StoreSync, which imports its generated module (a run against another
                                         # checkout puts the generated files back in listing order)

# listing order: the modules of the first round, then the loop-heavy functions in the order they were added
SPECS = {k: SPECS[k] for k in ["Dominance", "Selection", "Equality", "Archive", "Variation", "Runs",
                               "Sorting", "Crowding", "Sampling", "Genetic", "Eval", "Numbers"]
         + [k for k in SPECS if k not in ("Dominance", "Selection", "Equality", "Archive", "Variation", "Runs",
                                          "Sorting", "Crowding", "Sampling", "Genetic", "Eval", "Numbers")]}
