"""Spec entries of tools/py2lean.py: what the translator is told about each function.

Types are not inferred from Python.  Per function:
  py         qualified name in the source file
  lean       name of the generated Lean function (namespace Artap.Gen.<Module>)
  header     implicit / instance binders shared by the function and its loop functions
  py_params  canonical names of the Python parameters, by position (renamed parameters are harmless)
  params     Lean parameter list
  ret        type of the value of `return`;  raises=True wraps the result in Option (none = exception)
  bind       binding table: Python expression (written with the canonical parameter names) -> (Lean text, type)
  vars       Python parameters that are Lean variables as they stand: name -> type
  types      accessors of spec types: type -> ".attr" / "['key']" -> (template with {0}, type)
  carrier    opaque types that are only compared
  lean_types spec type -> the Lean type it is written as (e.g. individuals as positions: "Pos" -> "Nat")
  tables     per-object feature tables (lists by position): lean var -> value type; an accessor "@table" reads / writes it
  fields     attribute (source text) -> (record state variable, field, type): one object represented as a record
  types      an accessor may have a third component, the setter template `{{ {0} with f := {1} }}`;
             "[]" = indexing by a natural number (template over {0}, {1}, partial), "[:-1]" a slice named in the spec
  fuel       one entry per `while` loop (source order): Lean term over the parameters, or an oracle list
             {"stream", "elem", "pattern"} consumed one member per pass
  ignore     statements removed before compilation (source text, `re:<regex>`, or (text, reason)); shown in the header
  try        the oracle form of try/except: call, outcome term, ok pattern, ghost updates, handlers -> outcome class
  raise / return_none   exceptions as values of the result
  sort, binops, coerce, if_convert_append, ghost_state, allow_defaults   see tools/py2lean.py
  objects    spec record types whose values stand for mutable objects -> why the members of a list of them are distinct
             objects (object loops, see tools/py2lean.py); strings: string constants may be compared for equality
  prelude    (module level) Lean declarations of record types, printed verbatim in the generated file
  bind       an entry may have a third component "partial": the Lean text is Option-valued, none = the expression raises
"""

L = lambda t: ("List", t)

_MARKERS = {
    "p[-1]": ("mp", "Int"), "q[-1]": ("mq", "Int"),
    "p[:-1]": ("p", L("α")), "q[:-1]": ("q", L("α")),
}


def _random_sample_2(fn, n, env, want):
    """`random.sample(xs, 2)`: the two drawn positions are the oracle parameters `i`, `j`
    (distinct and in range, otherwise the call raises)."""
    from py2lean import Tm, Op, V, Tup, bad
    import ast
    if len(n.args) != 2 or not (isinstance(n.args[1], ast.Constant) and n.args[1].value == 2):
        bad(n, "random.sample with a sample size other than the constant 2")
    pre, xs, ty = fn.expr(n.args[0], env)
    if not (isinstance(ty, tuple) and ty[0] == "List"):
        bad(n, "random.sample of something that is not a list")
    a, b = fn.tmp(), fn.tmp()
    pre = pre + [("guard", Op("≠", Tm("i", fv=["i"]), Tm("j", fv=["j"]))),
                 ("bind", a, Tm("{0}[i]?", [xs], fv=["i"])), ("bind", b, Tm("{0}[j]?", [xs], fv=["j"]))]
    return pre, Tup([V(a), V(b)]), ("Prod", (ty[1], ty[1]))


def _random_choice_pair(fn, n, env, want):
    """`random.choice(pair)`: oracle parameter `coin` (true = first member)."""
    from py2lean import Tm, If, Op, C, bad
    if len(n.args) != 1:
        bad(n, "random.choice arity")
    pre, c, ty = fn.expr(n.args[0], env)
    if not (isinstance(ty, tuple) and ty[0] == "Prod" and len(ty[1]) == 2 and ty[1][0] == ty[1][1]):
        bad(n, "random.choice of something that is not the sampled pair")
    return pre, If(Op("=", Tm("coin", fv=["coin"]), C("true")), Tm("{0}.1", [c]), Tm("{0}.2", [c])), ty[1][0]


def _random_choice_list(fn, n, env, want):
    """`random.choice(xs)` on a list: the k-th call site (source order) draws position
    `<oracle k> % len(xs)`; IndexError on an empty list."""
    from py2lean import Tm, Op, V, C, bad
    import ast
    sites = sorted((c.lineno, c.col_offset) for c in ast.walk(fn.fn)
                   if isinstance(c, ast.Call) and ast.unparse(c.func) == "random.choice")
    names = fn.s["oracles"]
    k = sites.index((n.lineno, n.col_offset))
    if len(n.args) != 1 or k >= len(names):
        bad(n, "random.choice call site without an oracle parameter in the spec")
    pre, xs, ty = fn.expr(n.args[0], env)
    if not (isinstance(ty, tuple) and ty[0] == "List"):
        bad(n, "random.choice of something that is not a list")
    o = names[k]
    t = fn.tmp()
    ln = Tm("(List.length {0})", [xs])
    pre = pre + [("guard", Op("≠", ln, C("0"))),
                 ("bind", t, Tm("{0}[(%s %% (List.length {0}))]?" % o, [xs], fv=[o]))]
    return pre, V(t), ty[1]


def _individual_by_id(fn, n, env, want):
    """`self.individual(individuals, id)`: ids are positions (distinct ids, as the model assumes), so the first
    member with that id is the member at position `id`; no such member -> `None`, and the feature access
    that follows raises: emitted as the guard `id < n` at the call."""
    from py2lean import Tm, Op, bad
    if len(n.args) != 2 or n.keywords or ast_unparse(n.args[0]) != "individuals":
        bad(n, "self.individual called on something other than (individuals, id)")
    pre, v, ty = fn.expr(n.args[1], env, "Nat")
    if ty != "Nat":
        bad(n, "id of type %s" % ty)
    return pre + [("guard", Op("<", v, Tm("n", fv=["n"])))], v, "Pos"


def _individual_ctor(fn, n, env, want):
    """`Individual(vector)`: the fresh design object that goes to `Problem.failed` is its vector (`FInd`)."""
    from py2lean import bad
    if len(n.args) != 1 or n.keywords:
        bad(n, "Individual(...) with other than one positional argument")
    pre, v, ty = fn.expr(n.args[0], env)
    if ty != ("List", "Rat"):
        bad(n, "Individual(...) of something that is not a vector")
    return pre, v, "FInd"


def _calc_signed_costs(fn, st, env, after):
    """`individual.calc_signed_costs(self.problem.signs)` (individual.py, a callee, not translated here):
    costs_signed = signs * round(costs) + [not features['feasible']] - the model's signedCosts / markerOf."""
    from py2lean import Let, Tm, bad
    import ast
    c = st.value
    if len(c.args) != 1 or c.keywords or ast.unparse(c.args[0]) != "self.problem.signs":
        bad(st, "calc_signed_costs called with something other than self.problem.signs")
    return Let("d", Tm("{{ d with signed := signedCosts env d.prec d.costs, marker := some (markerOf d.feasible) }}",
                       fv=["d", "env"]), after(fn.forget(env, ["d"])))



def _objective_call(fn, n, env, want):
    """`self.problem.evaluate(individual)`: the user's objective is the parameter f; the call is logged in the ghost
    field `fcalls` of the record state `s` (the model's log of calls of the true objective)."""
    from py2lean import Tm, bad
    if len(n.args) != 1 or n.keywords:
        bad(n, "self.problem.evaluate with other than one positional argument")
    pre, v, ty = fn.expr(n.args[0], env)
    if ty != "Req":
        bad(n, "self.problem.evaluate called on something that is not the request")
    pre = pre + [("let", "s", Tm("{{ s with fcalls := s.fcalls ++ [{0}.x] }}", [v], fv=["s"]))]
    return pre, Tm("(f {0}.x)", [v], fv=["f"]), ("List", "Int")


def _evaluate_individual_call(fn, n, env, want):
    """`self.evaluate_individual(individual)`: the function generated above (same class); it updates the record
    state and may raise."""
    from py2lean import Tm, V, bad
    if len(n.args) != 1 or n.keywords:
        bad(n, "self.evaluate_individual with other than one positional argument")
    pre, v, ty = fn.expr(n.args[0], env)
    if ty != "Req":
        bad(n, "self.evaluate_individual called on something that is not the request")
    t = fn.tmp()
    return (pre + [("bind", ("s", t), Tm("(SurrogateModelPredict_evaluate_individual f ts s {0})", [v], fv=["f", "ts", "s"]))],
            V(t), ("List", "Int"))


def _add_data_stmt(fn, st, env, after):
    """`self.add_data(x, y)`: the function generated from SurrogateModel.add_data"""
    from py2lean import Let, Tm, bad
    c = st.value
    if len(c.args) != 2 or c.keywords:
        bad(st, "self.add_data with other than two positional arguments")
    p1, a, ta = fn.expr(c.args[0], env, ("List", "Int"))
    p2, b, tb = fn.expr(c.args[1], env, ("List", "Int"))
    if ta != ("List", "Int") or tb != ("List", "Int"):
        bad(st, "self.add_data on something other than a vector and a cost list")
    return fn.wrap(p1 + p2, Let("s", Tm("(SurrogateModel_add_data s {0} {1})", [a, b], fv=["s"]), after(fn.forget(env, ["s"]))), st, env)


def _train_stmt(fn, st, env, after):
    """`self.train()` (abstract; scikit / SMT implementations): modelled by what the wrapper relies on, as in
    Model/Surrogate.lean - the call happens (counted, with the size of the training set it sees) and sets trained."""
    from py2lean import Let, Tm, bad
    c = st.value
    if c.args or c.keywords:
        bad(st, "self.train with arguments")
    return Let("s", Tm("{{ s with trained := true, trainCalls := s.trainCalls + 1, trainSizes := s.trainSizes ++ [s.xs.length] }}",
                       fv=["s"]), after(fn.forget(env, ["s"])))


def _np_round(fn, n, env, want):
    """`np.round(y, decimals=self.features["precision"])`: the rounding function of the model's environment at the
    design's precision (`env.rnd prec y`; numpy's rounding itself is in the trusted base, as in Model/Eval.lean)."""
    from py2lean import Tm, bad
    import ast
    if len(n.args) != 1 or len(n.keywords) != 1 or n.keywords[0].arg != "decimals" \
            or ast.unparse(n.keywords[0].value) != "self.features['precision']":
        bad(n, "np.round called other than as np.round(y, decimals=self.features['precision'])")
    pre, v, ty = fn.expr(n.args[0], env, "Rat")
    if ty != "Rat":
        bad(n, "np.round of a value of type %s" % ty)
    return pre, Tm("(env.rnd prec {0})", [v], fv=["env", "prec"]), "Rat"


def _child_ctor(fn, n, env, want):
    """`Individual(vector)` in the worst-case evaluator: a fresh neighbour design (`Child.fresh`)."""
    from py2lean import Tm, bad
    if len(n.args) != 1 or n.keywords:
        bad(n, "Individual(...) with other than one positional argument")
    pre, v, ty = fn.expr(n.args[0], env)
    if ty != ("List", "Rat"):
        bad(n, "Individual(...) of something that is not a vector")
    return pre, Tm("(Child.fresh {0})", [v]), "Child"


def ast_unparse(n):
    import ast
    return ast.unparse(n)


SPECS = {
    "Sorting": {
        "source": "artap/operators.py",
        "serves": ["C02", "C03", "C09"],
        "imports": ["ArtapModel.Model.Sorting"],
        "functions": [
            {   # Individuals are positions 0..n-1 (`Pos`, written Nat; ids = positions); the three features that the
                # function writes live in three tables indexed by position (stale values on entry are the parameters
                # counter / dominate / front); the comparator verdict on two members is `cmp i j`.
                "py": "Selector.fast_nondominated_sorting", "lean": "Selector_fast_nondominated_sorting",
                "py_params": ["self", "individuals"],
                "params": [("cmp", "Nat → Nat → Nat"), ("n", "Nat"), ("counter", L("Int")),
                           ("dominate", L(L("Nat"))), ("front", L(("Option", "Nat")))],
                "lean_types": {"Pos": "Nat", "Pos#cs": "Nat", "Pos#features": "Nat"},
                "tables": {"counter": "Int", "dominate": L("Nat"), "front": ("Option", "Nat")},
                "bind": {"individuals": ("(List.range n)", L("Pos")), "len(individuals)": ("n", "Nat")},
                "types": {
                    "Pos": {".features": ("{0}", "Pos#features"), ".costs_signed": ("{0}", "Pos#cs"),
                            ".id": ("{0}", "Nat")},
                    "Pos#features": {"['domination_counter']": ("@counter", "Int"),
                                     "['dominate']": ("@dominate", L("Nat")),
                                     "['front_number']": ("@front", ("Option", "Nat"))},
                },
                "calls": {
                    "self.comparator.compare": {"fn": "cmp", "args": ["Pos#cs", "Pos#cs"], "ret": "Nat"},
                    "self.individual": {"expr": _individual_by_id},
                },
                "ret": "Unit", "raises": True, "none_ret": "()",
                "result": ("{front}", L(("Option", "Nat"))),
                "fuel": ["n + 1"],
                "ignore": [r"re:for (\w+) in \w+:\n    crowding_distance\(\1\)"],
                "ignore_why": "crowding_distance writes only the crowding_distance feature, never a front number; tied separately (Crowding)",
            },
        ],
    },
    "Crowding": {
        "source": "artap/operators.py",
        "serves": ["C03"],
        "imports": ["ArtapModel.Model.Selection"],
        "open": ["Artap"],
        "functions": [
            {   # `front` is a list of record values `CEnt` (the model's entry: idx, costs = costs_signed[:-1], acc =
                # features['crowding_distance'] with none = math.inf; the ghost field `rest` is never touched).
                # A feature write through `front[i]` replaces member i: valid because the members of a front are
                # distinct objects.  `x.costs_signed[dim]` is translated as the cost `x.costs[dim]?`: for
                # dim = len(costs) Python would read the feasibility marker instead of raising - not translated
                # (`none`), exactly as in the hand-written model.
                "py": "crowding_distance", "lean": "crowding_distance",
                "py_params": ["front"],
                "params": [("front", L("CEnt"))],
                "state": {"front": ("front", L("CEnt"))},
                "ret": "Unit", "raises": True,
                "result": ("{front}", L("CEnt")),
                "types": {
                    "CEnt": {".features": ("{0}", "CEnt#features"), ".costs_signed": ("{0}.costs", "CEnt#cs")},
                    "CEnt#features": {"['crowding_distance']": ("{0}.acc", ("Option", "Rat"), "{{ {0} with acc := {1} }}")},
                    "CEnt#cs": {"[:-1]": ("{0}", L("Rat")), "[]": ("{0}[{1}]?", "Rat")},
                },
                "lean_types": {"CEnt#cs": "List Rat", "CEnt#features": "CEnt"},
                "bind": {"math.inf": ("(none : Option Rat)", ("Option", "Rat"))},
                "binops": {("Option Rat", "+", "Rat"): ("(addOpt {0} {1})", ("Option", "Rat"))},
                "sort": "Rat",
            },
        ],
    },
    "Eval": {
        "source": "artap/job.py",
        "serves": ["C05", "C06"],
        "imports": ["ArtapModel.Model.Eval"],
        "open": ["Artap.Eval"],
        "functions": [
            {   # `individual` is the record value d : Design, `self.problem.failed` the list `failed` (of vectors), the
                # objective `self.problem.surrogate.evaluate(individual)` is the oracle env.obj (outcome classes ok /
                # transient = TimeoutError, RuntimeError / fatal = anything else); the ghost call log and call counter
                # of the model are updated at the oracle call.  Exceptions are values of the result (Err).
                "py": "Job.evaluate", "lean": "Job_evaluate",
                "py_params": ["self", "individual"],
                "params": [("env", "Env"), ("d", "Design"), ("log", L(("Prod", ("Nat", L("Rat"))))),
                           ("failed", L(L("Rat")))],
                "state": {"individual": ("d", "Design"), "self.problem.failed": ("failed", L("FInd"))},
                "ghost_state": {"log": L(("Prod", ("Nat", L("Rat"))))},
                "lean_types": {"FInd": "(List Rat)"},
                "fields": {
                    "individual.state": ("d", "state", "State"),
                    "individual.costs": ("d", "costs", L("Rat")),
                    "individual.vector": ("d", "vec", L("Rat")),
                    "individual.features['feasible']": ("d", "feasible", "Feas"),
                },
                "bind": {
                    "individual.State.EVALUATED": ("State.evaluated", "State"),
                    "individual.State.IN_PROGRESS": ("State.inProgress", "State"),
                    "individual.State.EMPTY": ("State.empty", "State"),
                    "self.problem is not None": ("true", "Bool"),
                    # the vector drawn after the call that has just failed (the call counter was advanced at the call)
                    "VectorAndNumbers.gen_vector(self.problem.parameters)": ("(env.reroll d.key (d.ncalls - 1))", L("Rat")),
                },
                "carrier": ["State"],
                "coerce": {("Bool", "Feas"): "(if {0} = true then Feas.yes else Feas.no)"},
                "calls": {
                    "self.problem.evaluate_inequality_constraints": {"fn": "env.cons", "args": [L("Rat")], "ret": L("Rat")},
                    "Individual": {"expr": _individual_ctor},
                    "individual.calc_signed_costs": {"stmt": _calc_signed_costs, "mutates": ["d"]},
                },
                "try": {
                    "call": "self.problem.surrogate.evaluate(individual)",
                    "outcome": "(env.obj d.key d.ncalls d.vec)",
                    "ok": (".ok {0}", L("Rat")),
                    "ghost": [("log", "(log ++ [(d.key, d.vec)])"), ("d", "{ d with ncalls := d.ncalls + 1 }")],
                    "handlers": {"(TimeoutError, RuntimeError)": (".transient _", [], None),
                                 "": (".fatal tag", ["tag"], "(some (Err.fatal tag))")},
                },
                "raise": {"RuntimeError('To many failures has appeared.')": "(some Err.tooMany)"},
                "return_none": "(none : Option Err)",
                "ret": ("Option", "Err"), "raises": False,
                "result": ("({ret}, {d}, ({{ log := {log}, failed := {failed} }} : World))",
                           ("Prod", (("Option", "Err"), "Design", "World"))),
                "ignore": [
                    ("individual.features['start_time'] = time.time()", "timing information, not part of the model"),
                    ("t_s = time.time()", "timing information, not part of the model"),
                    ("individual.features['finish_time'] = time.time()", "timing information, not part of the model"),
                    ("self.problem.data_store.sync_individual(individual)", "the write to the store is the subject of C10/C11"),
                    ("print('Job: error:', e)", "console output"),
                    ("print('Job: unexpected error:', sys.exc_info()[0])", "console output"),
                    (r"re:\w+\.state = individual\.State\.FAILED", "state of the fresh object that only carries the failed vector"),
                ],
            },
        ],
    },
    "Numbers": {
        "source": "artap/utils.py",
        "serves": ["C12", "C08"],
        "imports": ["ArtapModel.Model.Sampling"],
        "functions": [
            {   # specialised to the calls the model covers: bounds given, uniform distribution, real parameter;
                # `random()` is the oracle parameter u, `round` is Python 3's round-half-even (`pyRound`)
                "py": "VectorAndNumbers.gen_number", "lean": "gen_number",
                "py_params": ["cls", "bounds", "precision", "distribution", "p_type"], "allow_defaults": True,
                "params": [("lb", "Rat"), ("ub", "Rat"), ("precision", "Rat"), ("u", "Rat")],
                "vars": {"precision": "Rat"}, "mutable_params": ["precision"],
                "bind": {"bounds[0]": ("lb", "Rat"), "bounds[1]": ("ub", "Rat"), "random()": ("u", "Rat")},
                "static": {"bounds is None": False, "distribution == 'uniform'": True,
                           "distribution == 'normal'": False, "p_type == 'integer'": False},
                "calls": {"round": {"fn": "Artap.Sampling.pyRound", "args": ["Rat"], "ret": "Int"}},
                "ret": "Rat", "raises": True,
            },
        ],
    },
    "Sampling": {
        "source": "artap/doe.py",
        "serves": ["C12"],
        "imports": ["ArtapModel.Model.Sampling"],
        "functions": [
            {   # the inner `while i > 0` loop runs on fuel `n_sample` (i < n_sample and every pass at least halves i
                # when base >= 2; base = 1 does not terminate = out of fuel, base = 0 raises in divmod)
                "py": "_van_der_corput", "lean": "van_der_corput",
                "py_params": ["n_sample", "base"], "allow_defaults": True,
                "params": [("n_sample", "Nat"), ("base", "Nat")],
                "vars": {"n_sample": "Nat", "base": "Nat"},
                "ret": L("Rat"), "raises": True,
                "fuel": ["n_sample"],
            },
        ],
    },
    "Genetic": {
        "source": "artap/algorithm_genetic.py",
        "serves": ["C09"],
        "imports": ["ArtapModel.Model.Runs"],
        "functions": [
            {   # selection, crossover and mutation are not translated: their results, the two children of each pass of
                # the `while` loop, are the members of the oracle list `pairs` (one pair per pass; the list running
                # dry is `none`), exactly as in the hand-written `Artap.Runs.generate`
                "py": "GeneticAlgorithm.generate", "lean": "GeneticAlgorithm_generate",
                "header": "{D : Type}",
                "py_params": ["self", "parents", "archive"], "allow_defaults": True,
                "params": [("eq", "D → D → Bool"), ("N", "Nat"), ("pairs", L(("Prod", ("D", "D"))))],
                "bind": {"self.options['max_population_size']": ("N", "Nat")},
                "eq": {"D": "(eq {0} {1})"},
                "ret": L("D"), "raises": True,
                "if_convert_append": True,
                "fuel": [{"stream": "pairs", "elem": ("Prod", ("D", "D")), "pattern": ("child1", "child2")}],
                "ignore": [
                    "parent1 = self.selector.select(parents)",
                    "if archive:\n    if len(archive) <= 1:\n        parent2 = self.selector.select(parents)\n"
                    "    else:\n        parent2 = archive.rand_choice()\nelse:\n    parent2 = self.selector.select(parents)",
                    "vector_1, vector_2 = self.crossover.cross(parent1.vector, parent2.vector)",
                    "child1 = parent1.__class__(vector_1)",
                    "child2 = parent1.__class__(vector_2)",
                    "child1.vector = self.mutator.mutate(child1.vector, child2.vector)",
                    "child2.vector = self.mutator.mutate(child2.vector, child1.vector)",
                ],
                "ignore_why": "selection / crossover / mutation: their results are the oracle pair (child1, child2) of the pass",
            },
        ],
    },
    "Dominance": {
        "source": "artap/operators.py",
        "serves": ["C01", "C02", "C03", "C04", "C09"],
        "imports": ["ArtapModel.Model.Dominance"],
        "functions": [
            {   # costs_signed = costs ++ [marker]; the model takes costs and marker separately
                "py": "ParetoDominance.compare", "lean": "ParetoDominance_compare",
                "header": "{α : Type} [LT α] [DecidableLT α]",
                "py_params": ["self", "p", "q"],
                "params": [("p", L("α")), ("q", L("α")), ("mp", "Int"), ("mq", "Int")],
                "ret": "Nat", "carrier": ["α"],
                "bind": _MARKERS,
            },
            {
                "py": "EpsilonDominance.compare", "lean": "EpsilonDominance_compare",
                "py_params": ["self", "p", "q"],
                "params": [("eps", L("Rat")), ("p", L("Rat")), ("q", L("Rat")), ("mp", "Int"), ("mq", "Int")],
                "ret": "Nat", "raises": True,
                "bind": {
                    "p[-1]": ("mp", "Int"), "q[-1]": ("mq", "Int"),
                    "p[:-1]": ("p", L("Rat")), "q[:-1]": ("q", L("Rat")),
                    "self.epsilons": ("eps", L("Rat")),
                },
            },
        ],
    },
    "Selection": {
        "source": "artap/operators.py",
        "serves": ["C03", "C09"],
        "imports": ["ArtapModel.Model.Selection"],
        "open": ["Artap"],
        "functions": [
            {
                "py": "nondominated_cmp", "lean": "nondominated_cmp",
                "py_params": ["p", "q"],
                "params": [("p", "Ind"), ("q", "Ind")],
                "vars": {"p": "Ind", "q": "Ind"},
                "ret": "Int",
                "types": {
                    "Ind": {".features": ("{0}", "Ind#features")},
                    "Ind#features": {"['front_number']": ("{0}.front", "Nat"),
                                     "['crowding_distance']": ("{0}.crowd", "Int")},
                },
            },
            {   # random.sample -> positions i j, random.choice -> coin, the comparator is a parameter
                "py": "TournamentSelector.select", "lean": "TournamentSelector_select",
                "py_params": ["self", "individuals"],
                "params": [("cmp", "Cand → Cand → Nat"), ("individuals", L("Cand")),
                           ("i", "Nat"), ("j", "Nat"), ("coin", "Bool")],
                "vars": {"individuals": L("Cand")},
                "ret": "Cand", "raises": True,
                "types": {
                    "Cand": {".features": ("{0}", "Cand#features"), ".costs_signed": ("{0}", "Cand#cs")},
                    "Cand#features": {"['front_number']": ("{0}.front", "Nat")},
                },
                "calls": {
                    "random.sample": {"expr": _random_sample_2},
                    "random.choice": {"expr": _random_choice_pair},
                    "self.dominance.compare": {"fn": "cmp", "args": ["Cand#cs", "Cand#cs"], "ret": "Nat"},
                },
            },
        ],
    },
    "Equality": {
        "source": "artap/individual.py",
        "serves": ["C20", "C03", "C09"],
        "imports": ["ArtapModel.Model.Equality"],
        "functions": [
            {
                "py": "Individual.__eq__", "lean": "Individual_eq",
                "py_params": ["self", "other"],
                "params": [("v", L("Rat")), ("w", L("Rat"))],
                "ret": "Bool", "raises": True,
                "bind": {"self.vector": ("v", L("Rat")), "other.vector": ("w", L("Rat"))},
            },
        ],
    },
    "Archive": {
        "source": "artap/archive.py",
        "serves": ["C04", "C09", "C18"],
        "imports": ["ArtapModel.Model.Archive"],
        "functions": [
            {   # generic in the element type, the comparator (may raise) and the costs equality, as the model
                "py": "Archive.add", "lean": "Archive_add",
                "header": "{α : Type}",
                "py_params": ["self", "individual"],
                "params": [("cmp", "α → α → Option Nat"), ("same", "α → α → Bool"),
                           ("contents", L("α")), ("individual", "α")],
                "vars": {"individual": "α"},
                "state": {"self._contents": ("contents", L("α"))},
                "ret": "Bool", "raises": True,
                "result": ("({contents}, {ret})", ("Prod", (L("α"), "Bool"))),
                "types": {"α": {".costs_signed": ("{0}", "α#cs")}},
                "eq": {"α#cs": "(same {0} {1})"},
                "calls": {"self._dominance.compare": {"fn": "cmp", "args": ["α#cs", "α#cs"], "ret": "Nat", "raises": True}},
            },
        ],
    },
    "Swarm": {
        "source": "artap/algorithm_swarm.py",
        "serves": ["C18", "C08"],
        "imports": ["ArtapModel.Model.Swarm"],
        "prelude": """
/-- a particle as `update_position` sees it: `individual.vector` and `individual.features['velocity']` -/
structure Particle where
  vector : List Rat
  velocity : List Rat

/-- a particle as `update_particle_best` sees it: `costs_signed`, `features['best_cost']`, `vector`,
`features['best_vector']` (κ: signed cost vectors, V: design vectors; both are only moved around) -/
structure PBest (κ V : Type) where
  costs_signed : κ
  best_cost : κ
  vector : V
  best_vector : V
""",
        "functions": [
            {
                "py": "SwarmAlgorithm.speed_constriction", "lean": "speed_constriction",
                "py_params": ["velocity", "u_bound", "l_bound"],
                "params": [("velocity", "Rat"), ("u_bound", "Rat"), ("l_bound", "Rat")],
                "vars": {"velocity": "Rat", "u_bound": "Rat", "l_bound": "Rat"}, "mutable_params": ["velocity"],
                "ret": "Rat",
            },
            {   # `population` is a list of record values PBest (distinct objects: CopySelector / the generator build a
                # fresh object per particle); the comparator verdict on (costs_signed, best_cost) is the parameter cmp.
                # `features['best_cost']` is a cost vector (init_pbest has run): the call with best_cost = None raises a
                # TypeError inside the comparator and is outside the model.  The result gives the attribute *values* at
                # return; that best_vector then is the same list object as vector is not represented.
                "py": "SwarmAlgorithm.update_particle_best", "lean": "update_particle_best",
                "header": "{κ V : Type}",
                "py_params": ["self", "population"],
                "params": [("cmp", "κ → κ → Nat"), ("population", L("PBest"))],
                "state": {"population": ("population", L("PBest"))},
                "objects": {"PBest": "every particle of a swarm is an object of its own"},
                "lean_types": {"PBest": "(PBest κ V)", "PBest#features": "(PBest κ V)"},
                "types": {
                    "PBest": {".costs_signed": ("{0}.costs_signed", "κ"), ".vector": ("{0}.vector", "V"),
                              ".features": ("{0}", "PBest#features")},
                    "PBest#features": {
                        "['best_cost']": ("{0}.best_cost", "κ", "{{ {0} with best_cost := {1} }}"),
                        "['best_vector']": ("{0}.best_vector", "V", "{{ {0} with best_vector := {1} }}")},
                },
                "calls": {"self.dominance.compare": {"fn": "cmp", "args": ["κ", "κ"], "ret": "Nat"}},
                "ret": "Unit", "raises": False, "none_ret": "()",
                "result": ("{population}", L("PBest")),
            },
        ] + [
            {   # `individuals` is a list of record values Particle (distinct objects), `self.parameters` the list of
                # (lower, upper) bounds (`parameter['bounds'][0]`, `parameter['bounds'][1]`); IndexError (velocity
                # shorter than the coordinates visited) is `none`
                "py": "%s.update_position" % cls, "lean": "%s_update_position" % cls,
                "py_params": ["self", "individuals"],
                "params": [("params", L("Param")), ("individuals", L("Particle"))],
                "state": {"individuals": ("individuals", L("Particle"))},
                "objects": {"Particle": "every particle of a swarm is an object of its own"},
                "bind": {"self.parameters": ("params", L("Param"))},
                "lean_types": {"Param": "(Rat × Rat)", "Param#bounds": "(Rat × Rat)", "Particle#features": "Particle"},
                "types": {
                    "Particle": {".vector": ("{0}.vector", L("Rat"), "{{ {0} with vector := {1} }}"),
                                 ".features": ("{0}", "Particle#features")},
                    "Particle#features": {"['velocity']": ("{0}.velocity", L("Rat"), "{{ {0} with velocity := {1} }}")},
                    "Param": {"['bounds']": ("{0}", "Param#bounds")},
                    "Param#bounds": {"[0]": ("{0}.1", "Rat"), "[1]": ("{0}.2", "Rat")},
                },
                "ret": "Unit", "raises": True, "none_ret": "()",
                "result": ("{individuals}", L("Particle")),
            } for cls in ("OMOPSO", "SMPSO", "PSOGA")
        ],
    },
    "Truncate": {
        "source": "artap/archive.py",
        "serves": ["C04", "C18"],
        "imports": ["ArtapModel.Model.Archive"],
        "functions": [
            {   # generic in the element type; `x.features[getter]` is the parameter feat (the model's total feature
                # function: every member carries the feature, a KeyError is outside the model; the keys are compared
                # as integers - doubles travel through the order embedding, regime R1); `size` is a natural number
                # (max_population_size; a negative slice bound would count from the end)
                "py": "Archive.truncate", "lean": "Archive_truncate",
                "header": "{α : Type}",
                "py_params": ["self", "size", "getter", "larger_preferred"], "allow_defaults": True,
                "params": [("feat", "α → Int"), ("contents", L("α")), ("size", "Nat"), ("larger_preferred", "Bool")],
                "vars": {"size": "Nat", "larger_preferred": "Bool"},
                "state": {"self._contents": ("contents", L("α"))},
                "types": {"α": {".features": ("{0}", "α#features")},
                          "α#features": {"[getter]": ("(feat {0})", "Int")}},
                "lean_types": {"α#features": "α"},
                "sort": "Int",
                "ret": "Unit", "raises": True,
                "result": ("{contents}", L("α")),
            },
        ],
    },
    "Queries": {
        "source": "artap/problem.py",
        "serves": ["C17"],
        "imports": ["ArtapModel.Model.Results"],
        "open": ["Artap.Results"],
        "functions": [
            {   # `self.individuals` is the list inds of the model's recorded individuals; population_id is the tag
                "py": "Problem.population", "lean": "Problem_population",
                "py_params": ["self", "population_id"],
                "params": [("inds", L("Ind")), ("population_id", "Int")],
                "vars": {"population_id": "Int"},
                "bind": {"self.individuals": ("inds", L("Ind"))},
                "types": {"Ind": {".population_id": ("{0}.tag", "Int")}},
                "ret": L("Ind"),
            },
            {   # the call `self.population(max_index)` is the function generated above
                "py": "Problem.last_population", "lean": "Problem_last_population",
                "py_params": ["self"],
                "params": [("inds", L("Ind"))],
                "bind": {"self.individuals": ("inds", L("Ind"))},
                "types": {"Ind": {".population_id": ("{0}.tag", "Int")}},
                "calls": {"self.population": {"fn": "Problem_population inds", "args": ["Int"], "ret": L("Ind")}},
                "ret": L("Ind"),
            },
            {   # the result is an insertion-ordered dict tag -> list of individuals (`pyDict*` of the prelude)
                "py": "Problem.populations", "lean": "Problem_populations",
                "py_params": ["self"],
                "params": [("inds", L("Ind"))],
                "bind": {"self.individuals": ("inds", L("Ind"))},
                "types": {"Ind": {".population_id": ("{0}.tag", "Int")}},
                "ret": ("Dict", ("Int", L("Ind"))), "raises": True,
            },
        ],
    },
    "Results": {
        "source": "artap/results.py",
        "serves": ["C17"],
        "imports": ["ArtapModel.Model.Results", "ArtapModel.Gen.Queries"],
        "open": ["Artap.Results"],
        "functions": [
            {   # the two callees are the functions generated from artap/problem.py (Gen/Queries.lean)
                "py": "Results.population", "lean": "Results_population",
                "py_params": ["self", "population_id"], "allow_defaults": True,
                "params": [("inds", L("Ind")), ("population_id", "Int")],
                "vars": {"population_id": "Int"},
                "calls": {
                    "self.problem.last_population": {"fn": "Artap.Gen.Queries.Problem_last_population inds", "args": [], "ret": L("Ind")},
                    "self.problem.population": {"fn": "Artap.Gen.Queries.Problem_population inds", "args": ["Int"], "ret": L("Ind")},
                },
                "ret": L("Ind"),
            },
            {   # `self.problem.individuals` = inds; `self.problem.costs` = goals, one entry per goal function: the value of
                # its 'criteria' key when it has one (`Goal` = Option String); `name` = "a non-empty goal name was given"
                # (only its truth value is used); `self.goal_index(name)` = the oracle gidx (none = its ValueError);
                # costs travel as integers through the order embedding (regime R1), keys are only compared
                "py": "Results.find_optimum", "lean": "Results_find_optimum",
                "py_params": ["self", "name"], "allow_defaults": True,
                "params": [("inds", L("Ind")), ("goals", L("Goal")), ("name", "Bool"), ("gidx", ("Option", "Nat"))],
                "vars": {"name": "Bool"},
                "lean_types": {"Goal": "(Option String)"},
                "strings": True, "sort": "Int",
                "bind": {
                    "self.problem.individuals": ("inds", L("Ind")),
                    "self.problem.costs": ("goals", L("Goal")),
                    "self.goal_index(name)": ("gidx", "Nat", "partial"),
                },
                "types": {
                    "Ind": {".costs": ("{0}.costs", L("Int"))},
                    "Goal": {"in 'criteria'": ("(Option.isSome {0})", "Bool"), "['criteria']": ("?{0}", "Str")},
                },
                "ret": "Ind", "raises": True,
            },
        ],
    },
    "Surrogate": {
        "source": "artap/surrogate.py",
        "serves": ["C19"],
        "imports": ["ArtapModel.Model.Surrogate"],
        "open": ["Artap.Surrogate"],
        "functions": [
            {   # the wrapper object is the record state s : St (eval_counter, predict_counter, trained, x_data, y_data
                # and the ghost fields of the model)
                "py": "SurrogateModel.add_data", "lean": "SurrogateModel_add_data",
                "py_params": ["self", "x", "y"],
                "params": [("s", "St"), ("x", L("Int")), ("y", L("Int"))],
                "vars": {"x": L("Int"), "y": L("Int")},
                "ghost_state": {"s": "St"},
                "fields": {
                    "self.eval_counter": ("s", "evalCount", "Nat"),
                    "self.problem.surrogate.predict_counter": ("s", "predCount", "Nat"),
                    "self.trained": ("s", "trained", "Bool"),
                    "self.x_data": ("s", "xs", L(L("Int"))),
                    "self.y_data": ("s", "ys", L(L("Int"))),
                },
                "ret": "Unit", "none_ret": "()",
                "result": ("{s}", "St"),
            },
            {   # `individual` is the request (its vector); `self.problem.evaluate` is the objective f (logged);
                # `self.train_step` is the integer ts; `self.train()` as in the model (see _train_stmt)
                "py": "SurrogateModelPredict.evaluate_individual", "lean": "SurrogateModelPredict_evaluate_individual",
                "py_params": ["self", "individual"],
                "params": [("f", "List Int → List Int"), ("ts", "Int"), ("s", "St"), ("individual", "Req")],
                "vars": {"individual": "Req"},
                "ghost_state": {"s": "St"},
                "fields": {
                    "self.eval_counter": ("s", "evalCount", "Nat"),
                    "self.problem.surrogate.predict_counter": ("s", "predCount", "Nat"),
                    "self.trained": ("s", "trained", "Bool"),
                    "self.x_data": ("s", "xs", L(L("Int"))),
                    "self.y_data": ("s", "ys", L(L("Int"))),
                },
                "bind": {"self.train_step": ("ts", "Int")},
                "types": {"Req": {".vector": ("{0}.x", L("Int"))}},
                "calls": {
                    "self.problem.evaluate": {"expr": _objective_call, "mutates": ["s"]},
                    "self.add_data": {"stmt": _add_data_stmt, "mutates": ["s"]},
                    "self.train": {"stmt": _train_stmt, "mutates": ["s"]},
                },
                "ignore": [("if self.regressor is None:\n    self.init_default_regressor()",
                            "construction of the default regressor: the regressor is in the trusted base")],
                "ret": L("Int"), "raises": True,
                "result": ("({s}, {ret})", ("Prod", ("St", L("Int")))),
            },
            {   # `"predict" in dir(self.problem)` is hasHook, `self.problem.predict(individual)` the hook's answer carried by
                # the request (None = declines), `self.problem.surrogate` is the wrapper itself; the result is the returned
                # object (None or a cost list)
                "py": "SurrogateModelPredict.evaluate", "lean": "SurrogateModelPredict_evaluate",
                "py_params": ["self", "individual"],
                "params": [("f", "List Int → List Int"), ("hasHook", "Bool"), ("ts", "Int"), ("s", "St"), ("individual", "Req")],
                "vars": {"individual": "Req"},
                "ghost_state": {"s": "St"},
                "fields": {
                    "self.eval_counter": ("s", "evalCount", "Nat"),
                    "self.problem.surrogate.predict_counter": ("s", "predCount", "Nat"),
                    "self.trained": ("s", "trained", "Bool"),
                    "self.x_data": ("s", "xs", L(L("Int"))),
                    "self.y_data": ("s", "ys", L(L("Int"))),
                },
                "bind": {"'predict' in dir(self.problem)": ("hasHook", "Bool"),
                         "self.problem.predict(individual)": ("individual.hook", ("Option", L("Int")))},
                "calls": {"self.evaluate_individual": {"expr": _evaluate_individual_call, "mutates": ["s"]}},
                "ret": ("Option", L("Int")), "raises": True,
                "result": ("({s}, {ret})", ("Prod", ("St", ("Option", L("Int"))))),
            },
            {
                "py": "SurrogateModelEval.evaluate", "lean": "SurrogateModelEval_evaluate",
                "py_params": ["self", "individual"],
                "params": [("f", "List Int → List Int"), ("s", "St"), ("individual", "Req")],
                "vars": {"individual": "Req"},
                "ghost_state": {"s": "St"},
                "fields": {
                    "self.eval_counter": ("s", "evalCount", "Nat"),
                    "self.problem.surrogate.predict_counter": ("s", "predCount", "Nat"),
                    "self.trained": ("s", "trained", "Bool"),
                    "self.x_data": ("s", "xs", L(L("Int"))),
                    "self.y_data": ("s", "ys", L(L("Int"))),
                },
                "calls": {"self.problem.evaluate": {"expr": _objective_call, "mutates": ["s"]}},
                "ret": L("Int"),
                "result": ("({s}, {ret})", ("Prod", ("St", L("Int")))),
            },
        ],
    },
    "Signed": {
        "source": "artap/individual.py",
        "serves": ["C05"],
        "imports": ["ArtapModel.Model.Eval"],
        "open": ["Artap.Eval"],
        "functions": [
            {   # `self.costs_signed` is the list cs (the Python bool appended at the end travels as the number 1 / 0: bool
                # is an int subtype, and the comparators only use it as a number); `self.features["feasible"]` is
                # the model's three-valued Feas (its truth value); np.round is env.rnd (see _np_round)
                "py": "Individual.calc_signed_costs", "lean": "Individual_calc_signed_costs",
                "py_params": ["self", "p_signs"],
                "params": [("env", "Env"), ("prec", "Nat"), ("costs", L("Rat")), ("feasible", "Feas"), ("p_signs", L("Rat")),
                           ("cs", L("Rat"))],
                "vars": {"p_signs": L("Rat")},
                "state": {"self.costs_signed": ("cs", L("Rat"))},
                "bind": {"self.costs": ("costs", L("Rat")),
                         "self.features['feasible']": ("(Feas.truthy feasible)", "Bool")},
                "calls": {"np.round": {"expr": _np_round}},
                "coerce": {("Bool", "Rat"): "(if {0} = true then (1 : Rat) else 0)"},
                "ret": "Unit", "none_ret": "()",
                "result": ("{cs}", L("Rat")),
            },
        ],
    },
    "Robust": {
        "source": "artap/operators.py",
        "serves": ["C14"],
        "imports": ["ArtapModel.Model.Robust"],
        "open": ["Artap.Robust"],
        "functions": [
            {   # the submitted design is the record d : Ind with identity i (the bare name `individual` = its identity:
                # the work lists `self.individuals` / `self.to_evaluate` are lists of identities, as in the model);
                # `parameters[k]` is the k-th entry of tol (its 'tol' value, none = the key is missing)
                "py": "WorstCaseEvaluator.add", "lean": "WorstCaseEvaluator_add",
                "py_params": ["self", "individual"],
                "params": [("tol", L("Tol")), ("i", "Nat"), ("d", "Ind"), ("individuals", L("ObjId")),
                           ("to_evaluate", L("ObjId"))],
                "ghost_state": {"d": "Ind"},
                "state": {"self.individuals": ("individuals", L("ObjId")), "self.to_evaluate": ("to_evaluate", L("ObjId"))},
                "fields": {"individual.children": ("d", "children", L("Child")),
                           "individual.vector": ("d", "x", L("Rat"))},
                "bind": {"self.algorithm.problem.parameters": ("tol", L("Tol")), "individual": ("i", "ObjId")},
                "lean_types": {"Tol": "(Option Rat)", "ObjId": "Nat"},
                "types": {"Tol": {"['tol']": ("?{0}", "Rat")}},
                "calls": {"Individual": {"expr": _child_ctor}},
                "ignore": [
                    ("individual.children[-1].parents.append(individual)",
                     "back reference from the neighbour to its parent: `parents` is not part of the model"),
                    ("self.to_evaluate.extend(individual.children)",
                     "to_evaluate is a concatenation of whole families [parent] ++ parent.children; the model keeps it as "
                     "the list of the parents' identities, the children are reached through the parent"),
                ],
                "ret": "Unit", "raises": True, "none_ret": "()",
                "result": ("({d}, {individuals}, {to_evaluate})", ("Prod", ("Ind", L("ObjId"), L("ObjId")))),
            },
        ],
    },
    "Variation": {
        "source": "artap/operators.py",
        "serves": ["C08"],
        "imports": ["ArtapModel.Model.Variation"],
        "functions": [
            {
                "py": "Operator.clip", "lean": "Operator_clip",
                "py_params": ["value", "min_value", "max_value"],
                "params": [("value", "Rat"), ("min_value", "Rat"), ("max_value", "Rat")],
                "vars": {"value": "Rat", "min_value": "Rat", "max_value": "Rat"},
                "ret": "Rat",
            },
        ],
    },
    "Runs": {
        "source": "artap/operators.py",
        "serves": ["C09"],
        "imports": ["ArtapModel.Model.Runs"],
        "functions": [
            {   # the two random.choice draws are the oracle parameters pick1, pick2 (as in the model)
                "py": "Selector.pop_acceptance", "lean": "Selector_pop_acceptance",
                "header": "{D : Type}",
                "py_params": ["self", "individuals", "individual"],
                "params": [("cmp", "D → D → Nat"), ("eq", "D → D → Bool"), ("individuals", L("D")),
                           ("individual", "D"), ("pick1", "Nat"), ("pick2", "Nat")],
                "vars": {"individual": "D"},
                "state": {"individuals": ("individuals", L("D"))},
                "ret": "Unit", "raises": True,
                "result": ("{individuals}", L("D")),
                "types": {"D": {".costs_signed": ("{0}", "D#cs")}},
                "eq": {"D": "(eq {0} {1})"},
                "oracles": ["pick1", "pick2"],
                "calls": {
                    "self.dominance.compare": {"fn": "cmp", "args": ["D#cs", "D#cs"], "ret": "Nat"},
                    "random.choice": {"expr": _random_choice_list},
                },
            },
        ],
    },
}

# listing order: the modules of the first round, then the loop-heavy functions in the order they were added
SPECS = {k: SPECS[k] for k in ["Dominance", "Selection", "Equality", "Archive", "Variation", "Runs",
                               "Sorting", "Crowding", "Sampling", "Genetic", "Eval", "Numbers"]
         + [k for k in SPECS if k not in ("Dominance", "Selection", "Equality", "Archive", "Variation", "Runs",
                                          "Sorting", "Crowding", "Sampling", "Genetic", "Eval", "Numbers")]}
