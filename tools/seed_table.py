#!/usr/bin/env python3
"""Prints the markdown table of seeded changes (seeded/*/meta.json) for DESIGN.md section 11.3."""
import glob, json, os
HERE = os.path.dirname(os.path.dirname(os.path.abspath(__file__)))
print("| seeded change | breaks | what it is / what it needs to manifest | caught by (key: what the check reported) |")
print("|---|---|---|---|")
for f in sorted(glob.glob(os.path.join(HERE, "seeded", "*", "meta.json"))):
    m = json.load(open(f))
    c = m.get("confirmed_by_verif", {})
    name = os.path.basename(os.path.dirname(f))
    summ = " ".join(str(m.get("summary", "")).split())[:230]
    need = " ".join(str(m.get("what_it_needs_to_manifest", "")).split())[:200]
    caught = []
    for p in c.get("caught_by", []):
        w = " ".join(c["checks"][p].get("what", "").split())[:110]
        caught.append("**%s**: %s" % (p, w.replace("|", "/")))
    print("| %s | %s | %s — *needs:* %s | %s |" % (name, m.get("property"), summ.replace("|", "/"), need.replace("|", "/"), "<br>".join(caught) or "NOT CAUGHT"))
