#!/usr/bin/env python3
"""py2lean -- regenerate Lean definitions from the Python source of artap (translation tie).

    Python source ($REPO, default /repo)  --this file-->  lean/ArtapModel/Gen/<Name>.lean   (generated)
    lean/ArtapModel/Tie/<Name>.lean (hand-written, committed):  tie_<fn> : <generated fn> = <model fn>

so every property theorem about the hand-written model is, by transitivity, a theorem about the
function generated from what the source says *now*.  The source is read with `ast.parse` (artap is
never imported).  Anything outside the supported subset stops the translator with
`py2lean: unsupported: <file> <function>: line N: <why>: <source>` (exit status 3 for --gen,
`"generated": false` for --tie); nothing approximate is ever emitted.

CLI
    --gen <Name> [--stdout]   regenerate lean/ArtapModel/Gen/<Name>.lean (byte-identical for identical input)
    --tie <Name>              regenerate, `lake build ArtapModel.Tie.<Name>`, audit the axioms of every
                              `tie_*` theorem; prints one JSON line
                              {"name","generated","tie_checks","theorems","source_blob","serves","detail"}; exit 0
    --all                     --tie for every covered module
    --list                    covered modules, functions and the property ids each tie serves
    --lean-dir DIR            lake project to write to / build in (default /verif/lean; the self-test uses a copy)
The per-function *spec entries* (Lean parameter lists, result types, binding tables, oracles) are in
tools/py2lean_specs.py; the mutation self-test is tools/py2lean_selftest.py (+ py2lean_mutations.py).

Compile scheme (this is the trusted part: what is assumed about Python)
  * statements: `block(stmts, k)` gives a Lean *term*; `return e` -> e; `x = e; rest` -> `let x := e; rest`
    (shadowing models rebinding; `x += e` likewise); `if/elif/else; rest` -> `if c then A;rest else B;rest`
    (continuation duplicated; an `if` whose branches only assign existing variables and cannot raise becomes
    `let x := if c then e else x`); `pass`/docstrings skipped; `raise` -> `none`.
  * `for pat in it: body; rest` -> a top-level structurally recursive function `<fn>_loop<k>` over the list
    value of `it`: its `[]` case is `rest`, its `pat :: tl` case is `body` followed by the recursive call on
    `tl`; `continue` = that call, `break` = `rest`, `return e` = e.  It takes as parameters the Lean
    parameters it mentions and the *carried* variables (every variable read in body or rest), ordered by
    first occurrence in the generated body, so renaming locals or reordering initialisations leaves the
    definitions alpha-equivalent.  Iterables: a list value, `list(xs)` (snapshot), `range(n)` -> `List.range n`,
    `zip(a, b)` -> `List.zip`, `enumerate(a)` -> `List.zipIdx` (element first, index second).
    Lists are values: `xs.append(e)`, `xs.remove(e)`, `del xs[k]` rebind `xs`; iterating a list that the
    function mutates in place without a snapshot, or aliasing such a list, is rejected.
  * expressions are typed from the spec entry (never inferred from Python objects): `Int`/`Nat`/`Rat`/`Bool`,
    an opaque ordered carrier, lists, pairs, spec record types with declared accessors.  `a > b` is emitted as
    `b < a`, `a >= b` as `b ≤ a`, `==`/`!=` as `=`/`≠` (a literal on the left is moved to the right),
    `and/or/not` as `∧ ∨ ¬` (a Bool variable `v` in a condition is `v = true`); `abs` on Int is `Int.natAbs`,
    on Rat `pyAbs`; `min(a,b)` = `if b < a then b else a`, `max(a,b)` = `if a < b then b else a` (CPython's
    choice on ties); `len` = `List.length`; `float(x)` = x; `math.pow(x, 2.0)` = `x * x`; natural-number
    subtraction is done in `Int`.  A float literal denotes the decimal number written (`1e-3` = 1/1000):
    arithmetic is that of the rationals (regime R2 of DESIGN.md), not IEEE.
  * operations that can raise are never defaulted: `a / b` and `a % b` guard `b ≠ 0`, `xs[i]` is `xs[i]?`
    (signed indices through `pyGet`/`pyDel` with Python's from-the-end rule), `xs.remove` needs a hit,
    `random.choice([])`, `random.sample` with equal / out-of-range positions; a failing guard is `none`
    (result type `Option _`).  Such an operation on the right of `and`/`or` or inside `a if c else b`
    is rejected.  A guard already passed on the same straight-line path is not emitted twice.
  * random draws and callables held by `self` are parameters of the generated function (oracles), declared in
    the spec entry; attribute / subscript chains on parameters are translated only through the spec's binding
    table and accessor tables (e.g. `p[-1] -> mp`, `p[:-1] -> p`, `x.features['front_number'] -> x.front`).
  * nested loops: a loop inside a loop body is compiled to a function of the variables it *assigns* (carried,
    returned as a tuple - `some (..)` when the function can raise) and of the variables it only reads (extra
    parameters, among them the loop variables of the enclosing loops); its `[]` case returns the carried
    variables, `break` likewise, `continue` is the recursive call, `return` inside a nested loop is rejected.
    The code after the inner loop continues at the call site with the returned values
    (`match inner .. with | some (a, b) => rest | none => none`), so the enclosing loop stays structurally
    recursive (no mutual recursion).  Top-level loops keep the continuation-passing form above.
  * `while c: body; rest` needs a *fuel* from the spec entry (`fuel: ["n + 1"]`, a Lean term over the parameters):
    `<fn>_loop<k>` recurses on the fuel; each pass first evaluates `c` (false: `rest`), then needs one unit of
    fuel (`0 => none`), so "the fuel suffices" is a theorem of the Tie file, never an assumption.  The fuel may
    also be an oracle list (`{"stream": "pairs", "elem": T, "pattern": (a, b)}`): every pass consumes one member,
    whose components are the values of the free names `a`, `b` during that pass; the list running dry is `none`.
  * `for x in X[v - a]` / `for x in obj.features['key']` iterate the value at loop entry; accepted only when the body
    cannot mutate that list object (see `snapshot_guard`; for `X[v - a]` with `X[v - b].append(..)` in the body,
    a != b, the guard `0 <= v - max(a, b)` is emitted: negative indices could alias).
  * objects with mutable attributes: the spec entry says how they are represented -
    `tables` (one list per feature, indexed by the object's position; reads are `xs[i]?`, writes are guarded
    `List.set`, `+=` / `.append` read first), `fields` (attributes of one object = fields of a record state
    variable), accessors with a *setter* for `xs[i].a['k'] = e` on a list of record values (the list is rebound
    with member i replaced: valid because members are distinct objects; stated in the spec entry).
  * further forms: `range(a, b)` -> `List.range' a (b - a)` (an Int upper bound through `Int.toNat`); tuple
    assignment `a, b = e1, e2` (right-hand sides first) and `q, r = divmod(a, b)` on naturals (guard `b != 0`);
    `int op float` -> the exact rational; `None` / `is None` on values the spec types as `Option`;
    `xs[i].append(e)` / `xs.pop()` / `xs.sort(key=lambda x: e)` (all keys first - `pyKeys`, a raising key aborts -
    then a stable `List.mergeSort` on `key a <= key b` - `pySort`; needs `sort: <key type>` in the spec);
    `any(<test> for x in xs)` / `all(..)` -> `List.any` / `List.all` (exactly this generator form, the test must
    not raise); `if a and b:` with a raising operation in `b` is rewritten to nested `if`s (`or` likewise).
  * `try` ONLY in the oracle form of the spec entry (`try:` key): the first statement of the body is
    `x = <oracle call>`, the single raising operation; the outcome class of the oracle (a constructor of the
    spec's outcome type) selects the rest of the body or the handler mapped to it; exceptions are then *values*
    of the result (`raise:` map, bare `raise` = the handler's `reraise` value) and the function is compiled with
    raises=False, so any other raising operation is rejected.
  * `ignore:` statements of the spec entry are removed before compilation and listed in the generated header
    with the reason (an entry that matches nothing is an error).
  Third round (swarm helpers, truncate, result queries, surrogate wrapper, signed costs, worst-case neighbours):
  * object loops: `for x in xs: body` where xs is a list of values of a spec record type declared in `objects`
    and the body assigns attributes of x (`x.a = e`, `x.a['k'] = e`, `x.a[j] = e`, `x.a[j] op= e`): the loop runs
    over the value of xs at entry, x is a record variable rebound field by field, every pass appends the final x
    to the accumulator `<xs>_done`, after the loop xs is rebound to the accumulator.  Valid when the members are
    distinct objects (assumption printed in the generated header) and x cannot escape: every occurrence of x in
    the body must be the root of an attribute path, the body must not touch xs, no `break` / `return`, not nested.
    What is returned are the attribute *values*; sharing between attributes (`best_vector` being the same list
    object as `vector`) is not represented, and storing a list into an attribute is rejected in a function that
    also mutates lists in place.
  * `xs[j] = e` / `xs[j] op= e` on a local list, `obj.attr op= e` and `obj.attr.append(e)` on record fields,
    `xs.copy()` (= the value), `xs.reverse()`, `xs[:k]` for a natural number k (`List.take`),
    `for s in [-1, 1]` (a display of integer literals), `sorted(xs, key=lambda x: e)` (a new list: `pyKeys` then
    the stable sort; integer keys: `pySortInt`), `min(xs, key=lambda ..)` / `max(..)` (`pyMinBy` / `pyMaxBy`: one
    scan, the first best member wins, empty list = ValueError, spec `sort: Int`),
    `list(map(lambda x, y: e, xs, ys))` (`List.zipWith`, e must not raise), `a % b` on integers (`Int.fmod`, the
    floored remainder of Python, guard b != 0), `-1 == x` emitted as `x = -1`.
  * insertion-ordered dicts (`pyDict*` of the generated prelude): a dict is the list of its (key, value) items in
    insertion order; it is built only by `{}` (= []) and `d[k] = v` (an existing key keeps its position and gets
    the new value, a new key is appended at the end), so every key occurs in one item; `k in d` / `k not in d`,
    `d[k]` (KeyError = none), `d[k].append(e)` (list values enter a dict only as fresh displays, so rebinding the
    item is the mutation).  Keys are numbers; a dict that is a parameter cannot be assigned to.
  * values that are `None` or a value: a local that is assigned `None` and a value is `Option`; `x == v` is
    `x = some v`; string constants (spec option `strings`) are only compared for equality; `'k' in obj` /
    `obj['k']` on a spec type through the accessors "in 'k'" and "['k']" (a template starting with `?` is
    Option-valued: none = KeyError); a binding-table entry marked "partial" likewise.
  * spec call handlers may add ghost / state updates (`("let", var, term)` in the prelude of an expression), a
    spec module may declare record types (`prelude`, printed verbatim in the generated file), a generated module
    may import another generated module whose functions it calls (regenerated first by --tie).
  Fourth round (benchmark functions, store documents, DoE helpers):
  * `num: True` functions compute with floats over a carrier `α` with the operations of `Artap.Num` (Model/Num.lean), so
    one generated definition serves `Num Float` (executable) and `Num ℝ` (the theorems): `+ - * /`, unary `-`, `**` /
    `pow` / `math.pow` are `Num.add/sub/mul/div/neg/pow`; numpy / math `cos sin exp sqrt abs fabs`, `pi`, `e` are resolved
    through the module's import statements (`import numpy as np`, `from numpy import exp`) to the class members
    (`e` = `Num.exp (Num.ofNat 1)`).  A float literal is `Num.ofRat (m / 10^k)` for the decimal numeral m*10^-k that
    Python prints for it (`0.2` -> `2 / 10`, not reduced); a literal with a non-negative integral value, `float(n)` and
    `len(..)` are natural numbers (type NatF: a float known to be a natural number) and `+` / `*` among them and integers
    is natural-number arithmetic (`2. * m`, `j + 1.`: exact below 2^53); an integer that meets a float is `Num.ofNat n`
    (`numOfInt z` for a signed integer).  An accumulator initialised with an integer (`s = 0`, `f = 10 * n`) and later
    assigned a float is a float from the start (`Num.ofNat` of the initial value).  ZeroDivisionError is `none` only where
    the divisor is an integer expression (`x / n` with `n = float(len(x))`); division by a float is `Num.div` (Python
    floats raise on 0.0, numpy floats give inf / nan; `math.sqrt` of a negative number raises: none of this is
    represented, the theorems of Props/ carry the hypotheses).  `a < b` / `a > b` on floats is the `lt` of the order
    class named by the spec (`num_lt`); other float comparisons are rejected.  `sum(xs)` is the left fold from
    `Num.ofNat 0` (`np.sum`, whose pairwise order differs, is rejected); `[e for y in xs]` is `List.map` (one `for`, no
    conditions, e must not raise); `xs[a:]` is `List.drop` (`pyDropFrom` for a signed start); a display of floats
    converts its integer-valued members; `x /= e`.  The conventions are printed in the header of the generated file.
  * a loop variable that re-uses the name of a variable of an enclosing loop is assigned by every pass; the inner loop
    function returns its last value together with the other carried variables.
  * `knot`: a function that calls itself is compiled in open-recursion form - the spec routes the self-call through a
    function parameter - and the generated `<knot>` closes the recursion by structural recursion on `depth`, the number
    of nested calls the interpreter still allows; `0` is the RecursionError.  That the budget suffices is a hypothesis
    of the Tie theorem, never an assumption of the translator.
  * `iterables`: what `for item in value` yields for a value of a spec type (a template; `?` = partial, none = TypeError);
    `strdict`: dicts with string keys - a display `{'k': e, ...}` with distinct constant keys is the association list in
    source order, every value converted to the spec's document type through `coerce`, `dict()` = `{}`, `d.items()` the
    pairs in insertion order; `list(xs)` is the value, `list()` = `[]`; a partial accessor (`?` template) also for
    attributes; `x == v` on an optional value of an opaque carrier type; `int(e)` on an integer (spec `int_is_int`).
  * `try_dropped`: handlers for exception classes that the spec declares impossible in the modelled world are dropped
    (`try: S except E: H` is S; every other exception propagates as without the try); listed in the generated header;
    an entry that matches no handler is an error.
  Rejected: with, comprehensions (except `[e for y in xs]` in a `num` function), generator expressions other than any()/all(), lambda other than a sort key,
  nested def, `while` without fuel, `try` other than the oracle form, return inside a nested loop, for/else,
  while/else, chained comparison, chained assignment, assignment to a parameter, slices and negative indices
  outside the binding table, keyword arguments, `//`, `**` and `int()` outside the cases above, `round()`, string operations, unknown calls
  and attributes, decorators other than staticmethod/classmethod, parameter defaults (unless allow_defaults), a
  variable whose type changes, aliasing of lists that are mutated, mutation of a list while a loop iterates over
  it, control falling off the end of a function without `none_ret` in the spec.
"""
import argparse
import ast
import fractions
import hashlib
import json
import os
import re
import subprocess
import sys

HERE = os.path.dirname(os.path.abspath(__file__))
VERIF = os.path.dirname(HERE)
sys.path.insert(0, HERE)
if __name__ == "__main__":
    sys.modules.setdefault("py2lean", sys.modules[__name__])      # the spec file imports this module


class Unsupported(Exception):
    pass


def bad(node, msg):
    src = ""
    line = "?"
    if node is not None:
        try:
            src = ast.unparse(node).split("\n")[0]
        except Exception:
            src = repr(node)
        line = getattr(node, "lineno", "?")
    raise Unsupported("line %s: %s: %s" % (line, msg, src))


# ----------------------------------------------------------------------------- types
# atoms are strings ("Int", "Nat", "Rat", "Bool", "IntLit", a carrier such as "α", a spec type
# such as "Ind"); ("List", T); ("Prod", (T, U, ...)); ("Option", T); ("Dict", (K, V))

NUMERIC = ("Int", "Nat", "Rat")
TYPE_ALIAS = {}                  # spec type -> Lean type it is written as (`lean_types` of the current spec entry)


def has_unknown(t):
    """an element type that is still to be found by the next typing pass"""
    if t == "?":
        return True
    if isinstance(t, tuple):
        if t[0] in ("Prod", "Dict"):
            return any(has_unknown(x) for x in t[1])
        return has_unknown(t[1])
    return False


def tshow(t, top=True):
    if isinstance(t, str):
        if t in TYPE_ALIAS:
            return TYPE_ALIAS[t]
        if t == "Str":
            return "String"
        return "Int" if t == "IntLit" else t
    if t[0] == "List":
        s = "List " + tshow(t[1], False)
    elif t[0] == "Option":
        s = "Option " + tshow(t[1], False)
    elif t[0] == "Prod":
        s = " × ".join(tshow(x, False) for x in t[1])
    elif t[0] == "Dict":               # insertion-ordered dict = the list of its (key, value) items
        s = "List (%s × %s)" % (tshow(t[1][0], False), tshow(t[1][1], False))
    else:
        raise ValueError(t)
    return s if top else "(" + s + ")"


# ----------------------------------------------------------------------------- Lean terms

class N:
    pass


class V(N):
    def __init__(self, name):
        self.name = name


class C(N):                      # closed text
    def __init__(self, text):
        self.text = text


class Lit(N):                    # integer literal whose type is fixed by unification
    def __init__(self, value):
        self.value = value
        self.ty = None


class Tm(N):                     # template text with {0} {1} ... holes; `fv` = Lean parameters it mentions
    def __init__(self, text, args=(), fv=()):
        self.text, self.args, self.fv = text, list(args), list(fv)


class Op(N):
    def __init__(self, op, a, b):
        self.op, self.a, self.b = op, a, b


class Not(N):
    def __init__(self, a):
        self.a = a


class If(N):
    def __init__(self, c, t, e):
        self.c, self.t, self.e = c, t, e


class Let(N):
    def __init__(self, pat, e, body):
        self.pat, self.e, self.body = pat, e, body


class MatchOpt(N):
    def __init__(self, e, x, body, none):
        self.e, self.x, self.body, self.none = e, x, body, none


class Tup(N):
    def __init__(self, items):
        self.items = list(items)


class FuelMatch(N):              # match fuel with | 0 => none | pred + 1 => body   (pat: | [] => none | pat :: pred => body)
    def __init__(self, fuel, pred, body, none, pat=None):
        self.fuel, self.pred, self.body, self.none, self.pat = fuel, pred, body, none, pat


class MatchCases(N):             # match e with | pat1 => b1 | pat2 => b2 ...   (pats: (text, bound names))
    def __init__(self, e, cases):
        self.e, self.cases = e, cases


class Lam(N):                    # fun x => body
    def __init__(self, x, body):
        self.x, self.body = x, body


class Rec(N):                    # recursive call of a loop function on its tail
    def __init__(self, loop):
        self.loop = loop


class Out(N):                    # value of a nested loop function at its exit: the carried variables
    def __init__(self, loop):
        self.loop = loop


class Call(N):                   # first call of a loop function
    def __init__(self, loop, lst):
        self.loop, self.lst = loop, lst


def pat_vars(p):
    if isinstance(p, str):
        return [p]
    out = []
    for x in p:
        out += pat_vars(x)
    return out


def pat_show(p):
    if isinstance(p, str):
        return p
    return "(" + ", ".join(pat_show(x) for x in p) + ")"


def fv(n, bound=frozenset(), acc=None):
    """Free variables in order of first occurrence."""
    if acc is None:
        acc = []

    def add(x):
        if x not in bound and x not in acc:
            acc.append(x)
    if isinstance(n, V):
        add(n.name)
    elif isinstance(n, (C, Lit)):
        pass
    elif isinstance(n, Tm):
        for a in n.args:
            fv(a, bound, acc)
        for x in n.fv:
            add(x)
    elif isinstance(n, Op):
        fv(n.a, bound, acc)
        fv(n.b, bound, acc)
    elif isinstance(n, Not):
        fv(n.a, bound, acc)
    elif isinstance(n, If):
        fv(n.c, bound, acc)
        fv(n.t, bound, acc)
        fv(n.e, bound, acc)
    elif isinstance(n, Let):
        fv(n.e, bound, acc)
        fv(n.body, bound | frozenset(pat_vars(n.pat)), acc)
    elif isinstance(n, MatchOpt):
        fv(n.e, bound, acc)
        fv(n.body, bound | frozenset(pat_vars(n.x)), acc)
        fv(n.none, bound, acc)
    elif isinstance(n, FuelMatch):
        fv(n.body, bound | {n.pred, n.fuel} | frozenset(pat_vars(n.pat or ())), acc)
        fv(n.none, bound, acc)
    elif isinstance(n, Lam):
        fv(n.body, bound | frozenset(pat_vars(n.x)), acc)
    elif isinstance(n, MatchCases):
        fv(n.e, bound, acc)
        for (ptxt, names), b in n.cases:
            fv(b, bound | frozenset(names), acc)
    elif isinstance(n, Tup):
        for a in n.items:
            fv(a, bound, acc)
    elif isinstance(n, (Rec, Out)):
        pass                      # its arguments are the carried variables themselves
    elif isinstance(n, Call):
        fv(n.lst, bound, acc)
        for x in n.loop.fixed + n.loop.carried:
            add(x)
    else:
        raise TypeError(n)
    return acc


def pe(n):
    """single-line form"""
    if isinstance(n, V):
        return n.name
    if isinstance(n, C):
        return n.text
    if isinstance(n, Lit):
        t = n.ty or "Int"
        return "(%d : %s)" % (n.value, t) if n.value >= 0 else "(-%d : %s)" % (-n.value, t)
    if isinstance(n, Tm):
        return n.text.format(*[pe(a) for a in n.args])
    if isinstance(n, Op):
        return "(%s %s %s)" % (pe(n.a), n.op, pe(n.b))
    if isinstance(n, Not):
        return "(¬ %s)" % pe(n.a)
    if isinstance(n, If):
        return "(if %s then %s else %s)" % (pe(n.c), pe(n.t), pe(n.e))
    if isinstance(n, Let):
        return "(let %s := %s; %s)" % (pat_show(n.pat), pe(n.e), pe(n.body))
    if isinstance(n, MatchOpt):
        return "(match %s with | some %s => %s | none => %s)" % (pe(n.e), pat_show(n.x), pe(n.body), pe(n.none))
    if isinstance(n, FuelMatch):
        if n.pat is not None:
            return "(match %s with | [] => %s | %s :: %s => %s)" % (n.fuel, pe(n.none), pat_show(n.pat), n.pred, pe(n.body))
        return "(match %s with | 0 => %s | %s + 1 => %s)" % (n.fuel, pe(n.none), n.pred, pe(n.body))
    if isinstance(n, Lam):
        return "(fun %s => %s)" % (pat_show(n.x), pe(n.body))
    if isinstance(n, MatchCases):
        return "(match %s with %s)" % (pe(n.e), " ".join("| %s => %s" % (p[0], pe(b)) for p, b in n.cases))
    if isinstance(n, Tup):
        return "(" + ", ".join(pe(a) for a in n.items) + ")"
    if isinstance(n, Rec):
        lp = n.loop
        return "(" + " ".join([lp.name] + lp.fixed + [lp.tl] + lp.carried) + ")"
    if isinstance(n, Call):
        lp = n.loop
        return "(" + " ".join([lp.name] + lp.fixed + [pe(n.lst)] + lp.carried) + ")"
    if isinstance(n, Out):
        lp = n.loop
        t = lp.carried[0] if len(lp.carried) == 1 else "(" + ", ".join(lp.carried) + ")"
        return "(some %s)" % t if lp.raises else t
    raise TypeError(n)


def pp(n, ind):
    """block form at indentation `ind` (list of lines)"""
    sp = "  " * ind
    if isinstance(n, If):
        out = [sp + "if %s then" % pe(n.c)] + pp(n.t, ind + 1)
        e = n.e
        while isinstance(e, If):
            out += [sp + "else if %s then" % pe(e.c)] + pp(e.t, ind + 1)
            e = e.e
        return out + [sp + "else"] + pp(e, ind + 1)
    if isinstance(n, Let):
        return [sp + "let %s := %s" % (pat_show(n.pat), pe(n.e))] + pp(n.body, ind)
    if isinstance(n, MatchOpt):
        out = [sp + "(match %s with" % pe(n.e), sp + "| some %s =>" % pat_show(n.x)] + pp(n.body, ind + 1)
        out += [sp + "| none => %s)" % pe(n.none)]
        return out
    if isinstance(n, MatchCases):
        out = [sp + "(match %s with" % pe(n.e)]
        for p, b in n.cases:
            out += [sp + "| %s =>" % p[0]] + pp(b, ind + 1)
        out[-1] += ")"
        return out
    if isinstance(n, FuelMatch):
        if n.pat is not None:
            out = [sp + "(match %s with" % n.fuel, sp + "| [] => %s" % pe(n.none),
                   sp + "| %s :: %s =>" % (pat_show(n.pat), n.pred)]
        else:
            out = [sp + "(match %s with" % n.fuel, sp + "| 0 => %s" % pe(n.none), sp + "| %s + 1 =>" % n.pred]
        out += pp(n.body, ind + 1)
        out[-1] += ")"
        return out
    return [sp + pe(n)]


# ----------------------------------------------------------------------------- compiler

class Loop:
    def __init__(self, name, tl):
        self.name, self.tl = name, tl
        self.fixed, self.carried = [], []


class Fn:
    """Compiles one Python function according to its spec entry."""

    def __init__(self, spec, fndef, consts):
        self.s = spec
        self.fn = fndef
        self.consts = consts                      # module-level constants visible to the function
        self.lean = spec["lean"]
        self.header = spec.get("header", "")
        self.params = spec["params"]              # [(lean name, type)]
        self.ret = spec["ret"]                    # type of the value of `return`
        self.raises = spec.get("raises", False)   # result is Option <result>
        self.result = spec.get("result")          # (template over {ret} and state names, type) | None
        self.bind = spec.get("bind", {})          # unparse text -> (lean text, type)
        self.vars = dict(spec.get("vars", {}))    # python names visible as Lean variables: name -> type
        self.state = spec.get("state", {})        # unparse text -> (lean var, type): mutable attributes
        self.types = spec.get("types", {})        # spec type -> accessor -> (template, type)
        self.calls = spec.get("calls", {})        # callee unparse -> handler(fn, call node, env) -> (pre, node, ty)
        self.eqs = spec.get("eq", {})             # spec type -> template "{0} … {1}" : Bool
        self.carrier = spec.get("carrier", [])    # opaque ordered types (only compared)
        self.none_ret = spec.get("none_ret")      # Lean text returned when the function falls off its end
        self.vartype = {}                         # literal-typing hints found by the previous pass
        self.lean_param_names = [p for p, _ in self.params]
        self.fields = spec.get("fields", {})      # unparse text of an attribute -> (record state var, field, type)
        self.reraise = None                       # value of a bare `raise` inside the handler being compiled
        self.tables = spec.get("tables", {})      # per-object feature tables: lean var -> value type (a list by position)
        self.fuel = list(spec.get("fuel", []))    # Lean text of the fuel of the k-th `while` loop (source order)
        self.table_keys = {}                      # "['key']" -> table, for the syntactic mutation analysis
        self.objects = spec.get("objects", {})    # spec record types whose values are mutable objects: type -> why members are distinct
        self.objvars = set()                      # loop variables of object loops (records that may be rebound field by field)
        self.objloops = 0                         # > 0 while the body of an object loop is compiled
        self.num = bool(spec.get("num"))          # float arithmetic over the `Num α` carrier (fourth round, see NUM_DOC)
        self.imports = {}                         # local name -> imported module / object (set by `generate`)
        self.inplace = any(                       # does the function mutate a list object in place anywhere?
            (isinstance(n, (ast.Assign, ast.AugAssign))
             and any(isinstance(t, ast.Subscript) and not (isinstance(t.slice, ast.Constant) and isinstance(t.slice.value, str))
                     for t in (n.targets if isinstance(n, ast.Assign) else [n.target])))
            or isinstance(n, ast.Delete)
            or (isinstance(n, ast.Call) and isinstance(n.func, ast.Attribute) and n.func.attr in self.MUTATORS)
            for n in ast.walk(fndef))
        for tb in self.types.values():
            for acc, ent in tb.items():
                tmpl = ent[0]
                if tmpl.startswith("@"):
                    self.table_keys[acc] = tmpl[1:]
        TYPE_ALIAS.clear()
        if self.num:
            TYPE_ALIAS.update({"Num": "α", "NatF": "Nat"})
        TYPE_ALIAS.update(spec.get("lean_types", {}))
        ws = sorted((n for n in ast.walk(fndef) if isinstance(n, ast.While)), key=lambda n: (n.lineno, n.col_offset))
        self.while_index = {id(n): k for k, n in enumerate(ws)}

    # -- driver -------------------------------------------------------------------------
    def compile(self):
        for _ in range(6):
            self.observed = {}
            self.unresolved = False
            self.defs = []
            self.nloops = 0
            self.nwhile = 0
            self.depth = 0
            self.ntmp = 0
            self.lits = []
            body = self.run()
            new = {}
            for x, ts in self.observed.items():
                conc = sorted(set(t for t in ts if t != "IntLit" and not has_unknown(t)), key=str)
                if len(conc) == 1:
                    new[x] = conc[0]
                elif len(conc) > 1:
                    if set(conc) == {"Int", "Nat"}:
                        new[x] = "Int"
                    elif self.num and "Num" in conc and set(conc) <= {"Num", "Nat", "NatF"}:
                        new[x] = "Num"            # an accumulator initialised with an integer / integral float
                    elif self.num and set(conc) == {"Nat", "NatF"}:
                        new[x] = "NatF"
                    elif self.num and ("List", "Num") in conc \
                            and set(conc) <= {("List", "Num"), ("List", "NatF"), ("List", "Nat")}:
                        new[x] = ("List", "Num")  # a list of floats whose first member was integer-valued
                    else:
                        bad(self.fn, "variable %s takes values of different types %s" % (x, conc))
            if new == self.vartype:
                if self.unresolved:
                    bad(self.fn, "element type of an empty list could not be determined")
                return body
            self.vartype = new
        bad(self.fn, "literal typing did not stabilise")

    def restype(self):
        t = self.result[1] if self.result else self.ret
        return ("Option", t) if self.raises else t

    def run(self):
        env = dict(self.vars)
        for k, (lv, ty) in self.state.items():
            env[lv] = ty
        for tb, ty in self.tables.items():
            env[tb] = ("List", ty)
        for gv, ty in self.s.get("ghost_state", {}).items():
            env[gv] = ty
        tests = {ast.unparse(n.test) for n in ast.walk(self.fn) if isinstance(n, ast.If)}
        for t in self.s.get("static", {}):
            if t not in tests:
                bad(self.fn, "the test `%s` that the spec entry specialises is not in the source" % t)
        stmts = self.fn.body

        def fall(env):
            if self.none_ret is None:
                bad(self.fn, "control can fall off the end of the function (implicit `return None`) and the spec gives no `none_ret`")
            return self.finish(Tm(self.none_ret, fv=self.mentions(self.none_ret)), env)
        body = self.block(stmts, env, fall, None)
        fixed = [p for p, _ in self.params]
        sig = " ".join("(%s : %s)" % (p, tshow(t)) for p, t in self.params)
        lines = ["def %s %s %s : %s :=" % (self.lean, self.header, sig, tshow(self.restype()))]
        lines += pp(body, 1)
        self.defs.append("\n".join(lines))
        return "\n\n".join(self.defs)

    def mentions(self, text):
        ids = set(re.findall(r"[A-Za-z_][A-Za-z_0-9']*", text))
        names = self.lean_param_names + [lv for lv, _ in self.state.values()] + list(self.tables)
        return list(dict.fromkeys(p for p in names if p in ids))

    def none(self, node):
        if not self.raises:
            bad(node, "operation may raise but the spec declares the function total (raises=False)")
        return C("none")

    def finish(self, val, env):
        """value of a `return`"""
        if self.result:
            tmpl = self.result[0]
            names = re.findall(r"\{([A-Za-z_][A-Za-z_0-9]*)\}", tmpl)
            args, text = [], tmpl
            for i, nm in enumerate(dict.fromkeys(names)):
                text = text.replace("{%s}" % nm, "{%d}" % i)
                args.append(val if nm == "ret" else V(nm))
            val = Tm(text, args)
        if self.raises:
            return Tm("(some {0})", [val])
        return val

    FACTS = "__facts"

    def learn(self, env, pre):
        """remember the guards that have been passed (valid until a variable they mention is assigned)"""
        g = [pe(p[1]) for p in pre if p[0] == "guard"]
        if not g:
            return env
        env2 = dict(env)
        env2[self.FACTS] = tuple(sorted(set(env.get(self.FACTS, ())) | set(g)))
        return env2

    def forget(self, env, xs):
        """drop the facts that mention a variable of `xs` (all facts when xs is None)"""
        if self.FACTS not in env:
            return env
        env2 = dict(env)
        keep = () if xs is None else tuple(
            f for f in env[self.FACTS] if not any(re.search(r"(?<![A-Za-z0-9_'])%s(?![A-Za-z0-9_'])" % re.escape(x), f)
                                                  for x in xs))
        if keep:
            env2[self.FACTS] = keep
        else:
            del env2[self.FACTS]
        return env2

    def if_convert(self, st, c, env):
        """`if c: x = e [; y = f]  [else: ...]` whose branches only assign variables that already
        exist and cannot raise  ->  (variables, `if c then (values) else (values)`)"""
        def straight(stmts):
            env2, lets, xs = dict(env), [], []
            for a in stmts:
                if isinstance(a, ast.Pass):
                    continue
                if isinstance(a, ast.Assign) and len(a.targets) == 1 and isinstance(a.targets[0], ast.Name):
                    tgt, val = a.targets[0], a.value
                elif isinstance(a, ast.AugAssign) and isinstance(a.target, ast.Name) \
                        and isinstance(a.op, (ast.Add, ast.Sub, ast.Mult)):
                    tgt = a.target
                    val = ast.BinOp(left=ast.Name(id=tgt.id, ctx=ast.Load()), op=a.op, right=a.value, lineno=a.lineno)
                elif self.s.get("if_convert_append") and isinstance(a, ast.Expr) and isinstance(a.value, ast.Call) \
                        and isinstance(a.value.func, ast.Attribute) and a.value.func.attr == "append" \
                        and isinstance(a.value.func.value, ast.Name) and len(a.value.args) == 1 \
                        and not a.value.keywords:
                    # xs.append(e) in a branch = `xs = xs ++ [e]` (spec option if_convert_append)
                    x = a.value.func.value.id
                    if x not in env2 or not (isinstance(env2[x], tuple) and env2[x][0] == "List") \
                            or has_unknown(env2[x]) or x in self.vars or x in self.lean_param_names:
                        return None
                    pre, v, ty = self.expr(a.value.args[0], env2, env2[x][1])
                    if pre:
                        return None
                    v = self.coerce(v, ty, env2[x][1], a)
                    lets.append((x, Tm("({0} ++ [{1}])", [V(x), v])))
                    if x not in xs:
                        xs.append(x)
                    continue
                else:
                    return None
                x = tgt.id
                if x not in env or ((x in self.vars or x in self.lean_param_names)
                                    and x not in self.s.get("mutable_params", [])):
                    return None
                if isinstance(env[x], tuple):
                    return None
                pre, v, ty = self.expr(val, env2, env[x])
                if pre:
                    return None
                if env[x] == "IntLit" and ty in NUMERIC:
                    # a variable that so far only received integer literals: retyped by the next typing pass
                    self.observed.setdefault(x, []).append(ty)
                    self.unresolved = True
                else:
                    v = self.coerce(v, ty, env[x], a)
                self.observed.setdefault(x, []).append(env[x])
                lets.append((x, v))
                if x not in xs:
                    xs.append(x)
            return lets, xs
        a, b = straight(st.body), straight(st.orelse)
        if a is None or b is None or not (a[1] or b[1]):
            return None
        xs = [x for x in env if x in a[1] or x in b[1]]            # order of the environment

        def val(lets):
            out = V(xs[0]) if len(xs) == 1 else Tup([V(x) for x in xs])
            if len(lets) == 1 and len(xs) == 1:
                return lets[0][1]
            for x, v in reversed(lets):
                out = Let(x, v, out)
            return out
        return xs, If(c, val(a[0]), val(b[0]))

    def wrap(self, pre, body, node, env=None):
        known = env.get(self.FACTS, ()) if env else ()
        if self.num:
            # a guard that occurs twice in one evaluation (`a / n ... b / n`) is tested once
            seen, pre2 = set(), []
            for p in pre:
                if p[0] == "guard":
                    if pe(p[1]) in seen:
                        continue
                    seen.add(pe(p[1]))
                elif p[0] in ("bind", "let"):
                    seen = set()                  # a binding may shadow a variable of the guard
                pre2.append(p)
            pre = pre2
        for p in reversed(pre):
            if p[0] == "guard" and pe(p[1]) in known:
                continue
            if p[0] == "guard":
                body = If(p[1], body, self.none(node))
            elif p[0] == "bind":
                body = MatchOpt(p[2], p[1], body, self.none(node))
            elif p[0] == "let":                   # a ghost / state update made by a call handler of the spec
                body = Let(p[1], p[2], body)
            else:
                raise ValueError(p)
        return body

    def tmp(self):
        self.ntmp += 1
        return "t%d" % self.ntmp

    def right_raises(self, test, env):
        """does an operand other than the first of a short-circuit test contain a raising operation?"""
        saved = self.ntmp
        try:
            return any(self.cond(v, env)[0] for v in test.values[1:])
        finally:
            self.ntmp = saved

    # -- statements ---------------------------------------------------------------------
    def block(self, stmts, env, k, ctx):
        """Lean term for `stmts` followed by continuation `k` (env -> term).
        ctx = None | (brk, cont): what `break` / `continue` mean here."""
        if not stmts:
            return k(env)
        st, rest = stmts[0], stmts[1:]
        cache = {}

        def after(env2):
            key = tuple(sorted((a, str(b)) for a, b in env2.items()))
            if key not in cache:
                cache[key] = self.block(rest, env2, k, ctx)
            return cache[key]

        if isinstance(st, ast.Expr) and isinstance(st.value, ast.Constant) and isinstance(st.value.value, str):
            return after(env)                                   # docstring
        if isinstance(st, ast.Pass):
            return after(env)
        if isinstance(st, ast.Return) and self.depth >= 2:
            bad(st, "return inside a nested loop")
        if isinstance(st, ast.Return) and self.objloops:
            bad(st, "return inside a loop that updates the members of a list of objects")
        if isinstance(st, ast.Return):
            if st.value is None:
                if self.s.get("return_none") is not None:
                    return self.finish(C(self.s["return_none"]), env)
                if self.ret != "Unit":
                    bad(st, "bare `return` in a function whose spec result is not Unit")
                return self.finish(C("()"), env)
            pre, v, ty = self.expr(st.value, env, self.ret)
            v = self.coerce(v, ty, self.ret, st)
            return self.wrap(pre, self.finish(v, env), st)
        if isinstance(st, ast.Raise):
            rmap = self.s.get("raise")
            if rmap is not None:
                # exceptions are values of the result (spec `raise`: source text of the raised expression -> Lean value)
                if st.exc is None:
                    if self.reraise is None:
                        bad(st, "bare raise outside a handler of the oracle")
                    return self.finish(self.reraise, env)
                key = ast.unparse(st.exc)
                if key not in rmap:
                    bad(st, "raise of something the spec entry does not name")
                return self.finish(Tm(rmap[key], fv=self.mentions(rmap[key])), env)
            return self.none(st)
        if isinstance(st, ast.Break):
            if ctx is None:
                bad(st, "break outside loop")
            return ctx[0](env)
        if isinstance(st, ast.Continue):
            if ctx is None:
                bad(st, "continue outside loop")
            return ctx[1](env)
        if isinstance(st, ast.Assign):
            if len(st.targets) != 1:
                bad(st, "chained assignment")
            if isinstance(st.targets[0], ast.Tuple):
                return self.assign_tuple(st.targets[0], st.value, st, env, after)
            return self.assign(st.targets[0], st.value, None, st, env, after)
        if isinstance(st, ast.AugAssign):
            if not isinstance(st.op, (ast.Add, ast.Sub, ast.Mult)) and not (self.num and isinstance(st.op, ast.Div)) \
                    and not (self.s.get("numpy_ints") and isinstance(st.op, ast.FloorDiv)):
                bad(st, "augmented assignment operator")
            return self.assign(st.target, st.value, st.op, st, env, after)
        if isinstance(st, ast.If) and ast.unparse(st.test) in self.s.get("static", {}):
            # the spec entry specialises the function to calls for which this test has a fixed value
            # (listed in the generated header): only that branch is compiled
            taken = st.body if self.s["static"][ast.unparse(st.test)] else st.orelse
            return self.block(list(taken) + rest, env, k, ctx)
        if isinstance(st, ast.If) and isinstance(st.test, ast.BoolOp) and ast.unparse(st.test) not in self.bind \
                and self.right_raises(st.test, env):
            # `if a and b: S else: T` with a raising operation in b  ==  `if a: (if b: S else: T) else: T`
            # (`if a or b: S else: T`  ==  `if a: S else: (if b: S else: T)`): exact in Python, b is only
            # evaluated where Python evaluates it
            vals = st.test.values
            tail = vals[1] if len(vals) == 2 else ast.copy_location(ast.BoolOp(op=st.test.op, values=vals[1:]), st.test)
            inner = ast.copy_location(ast.If(test=tail, body=st.body, orelse=st.orelse), st)
            if isinstance(st.test.op, ast.And):
                outer = ast.copy_location(ast.If(test=vals[0], body=[inner], orelse=st.orelse), st)
            else:
                outer = ast.copy_location(ast.If(test=vals[0], body=st.body, orelse=[inner]), st)
            return self.block([outer] + rest, env, k, ctx)
        if isinstance(st, ast.If):
            pre, c = self.cond(st.test, env)
            conv = self.if_convert(st, c, env)
            if conv is not None:
                xs, val = conv
                env2 = self.forget(env, xs)
                pat = xs[0] if len(xs) == 1 else tuple(xs)
                return self.wrap(pre, Let(pat, val, after(env2)), st, env)
            env1 = self.learn(env, pre)

            def merge(e2):                      # facts do not survive a merge point
                return after(self.forget(e2, None))
            t = self.block(st.body, env1, merge, ctx)
            e = self.block(st.orelse, env1, merge, ctx)
            return self.wrap(pre, If(c, t, e), st, env)
        if isinstance(st, ast.For):
            if st.orelse:
                bad(st, "for/else")
            return self.loop(st, env, after)
        if isinstance(st, ast.While):
            if st.orelse:
                bad(st, "while/else")
            return self.loop(st, env, after)
        if isinstance(st, ast.Try):
            return self.try_oracle(st, env, after, ctx)
        if isinstance(st, ast.Expr) and isinstance(st.value, ast.Call):
            return self.effect(st, env, after)
        if isinstance(st, ast.Delete):
            return self.delete(st, env, after)
        bad(st, "statement")

    def target_var(self, tgt, env):
        """Lean variable assigned by target `tgt` (a local or a state attribute)."""
        key = ast.unparse(tgt)
        if key in self.state:
            return self.state[key][0]
        if isinstance(tgt, ast.Name):
            if tgt.id in self.s.get("mutable_params", []):
                return tgt.id                          # a parameter used as a local (rebinding is `let` shadowing)
            if tgt.id in self.vars or tgt.id in self.lean_param_names or tgt.id in self.s["py_params"]:
                bad(tgt, "assignment to a parameter")
            return tgt.id
        bad(tgt, "assignment target")

    def try_oracle(self, st, env, after, ctx):
        """`try: x = <oracle call>; S  except (A, B) as e: H1  except: H2` - ONLY this form: the first statement
        of the body is the single raising operation, the call of the oracle named in the spec entry; its outcome
        class (a constructor of the spec's outcome type) selects the continuation: the rest of the body, or the
        handler whose exception classes the spec maps to that constructor.  The rest of the body must not raise
        (the function is compiled with raises=False, so any raising operation in it is rejected)."""
        dropped = self.s.get("try_dropped")
        if dropped and not st.orelse and not st.finalbody and st.handlers \
                and all(h.type is not None and ast.unparse(h.type) in dropped for h in st.handlers):
            # handlers for exception classes that the spec entry declares impossible in the modelled world (listed in
            # the generated header): `try: S except E: H` is S - every other exception propagates exactly as without
            # the try statement
            self.dropped_seen = getattr(self, "dropped_seen", set()) | {ast.unparse(h.type) for h in st.handlers}
            return self.block(list(st.body), env, after, ctx)
        t = self.s.get("try")
        if t is None or st.orelse or st.finalbody:
            bad(st, "try statement (only the oracle form of the spec entry is supported, without else/finally)")
        if self.raises:
            bad(st, "try in a function compiled with implicit exceptions (raises=True)")
        first = st.body[0] if st.body else None
        if not (isinstance(first, ast.Assign) and len(first.targets) == 1 and isinstance(first.targets[0], ast.Name)
                and ast.unparse(first.value) == t["call"]):
            bad(st, "the body of try does not start with `x = %s`" % t["call"])
        for s0 in st.body[1:]:
            for n in ast.walk(s0):
                if isinstance(n, (ast.Raise, ast.Try)):
                    bad(n, "raise / try inside the body of the oracle try")
        x = self.target_var(first.targets[0], env)
        # ghost bookkeeping of the call (spec): executed before the outcome is inspected
        outcome = Tm(t["outcome"], fv=self.mentions(t["outcome"]))
        cases = []
        seen = set()

        def with_ghost(e, k):
            body = k(e)
            for var, text in reversed(t.get("ghost", [])):
                body = Let(var, Tm(text.replace("{", "{{").replace("}", "}}"), fv=self.mentions(text)), body)
            return body
        # success
        tv = self.tmp()
        env_ok = dict(self.forget(env, [x]))
        env_ok[x] = t["ok"][1]
        self.observed.setdefault(x, []).append(t["ok"][1])
        ok_body = with_ghost(env_ok, lambda e: Let(x, V(tv), self.block(st.body[1:], e, after, ctx)))
        cases.append(((t["ok"][0].format(tv), [tv]), ok_body))
        for h in st.handlers:
            key = ast.unparse(h.type) if h.type is not None else ""
            if key not in t["handlers"] or key in seen:
                bad(h, "exception handler that the spec entry does not map to an outcome class")
            seen.add(key)
            ptxt, names, rer = t["handlers"][key]
            saved = self.reraise
            self.reraise = Tm(rer, fv=self.mentions(rer)) if rer else None
            try:
                hb = with_ghost(env, lambda e: self.block(h.body, e, after, ctx))
            finally:
                self.reraise = saved
            cases.append(((ptxt, list(names)), hb))
        if seen != set(t["handlers"]):
            bad(st, "a handler named in the spec entry is missing")
        return MatchCases(outcome, cases)

    def table_ref(self, n, env):
        """`obj.features['key']` that the spec maps to a per-object table -> (pre, table, key term, value type)"""
        if not (isinstance(n, ast.Subscript) and isinstance(n.slice, ast.Constant) and isinstance(n.slice.value, str)):
            return None
        acc = "[%r]" % n.slice.value
        if acc not in self.table_keys:
            return None
        pre, b, tb = self.expr(n.value, env)
        table = self.types.get(tb) if isinstance(tb, str) else None
        if table is None or acc not in table or not table[acc][0].startswith("@"):
            return None
        return pre, table[acc][0][1:], b, table[acc][1]

    def elem_ref(self, n, env):
        """`xs[i]` on a mutable list variable -> (pre, xs, get term : Option, put, element type);
        put(v) -> (term, is Option): the list with member i replaced (`none` = IndexError)"""
        if not (isinstance(n, ast.Subscript) and not isinstance(n.slice, ast.Slice)):
            return None
        key = ast.unparse(n.value)
        if key in self.state:
            x = self.state[key][0]
        elif isinstance(n.value, ast.Name):
            x = n.value.id
        else:
            return None
        if x not in env or not (isinstance(env[x], tuple) and env[x][0] == "List"):
            return None
        if x in self.lean_param_names and x not in self.assigned:
            return None
        pre, i, ti = self.expr(n.slice, env, "Nat" if not isinstance(n.slice, ast.UnaryOp) else "Int")
        if ti == "Nat":
            return (pre, x, Tm("{0}[{1}]?", [V(x), i]),
                    lambda v: (Tm("(List.set {0} {1} {2})", [V(x), i, v]), False), env[x][1])
        if ti == "IntLit":
            self.setlit(i, "Int", n)
            ti = "Int"
        if ti != "Int":
            bad(n, "list index of type %s" % tshow(ti))
        self.need("pyGet")
        self.need("pySet")
        return (pre, x, Tm("(pyGet {0} {1})", [V(x), i]),
                lambda v: (Tm("(pySet {0} {1} {2})", [V(x), i, v]), True), env[x][1])

    def field_ref(self, n, env):
        """`xs[i].a['k']`: a field of a member of a mutable list, through accessors of the spec that have a
        setter template -> (elem_ref, getter template, setter template, field type)"""
        path = []
        m = n
        while isinstance(m, (ast.Attribute, ast.Subscript)):
            if isinstance(m, ast.Attribute):
                path.append("." + m.attr)
                m = m.value
            elif isinstance(m.slice, ast.Constant) and isinstance(m.slice.value, str):
                path.append("[%r]" % m.slice.value)
                m = m.value
            else:
                break
        if not path:
            return None
        if isinstance(m, ast.Name) and m.id in self.objvars and env.get(m.id) in self.objects:
            # the loop variable of an object loop: a record value that is rebound (get = None: no look-up needed)
            x = m.id
            ref = ([], x, None, lambda v: (v, False), env[x])
        elif isinstance(m, ast.Subscript):
            ref = self.elem_ref(m, env)
        else:
            return None
        if ref is None:
            return None
        ty = ref[4]
        path.reverse()
        for k, acc in enumerate(path):
            table = self.types.get(ty) if isinstance(ty, str) else None
            if table is None or acc not in table:
                return None
            ent = table[acc]
            if k < len(path) - 1:
                if ent[0] != "{0}":
                    return None
                ty = ent[1]
            else:
                if len(ent) < 3:
                    bad(n, "assignment to %s, for which the spec has no setter" % acc)
                return ref, ent[0], ent[2], ent[1]
        return None

    def assign_field(self, fr, tgt, value, op, st, env, after, index=None):
        """`xs[i].field = e` / `+= e`: the member is a record value, the list is rebound with the member replaced
        (valid because the members of the list are distinct objects - stated in the spec entry).  The root may also
        be the loop variable of an object loop (then the variable itself is rebound).  With `index`:
        `<object>.field[j] = e` / `op= e` on a field that is a list (natural-number index; IndexError = none)."""
        (pre, x, get, put, ety), getter, setter, fty = fr
        if get is None:
            obj = V(x)
            pre = list(pre)
        else:
            t = self.tmp()
            obj = V(t)
            pre = pre + [("bind", t, get)]
        if index is None:
            p2, v, ty = self.expr(value, env, fty)
            if isinstance(fty, tuple) and fty[0] == "List" and self.inplace and not isinstance(value, (ast.List, ast.Call)):
                bad(st, "a list stored into an attribute in a function that mutates lists in place (the two names "
                        "would share one list object)")
            if op is not None:
                cur = Tm(getter, [obj])
                v, ty = self.arith(op, cur, fty, v, ty, st)
            v = self.coerce(v, ty, fty, st)
            new = Tm(setter, [obj, v])
            pre = pre + p2
        else:
            if not (isinstance(fty, tuple) and fty[0] == "List"):
                bad(st, "indexed assignment to an attribute that is not a list")
            elty = fty[1]
            cur = Tm(getter, [obj])
            pi, i, ti = self.expr(index, env, "Nat")
            if ti == "IntLit":
                self.setlit(i, "Nat", st)
                ti = "Nat"
            if ti != "Nat":
                bad(st, "index of type %s in an indexed assignment to an attribute (only natural numbers)" % tshow(ti))
            if op is None:
                # Python: value first, then the container and the index, then the store (IndexError)
                p2, v, ty = self.expr(value, env, elty)
                v = self.coerce(v, ty, elty, st)
                pre = pre + p2 + pi + [("guard", Op("<", i, Tm("(List.length {0})", [cur])))]
            else:
                # Python: container, index, load of the element (IndexError), value, operation, store
                t0 = self.tmp()
                p2, v, ty = self.expr(value, env, elty)
                pre = pre + pi + [("bind", t0, Tm("{0}[{1}]?", [cur, i]))] + p2
                v, ty = self.arith(op, V(t0), elty, v, ty, st)
                v = self.coerce(v, ty, elty, st)
            new = Tm(setter, [obj, Tm("(List.set {0} {1} {2})", [cur, i, v])])
        term, opt = put(new)
        env2 = self.forget(self.learn(env, pre), [x])
        if opt:
            t2 = self.tmp()
            body = MatchOpt(term, t2, Let(x, V(t2), after(env2)), self.none(st))
        else:
            body = Let(x, term, after(env2))
        return self.wrap(pre, body, st, env)

    def arith(self, op, a, ta, b, tb, node):
        """a <op> b for an augmented assignment on a field (spec `binops` first)"""
        o = {ast.Add: "+", ast.Sub: "-", ast.Mult: "*"}[type(op)]
        key = (tshow(ta), o, tshow(tb))
        if key in self.s.get("binops", {}):
            tmpl, ty = self.s["binops"][key]
            return Tm(tmpl, [a, b]), ty
        a, b, ty = self.unify(a, ta, b, tb, node)
        if ty not in NUMERIC or (o == "-" and ty == "Nat"):
            bad(node, "augmented assignment on a field of type %s" % tshow(ty))
        return Op(o, a, b), ty

    def assign_table(self, ref, value, op, st, env, after):
        """`obj.features['key'] = e` / `+= e` on a table: functional update of the list at the object's position;
        a position without an entry is `none` (never a default)"""
        pre, tab, key, vty = ref
        if op is None:
            p2, v, ty = self.expr(value, env, vty)
            v = self.coerce(v, ty, vty, st)
            pre = pre + p2 + [("guard", Op("<", key, Tm("(List.length {0})", [V(tab)])))]
        else:
            if vty not in NUMERIC:
                bad(st, "augmented assignment on a table of %s" % tshow(vty))
            t = self.tmp()
            p2, v, ty = self.expr(value, env, vty)
            v = self.coerce(v, ty, vty, st)
            o = {ast.Add: "+", ast.Sub: "-", ast.Mult: "*"}[type(op)]
            if o == "-" and vty == "Nat":
                bad(st, "subtraction on a table of natural numbers")
            pre = pre + [("bind", t, Tm("{0}[{1}]?", [V(tab), key]))] + p2
            v = Op(o, V(t), v)
        env2 = self.forget(self.learn(env, pre), [tab])
        return self.wrap(pre, Let(tab, Tm("(List.set {0} {1} {2})", [V(tab), key, v]), after(env2)), st, env)

    def assign_tuple(self, tgt, value, st, env, after):
        """`a, b = e1, e2` (all right-hand sides are evaluated first) and `q, r = divmod(a, b)` on naturals"""
        xs = []
        for t in tgt.elts:
            if not isinstance(t, ast.Name):
                bad(st, "tuple assignment to something other than plain variables")
            xs.append(self.target_var(t, env))
        if len(set(xs)) != len(xs):
            bad(st, "tuple assignment with a repeated target")
        pre, vals, tys = [], [], []
        if isinstance(value, ast.Tuple) and len(value.elts) == len(xs):
            for x, e in zip(xs, value.elts):
                p, v, ty = self.typed_value(x, e, None, None, st, env)
                pre += p
                vals.append(v)
                tys.append(ty)
        elif isinstance(value, ast.Call) and ast.unparse(value.func) == "divmod" and len(value.args) == 2 \
                and not value.keywords and len(xs) == 2:
            p1, a, ta = self.expr(value.args[0], env, "Nat")
            p2, b, tb = self.expr(value.args[1], env, "Nat")
            a, b, ty = self.unify(a, ta, b, tb, st)
            if ty == "IntLit":
                self.setlit(a, "Nat", st)
                self.setlit(b, "Nat", st)
                ty = "Nat"
            if ty != "Nat":
                bad(st, "divmod on values that are not natural numbers")
            pre = p1 + p2 + [("guard", Op("≠", b, C("0")))]              # ZeroDivisionError
            vals, tys = [Op("/", a, b), Op("%", a, b)], ["Nat", "Nat"]
            for x in xs:
                self.observed.setdefault(x, []).append("Nat")
        else:
            bad(st, "tuple assignment from something other than a tuple of the same length or divmod")
        env2 = dict(self.forget(self.learn(env, pre), xs))
        for x, ty in zip(xs, tys):
            if x in env and env[x] != ty and env[x] != "IntLit":
                bad(st, "variable changes type from %s to %s" % (tshow(env[x]), tshow(ty)))
            env2[x] = ty
        return self.wrap(pre, Let(tuple(xs), Tup(vals), after(env2)), st, env)

    def typed_value(self, x, value, tgt, op, st, env):
        """value assigned to variable `x` (typing hints of the previous passes applied) -> (pre, term, type)"""
        hint = env.get(x) or self.vartype.get(x)
        if op is None:
            if isinstance(value, ast.Name) and isinstance(env.get(value.id), tuple) and env[value.id][0] == "List" \
                    and self.mutated:
                bad(st, "alias of a list in a function that mutates lists in place")
            pre, v, ty = self.expr(value, env, hint)
        else:
            pre, v, ty = self.expr(ast.BinOp(left=tgt, op=op, right=value, lineno=st.lineno), env, hint)
        if isinstance(hint, tuple) and hint[0] == "Option" and not (isinstance(ty, tuple) and ty[0] == "Option") \
                and ty != "?":
            # a variable that holds None or a value
            if has_unknown(hint):
                self.unresolved = True
                v, ty = Tm("(some {0})", [v]), ("Option", ty)
            else:
                v, ty = self.coerce(v, ty, hint, st), hint
        self.observed.setdefault(x, []).append(ty)
        if has_unknown(ty) and self.vartype.get(x) and op is None:
            pre, v, ty = self.expr(value, env, self.vartype[x])     # e.g. `[]` / `[[]]` at the type found by the last pass
        elif ty == "IntLit" and self.vartype.get(x):
            v, ty = self.coerce(v, ty, self.vartype[x], st), self.vartype[x]
        elif self.vartype.get(x) and ty != self.vartype[x]:
            v, ty = self.coerce(v, ty, self.vartype[x], st), self.vartype[x]
        return pre, v, ty

    def dict_var(self, n, env):
        """`d[k]` on a local variable that holds a dict of the translator -> (d, (K, V)) | None"""
        if isinstance(n, ast.Subscript) and isinstance(n.value, ast.Name) and not isinstance(n.slice, ast.Slice):
            d = n.value.id
            if isinstance(env.get(d), tuple) and env[d][0] == "Dict":
                if d in self.lean_param_names or d in self.vars:
                    bad(n, "item assignment on a dict that is a parameter")
                return d, env[d][1]
        return None

    def assign(self, tgt, value, op, st, env, after):
        if isinstance(tgt, ast.Subscript) and isinstance(tgt.slice, ast.Tuple) and self.s.get("subscript_assign"):
            # `H[:, i] = e` and the like: only through the handler of the spec entry (numpy semantics are stated there)
            r = self.s["subscript_assign"](self, tgt, value, op, st, env, after)
            if r is not None:
                return r
        dv = self.dict_var(tgt, env)
        if dv is not None:
            # d[k] = v on an insertion-ordered dict (`pyDictSet`); Python evaluates v, then d, then k
            d, (kt, vt) = dv
            if op is not None:
                bad(st, "augmented assignment to a dict item")
            if has_unknown(env[d]):
                pk, k, tk = self.expr(tgt.slice, env)
                pv, v, tv = self.expr(value, env)
                self.observed.setdefault(d, []).append(("Dict", (tk, tv)))
                self.unresolved = True
                return after(env)
            if isinstance(vt, tuple) and vt[0] == "List" and not isinstance(value, ast.List):
                bad(st, "a list stored into a dict item other than a fresh list display (the item and the other name "
                        "would share one list object)")
            pv, v, tv = self.expr(value, env, vt)
            v = self.coerce(v, tv, vt, st)
            pk, k, tk = self.expr(tgt.slice, env, kt)
            k = self.coerce(k, tk, kt, st)
            pre = pv + pk
            env2 = self.forget(self.learn(env, pre), [d])
            return self.wrap(pre, Let(d, Tm("(pyDictSet {0} {1} {2})", [V(d), k, v]), after(env2)), st, env)
        ref = self.table_ref(tgt, env)
        if ref is not None:
            return self.assign_table(ref, value, op, st, env, after)
        fr = self.field_ref(tgt, env)
        if fr is not None:
            return self.assign_field(fr, tgt, value, op, st, env, after)
        if isinstance(tgt, ast.Subscript) and not isinstance(tgt.slice, ast.Slice) \
                and not (isinstance(tgt.slice, ast.Constant) and isinstance(tgt.slice.value, str)):
            fr = self.field_ref(tgt.value, env)
            if fr is not None:
                return self.assign_field(fr, tgt, value, op, st, env, after, index=tgt.slice)
        if isinstance(tgt, ast.Subscript) and isinstance(tgt.value, ast.Name) and not isinstance(tgt.slice, ast.Slice) \
                and tgt.value.id in env and tgt.value.id not in self.lean_param_names and tgt.value.id not in self.vars:
            er = self.elem_ref(tgt, env)
            if er is not None:
                # xs[i] = e / xs[i] op= e on a local list (rebinding xs; IndexError = none).  Python evaluates
                # `xs[i] op= e` as: load xs[i], evaluate e, operate, store; `xs[i] = e` as: e, then the store
                pre, x, get, put, ety = er
                if has_unknown(ety):
                    bad(st, "element assignment on a list whose element type is not known yet")
                p2, v, ty = self.expr(value, env, ety)
                if op is not None:
                    t0 = self.tmp()
                    pre = pre + [("bind", t0, get)] + p2
                    v, ty = self.arith(op, V(t0), ety, v, ty, st)
                    v = self.coerce(v, ty, ety, st)
                    term, opt = put(v)
                else:
                    v = self.coerce(v, ty, ety, st)
                    t0 = self.tmp()
                    pre = p2 + pre + [("bind", t0, get)]         # the look-up succeeding = the index is in range
                    term, opt = put(v)
                env2 = self.forget(self.learn(env, pre), [x])
                if opt:
                    t2 = self.tmp()
                    body = MatchOpt(term, t2, Let(x, V(t2), after(env2)), self.none(st))
                else:
                    body = Let(x, term, after(env2))
                return self.wrap(pre, body, st, env)
        if ast.unparse(tgt) in self.fields:
            # attribute of the object that the spec represents as a record state variable
            if op is not None:
                # `obj.attr op= e`  =  `obj.attr = obj.attr op e` (the attribute is read first)
                value = ast.copy_location(ast.BinOp(left=tgt, op=op, right=value), st)
            rv, fld, fty = self.fields[ast.unparse(tgt)]
            pre, v, ty = self.expr(value, env, fty)
            v = self.coerce(v, ty, fty, st)
            env2 = self.forget(self.learn(env, pre), [rv])
            return self.wrap(pre, Let(rv, Tm("{{ {0} with %s := {1} }}" % fld, [V(rv), v]), after(env2)), st, env)
        x = self.target_var(tgt, env)
        pre, v, ty = self.typed_value(x, value, tgt, op, st, env)
        if x in env and env[x] != ty and isinstance(env[x], tuple) and isinstance(ty, tuple) and env[x][0] == ty[0] \
                and (has_unknown(env[x]) or has_unknown(ty)):
            self.unresolved = True                # e.g. `xs = []` ... `xs = [e]`: the next typing pass knows the type
        elif self.num and x in env and env[x] in ("Nat", "NatF") and ty in ("Num", "NatF", "Nat"):
            self.unresolved = True                # an integer-valued accumulator that receives a float: retyped by the next pass
        elif x in env and env[x] != ty and env[x] != "IntLit":
            bad(st, "variable changes type from %s to %s" % (tshow(env[x]), tshow(ty)))
        env2 = dict(self.forget(self.learn(env, pre), [x]))
        env2[x] = ty
        if self.num and ty == "Num" and not fv(v):
            v = Tm("({0} : %s)" % tshow("Num"), [v])      # a closed float term: its carrier cannot be inferred from a variable
        return self.wrap(pre, Let(x, v, after(env2)), st, env)

    def effect(self, st, env, after):
        """expression statements: in-place list mutation of a state variable or a local list"""
        call = st.value
        f = call.func
        if isinstance(f, ast.Attribute) and f.attr == "append" and len(call.args) == 1 and not call.keywords:
            ref = self.table_ref(f.value, env)
            if ref is not None:
                # obj.features['key'].append(e): the table entry of the object is a list
                pre, tab, key, vty = ref
                if not (isinstance(vty, tuple) and vty[0] == "List"):
                    bad(st, "append on a table entry that is not a list")
                p2, v, ty = self.expr(call.args[0], env, vty[1])
                v = self.coerce(v, ty, vty[1], st)
                t = self.tmp()
                pre = pre + [("bind", t, Tm("{0}[{1}]?", [V(tab), key]))] + p2
                return self.wrap(pre, Let(tab, Tm("(List.set {0} {1} ({2} ++ [{3}]))", [V(tab), key, V(t), v]),
                                          after(self.forget(env, [tab]))), st, env)
            if ast.unparse(f.value) in self.fields:
                # obj.attr.append(e) on an attribute of the object that the spec represents as a record
                rv, fld, fty = self.fields[ast.unparse(f.value)]
                if not (isinstance(fty, tuple) and fty[0] == "List"):
                    bad(st, "append on a record field that is not a list")
                pre, v, ty = self.expr(call.args[0], env, fty[1])
                v = self.coerce(v, ty, fty[1], st)
                env2 = self.forget(self.learn(env, pre), [rv])
                return self.wrap(pre, Let(rv, Tm("{{ {0} with %s := {0}.%s ++ [{1}] }}" % (fld, fld), [V(rv), v]),
                                          after(env2)), st, env)
            dv = self.dict_var(f.value, env)
            if dv is not None:
                # d[k].append(e): the item's value is a list (KeyError when there is no such item); valid as a rebinding
                # of the item because list values enter a dict only as fresh displays (no other name for the list)
                d, (kt, vt) = dv
                if has_unknown(env[d]):
                    pk, k, tk = self.expr(f.value.slice, env)
                    p2, v, ty = self.expr(call.args[0], env)
                    self.observed.setdefault(d, []).append(("Dict", (tk, ("List", ty))))
                    self.unresolved = True
                    return after(env)
                if not (isinstance(vt, tuple) and vt[0] == "List"):
                    bad(st, "append on a dict item that is not a list")
                pk, k, tk = self.expr(f.value.slice, env, kt)
                k = self.coerce(k, tk, kt, st)
                p2, v, ty = self.expr(call.args[0], env, vt[1])
                v = self.coerce(v, ty, vt[1], st)
                t = self.tmp()
                pre = pk + [("bind", t, Tm("(pyDictGet {0} {1})", [V(d), k]))] + p2
                return self.wrap(pre, Let(d, Tm("(pyDictSet {0} {1} ({2} ++ [{3}]))", [V(d), k, V(t), v]),
                                          after(self.forget(env, [d]))), st, env)
            ref = self.elem_ref(f.value, env)
            if ref is not None:
                # xs[i].append(e) on a local list of lists
                pre, x, get, setter, ety = ref
                if has_unknown(ety):
                    p2, v, ty = self.expr(call.args[0], env)
                    self.observed.setdefault(x, []).append(("List", ("List", ty)))
                    self.unresolved = True
                else:
                    if not (isinstance(ety, tuple) and ety[0] == "List"):
                        bad(st, "append on a list element that is not a list")
                    p2, v, ty = self.expr(call.args[0], env, ety[1])
                    v = self.coerce(v, ty, ety[1], st)
                t = self.tmp()
                pre = pre + [("bind", t, get)] + p2
                term, opt = setter(Tm("({0} ++ [{1}])", [V(t), v]))
                if opt:
                    t2 = self.tmp()
                    body = MatchOpt(term, t2, Let(x, V(t2), after(self.forget(env, [x]))), self.none(st))
                else:
                    body = Let(x, term, after(self.forget(env, [x])))
                return self.wrap(pre, body, st, env)
            x = self.target_var(f.value, env)
            if x not in env or not (isinstance(env[x], tuple) and env[x][0] == "List"):
                bad(st, "append on something that is not a list variable")
            if has_unknown(env[x][1]):
                pre, v, ty = self.expr(call.args[0], env)
                self.observed.setdefault(x, []).append(("List", ty))
                self.unresolved = True
            else:
                pre, v, ty = self.expr(call.args[0], env, env[x][1])
                v = self.coerce(v, ty, env[x][1], st)
            return self.wrap(pre, Let(x, Tm("({0} ++ [{1}])", [V(x), v]), after(self.forget(env, [x]))), st, env)
        if isinstance(f, ast.Attribute) and f.attr == "remove" and len(call.args) == 1 and not call.keywords:
            # xs.remove(v): delete the first member m with `m == v`; ValueError when there is none
            x = self.target_var(f.value, env)
            if x not in env or not (isinstance(env[x], tuple) and env[x][0] == "List"):
                bad(st, "remove on something that is not a list variable")
            et = env[x][1]
            pre, v, ty = self.expr(call.args[0], env, et)
            v = self.coerce(v, ty, et, st)
            if et in self.eqs:
                test = self.eqs[et].format("m", "{0}")
                pred = Tm("(fun m => " + test.replace("{", "{{").replace("}", "}}").replace("{{0}}", "{0}") + ")", [v],
                          fv=self.mentions(self.eqs[et]))
            elif et in NUMERIC:
                pred = Tm("(fun m => decide (m = {0}))", [v])
            else:
                bad(st, "remove on a list whose element type %s has no equality in the spec" % tshow(et))
            t = self.tmp()
            body = MatchOpt(Tm("(List.findIdx? {0} {1})", [pred, V(x)]), t,
                            Let(x, Tm("(List.eraseIdx {0} {1})", [V(x), V(t)]), after(self.forget(env, [x]))),
                            self.none(st))
            return self.wrap(pre, body, st, env)
        if isinstance(f, ast.Attribute) and f.attr == "sort" and not call.args and len(call.keywords) == 1 \
                and call.keywords[0].arg == "key" and isinstance(call.keywords[0].value, ast.Lambda) \
                and self.s.get("sort"):
            # xs.sort(key=lambda x: e): all keys are evaluated first (an exception in any of them aborts the
            # call), then the members are reordered by a stable sort on `key a <= key b` (CPython's list.sort is
            # stable); `pyKeys` / `pySort` of the generated prelude, the order is that of the spec's `sort` type
            lam = call.keywords[0].value
            x = self.target_var(f.value, env)
            if x not in env or not (isinstance(env[x], tuple) and env[x][0] == "List"):
                bad(st, "sort on something that is not a list variable")
            keyfn, sorter = self.sort_key(lam, env[x][1], env, st)
            t = self.tmp()
            body = MatchOpt(Tm("(pyKeys {0} {1})", [keyfn, V(x)]), t,
                            Let(x, Tm("(%s {0})" % sorter, [V(t)]), after(self.forget(env, [x]))), self.none(st))
            return body
        if isinstance(f, ast.Attribute) and f.attr == "reverse" and not call.args and not call.keywords:
            # xs.reverse() as a statement
            x = self.target_var(f.value, env)
            if x not in env or not (isinstance(env[x], tuple) and env[x][0] == "List"):
                bad(st, "reverse on something that is not a list variable")
            return Let(x, Tm("(List.reverse {0})", [V(x)]), after(self.forget(env, [x])))
        if isinstance(f, ast.Attribute) and f.attr == "pop" and not call.args and not call.keywords:
            # xs.pop() as a statement: drop the last member; IndexError on an empty list
            x = self.target_var(f.value, env)
            if x not in env or not (isinstance(env[x], tuple) and env[x][0] == "List"):
                bad(st, "pop on something that is not a list variable")
            pre = [("guard", Op("≠", V(x), C("[]")))]
            return self.wrap(pre, Let(x, Tm("(List.dropLast {0})", [V(x)]), after(self.forget(env, [x]))), st, env)
        key = ast.unparse(f)
        if key in self.calls and self.calls[key].get("stmt"):
            return self.calls[key]["stmt"](self, st, env, after)
        bad(st, "call used as a statement")

    def sort_key(self, lam, ety, env, node, sorting=True):
        """`key=lambda x: e` of `xs.sort` / `sorted(xs)` on members of type `ety` -> (key function : α → Option κ,
        name of the stable ascending sort on the keyed members for the spec's `sort` type)"""
        if len(lam.args.args) != 1 or lam.args.defaults or lam.args.vararg or lam.args.kwarg:
            bad(node, "sort key that is not a one-parameter lambda")
        lv = lam.args.args[0].arg
        if lv in env or lv in self.lean_param_names:
            bad(node, "lambda parameter shadows a variable in scope")
        env2 = dict(env)
        env2[lv] = ety
        pk, kv, kty = self.expr(lam.body, env2)
        if kty != self.s["sort"]:
            bad(node, "sort key of type %s (the spec entry sorts by %s)" % (tshow(kty), tshow(self.s["sort"])))
        sorter = {"Rat": "pySort", "Int": "pySortInt"}.get(kty)
        if sorter is None:
            bad(node, "no sort primitive for keys of type %s" % tshow(kty))
        if len(pk) == 1 and pk[0][0] == "bind" and isinstance(kv, V) and kv.name == pk[0][1]:
            keyfn = Lam(lv, pk[0][2])
        else:
            keyfn = Lam(lv, self.wrap(pk, Tm("(some {0})", [kv]), node))
        if sorting:
            self.need("pyKeys")
            self.need(sorter)
        return keyfn, sorter

    def delete(self, st, env, after):
        if len(st.targets) != 1 or not isinstance(st.targets[0], ast.Subscript):
            bad(st, "del")
        sub = st.targets[0]
        x = self.target_var(sub.value, env)
        if x not in env or not (isinstance(env[x], tuple) and env[x][0] == "List"):
            bad(st, "del on something that is not a list variable")
        pre, i, ty = self.expr(sub.slice, env, "Int")
        self.need("pyDel")
        if ty == "?":                                  # resolved by the next typing pass
            self.unresolved, ty = True, "Nat"
        if ty in ("Nat", "IntLit"):
            i = self.coerce(i, ty, "Int", st)
        elif ty != "Int":
            bad(st, "del index type")
        t = self.tmp()
        body = MatchOpt(Tm("(pyDel {0} {1})", [V(x), i]), t, Let(x, V(t), after(self.forget(env, [x]))), self.none(st))
        return self.wrap(pre, body, st, env)

    MUTATORS = ("append", "remove", "extend", "insert", "pop", "sort", "reverse", "clear")

    def lvalue_var(self, t):
        """Lean variable that an assignment to / in-place mutation of `t` rebinds (syntactic), or None"""
        key = ast.unparse(t)
        if key in self.state:
            return self.state[key][0]
        if key in self.fields:
            return self.fields[key][0]
        if isinstance(t, ast.Name):
            return t.id
        if isinstance(t, ast.Subscript):
            if isinstance(t.slice, ast.Constant) and isinstance(t.slice.value, str) \
                    and "[%r]" % t.slice.value in self.table_keys:
                return self.table_keys["[%r]" % t.slice.value]
            return self.lvalue_var(t.value)
        if isinstance(t, ast.Attribute):
            return self.lvalue_var(t.value)                  # xs[i].field = ..  rebinds xs
        return None

    def assigned_in(self, stmts):
        """Lean variables assigned or mutated in place somewhere in `stmts`"""
        out = []

        def add(t):
            if isinstance(t, (ast.Tuple, ast.List)):
                for e in t.elts:
                    add(e)
                return
            x = self.lvalue_var(t)
            if x is not None and x not in out:
                out.append(x)
        for s0 in stmts:
            for n in ast.walk(s0):
                if isinstance(n, ast.Assign):
                    for t in n.targets:
                        add(t)
                elif isinstance(n, ast.AugAssign):
                    add(n.target)
                elif isinstance(n, ast.For):
                    add(n.target)
                elif isinstance(n, ast.Delete):
                    for t in n.targets:
                        add(t)
                elif isinstance(n, ast.Expr) and isinstance(n.value, ast.Call):
                    f = n.value.func
                    if isinstance(f, ast.Attribute) and f.attr in self.MUTATORS:
                        add(f.value)
                    for x in self.calls.get(ast.unparse(f), {}).get("mutates", []):
                        if x not in out:
                            out.append(x)
        return out

    def snapshot_guard(self, st, env):
        """`for x in <it>` is compiled on the *value* of the iterable at loop entry.  That is Python's meaning
        only if the list object is not mutated while the loop runs:
          * a table entry `obj.features['key']`: the table must not be written in the body;
          * an element `X[v - a]` of a local list of lists X: the body may only touch X by `X[v - b].append(..)`
            with the same variable v (not assigned in the body) and a different constant b; both indices must be
            non-negative (a negative index could alias the other element), which is emitted as a guard.
        Everything else is rejected."""
        it = st.iter
        muts = self.assigned_in(st.body)
        if isinstance(it, ast.Subscript) and isinstance(it.slice, ast.Constant) and isinstance(it.slice.value, str):
            tab = self.table_keys.get("[%r]" % it.slice.value)
            if tab is not None and tab in muts:
                bad(st, "iteration over a table entry while the loop body writes that table")
            return []
        if isinstance(it, ast.Subscript) and isinstance(it.value, ast.Name):
            x = it.value.id

            def offs(e):
                if isinstance(e, ast.Name):
                    return e.id, 0
                if isinstance(e, ast.BinOp) and isinstance(e.op, ast.Sub) and isinstance(e.left, ast.Name) \
                        and isinstance(e.right, ast.Constant) and isinstance(e.right.value, int) \
                        and not isinstance(e.right.value, bool) and e.right.value >= 0:
                    return e.left.id, e.right.value
                return None
            if x not in muts:
                return []
            a = offs(it.slice)
            if a is None or a[0] in muts:
                bad(st, "iteration over an element of a list that the loop body mutates (index not of the form v - const)")
            worst = a[1]
            for s0 in st.body:
                for n in ast.walk(s0):
                    tg = []
                    if isinstance(n, ast.Assign):
                        tg = n.targets
                    elif isinstance(n, ast.AugAssign):
                        tg = [n.target]
                    elif isinstance(n, ast.Delete):
                        tg = n.targets
                    elif isinstance(n, ast.Expr) and isinstance(n.value, ast.Call) \
                            and isinstance(n.value.func, ast.Attribute) and n.value.func.attr in self.MUTATORS:
                        f = n.value.func
                        if self.lvalue_var(f.value) == x:
                            b = offs(f.value.slice) if (f.attr == "append" and isinstance(f.value, ast.Subscript)
                                                        and isinstance(f.value.value, ast.Name)) else None
                            if b is None or b[0] != a[0] or b[1] == a[1]:
                                bad(n, "mutation of the list whose element the enclosing loop iterates over")
                            worst = max(worst, b[1])
                        continue
                    for t in tg:
                        if self.lvalue_var(t) == x:
                            bad(n, "mutation of the list whose element the enclosing loop iterates over")
            if env.get(a[0]) not in ("Nat", "Int", "IntLit"):
                bad(st, "index variable of the iterated element is not an integer")
            v = V(a[0]) if env[a[0]] == "Int" else Tm("({0} : Int)", [V(a[0])])
            return [("guard", Op("≤", C("(%d : Int)" % worst), v))]
        return []

    def loop(self, st, env, after):
        is_while = isinstance(st, ast.While)
        nested = self.depth >= 1
        if is_while:
            if not self.raises:
                bad(st, "while loop in a function that the spec declares total (running out of fuel is `none`)")
            k = self.while_index.get(id(st))
            if k is None or k >= len(self.fuel):
                bad(st, "while loop without a fuel entry in the spec")
            stream = self.fuel[k] if isinstance(self.fuel[k], dict) else None
            if stream:
                # the fuel is an oracle list: every pass consumes one member, whose components are the
                # values of the names in `pattern` during that pass; the oracle running dry is `none`
                ftxt = stream["stream"]
                ety, pat = stream["elem"], stream["pattern"]
                patenv = dict(zip(pat_vars(pat), ety[1] if isinstance(pat, tuple) else [ety]))
            else:
                ftxt = "(%s)" % self.fuel[k]
                ety, pat, patenv = "Nat", None, {}
            pre, lst = [], Tm(ftxt.replace("{", "{{").replace("}", "}}"), fv=self.mentions(ftxt))
        else:
            pre = self.snapshot_guard(st, env)
            p2, lst, ety, pat, patenv = self.iterable(st.iter, st.target, env)
            pre = pre + p2
            objloop = self.object_loop(st, env, ety)
            if has_unknown(ety):
                # element type not known yet (a list that starts empty): skipped in this typing pass, the
                # pass does not produce output (`unresolved`)
                self.unresolved = True
                return after(env)
        if is_while:
            objloop = None
        if objloop:
            # `for x in xs:` whose body updates attributes of x: xs is a list of record values, the loop runs over its
            # value at entry, x is a record variable that the body rebinds field by field, every pass ends by appending
            # the final x to the accumulator `<xs>_done`, and after the loop xs is rebound to the accumulator (= xs with
            # every member replaced by its updated value; valid because the members are distinct objects and the body
            # cannot touch the list object or let x escape - checked in `object_loop`)
            xs_var, acc = objloop
            env = dict(env)
            env[acc] = env[xs_var]
            inner_after = after

            def after(e, _k=inner_after, _xs=xs_var, _acc=acc):       # noqa: F811
                e2 = dict(self.forget(e, [_xs]))
                del e2[_acc]
                return Let(_xs, V(_acc), _k(e2))
        self.nloops += 1
        lp = Loop("%s_loop%d" % (self.lean, self.nloops), ("fl%d" if is_while else "tl%d") % self.nloops)
        lp.kind = "while" if is_while else "for"
        lp.nested = nested
        lp.raises = self.raises
        fuel = "fuel%d" % self.nloops
        env = self.forget(env, None)
        nil = Out(lp) if nested else after(env)
        env2 = dict(env)
        for a, b in patenv.items():
            if a in env and env[a] != b:
                bad(st, "loop variable changes the type of an existing variable")
            if a in self.vars or a in self.lean_param_names or a in self.s["py_params"]:
                bad(st, "loop variable shadows a parameter")
            env2[a] = b
            self.observed.setdefault(a, []).append(b)

        def same(e):
            for a, b in env.items():
                if a != self.FACTS and e.get(a) != b and b == "IntLit" and e.get(a) in NUMERIC:
                    self.observed.setdefault(a, []).append(e[a])       # retyped by the next pass
                elif self.num and a != self.FACTS and e.get(a) != b and b in ("IntLit", "Nat", "NatF") \
                        and e.get(a) in ("Num", "NatF", "Nat"):
                    self.observed.setdefault(a, []).append(e[a])       # retyped by the next pass
                    self.unresolved = True
                elif a != self.FACTS and e.get(a) != b and isinstance(b, tuple) and has_unknown(b) \
                        and isinstance(e.get(a), tuple) and e[a][0] == b[0] and not has_unknown(e[a]):
                    self.observed.setdefault(a, []).append(e[a])       # `xs = []` before the loop: typed by the next pass
                    self.unresolved = True
                elif a != self.FACTS and e.get(a) != b:
                    bad(st, "variable %s has type %s at loop entry and %s at the end of the body"
                        % (a, tshow(b), tshow(e.get(a))))

        def chk(e):
            same(e)
            if objloop:
                return Let(objloop[1], Tm("({0} ++ [{1}])", [V(objloop[1]), V(st.target.id)]), Rec(lp))
            return Rec(lp)

        def brk(e):
            if objloop:
                bad(st, "break out of a loop that updates the members of a list of objects")
            if not nested:
                return after(e)
            same(e)
            return Out(lp)
        self.depth += 1
        if objloop:
            self.objloops += 1
            self.objvars.add(st.target.id)
        try:
            body = self.block(st.body, env2, chk, (brk, chk))
        finally:
            self.depth -= 1
            if objloop:
                self.objloops -= 1
                self.objvars.discard(st.target.id)
        if is_while:
            cpre, c = self.cond(st.test, env)
            body = self.wrap(cpre, If(c, FuelMatch(fuel, lp.tl, body, self.none(st), pat), nil), st)
            pv = {fuel, lp.tl} | set(pat_vars(pat or ()))
            free = [x for x in fv(body) if x not in pv]
        else:
            pv = set(pat_vars(pat)) | {lp.tl}
            free = [x for x in fv(body) if x not in pv]
            for x in fv(nil):
                if x not in free:
                    free.append(x)
        assigned = self.assigned
        ptypes = dict(self.params)
        if nested:
            inner = self.assigned_in(st.body) + pat_vars(pat or ())
            lp.carried = [x for x in free if x in inner and x in env]
            lp.carried += [x for x in env if x in inner and x not in lp.carried and x != self.FACTS]
            if not lp.carried:
                bad(st, "nested loop without an effect on the variables of the enclosing code")
            lp.fixed = [p for p in self.lean_param_names if p in free and p not in assigned]
            extra = [x for x in free if x not in lp.fixed and x not in lp.carried]
            lp.fixed += extra
            for x in extra:
                if x not in env or x == self.FACTS:
                    bad(st, "variable %s may be read before it is assigned" % x)
                ptypes[x] = env[x]
        else:
            lp.fixed = [p for p in self.lean_param_names if p in free and p not in assigned]
            lp.carried = [x for x in free if x not in lp.fixed]
        for x in lp.carried:
            if x not in env or x == self.FACTS:
                bad(st, "variable %s may be read before it is assigned" % x)
        lp.ctypes = [env[x] for x in lp.carried]
        sig = " ".join("(%s : %s)" % (p, tshow(ptypes[p])) for p in lp.fixed)
        res = self.restype()
        if nested:
            res = lp.ctypes[0] if len(lp.ctypes) == 1 else ("Prod", tuple(lp.ctypes))
            if self.raises:
                res = ("Option", res)
        ty = " → ".join([tshow(("List", ety) if (not is_while or pat is not None) else "Nat", False)]
                        + [tshow(env[x], False) for x in lp.carried] + [tshow(res, False)])
        args = "".join(", " + x for x in lp.carried)
        lines = ["def %s %s %s : %s" % (lp.name, self.header, sig, ty)]
        if is_while:
            lines += ["  | %s%s =>" % (fuel, args)] + pp(body, 2)
        else:
            lines += ["  | []%s =>" % args] + pp(nil, 2)
            # a carried variable that is also the loop variable (an inner `for i` re-using the name of an enclosing
            # loop variable): every pass assigns it from the list, the incoming value is dead
            pvs = set(pat_vars(pat))
            args_cons = "".join(", " + ("_" if x in pvs else x) for x in lp.carried)
            lines += ["  | %s :: %s%s =>" % (pat_show(pat), lp.tl, args_cons)] + pp(body, 2)
        self.defs.append("\n".join(lines))
        if objloop:
            return self.wrap(pre, Let(objloop[1], C("([] : %s)" % tshow(env[objloop[1]])), Call(lp, lst)), st)
        if not nested:
            return self.wrap(pre, Call(lp, lst), st)
        patc = lp.carried[0] if len(lp.carried) == 1 else tuple(lp.carried)
        if self.raises:
            return self.wrap(pre, MatchOpt(Call(lp, lst), patc, after(env), self.none(st)), st)
        return self.wrap(pre, Let(patc, Call(lp, lst), after(env)), st)

    def object_loop(self, st, env, ety):
        """Is `for x in xs: body` a loop that updates attributes of the members of a list of objects?
        -> None | (Lean variable of xs, accumulator name).  Conditions (all syntactic, otherwise rejected):
        the element type is declared in the spec's `objects`; xs is a state variable or a local list named directly
        (no snapshot, no zip); the loop is not nested; the body does not assign or mutate xs itself; every occurrence
        of x in the body is the root of an attribute / key path (x never escapes: it is not passed to a call, stored,
        appended or aliased), so the only way the body changes a member is through x."""
        if not (isinstance(ety, str) and ety in self.objects and isinstance(st.target, ast.Name)):
            return None
        x = st.target.id
        if x not in self.assigned_in(st.body):
            return None                                  # members are only read: an ordinary loop
        key = ast.unparse(st.iter)
        if key in self.state:
            xs = self.state[key][0]
        elif isinstance(st.iter, ast.Name) and st.iter.id in env and st.iter.id not in self.lean_param_names:
            xs = st.iter.id
        else:
            bad(st, "loop that updates the members of a list which is neither a state variable of the spec nor a local list")
        if self.depth >= 1:
            bad(st, "nested loop that updates the members of a list of objects")
        if xs in self.assigned_in(st.body):
            bad(st, "loop body assigns or mutates the list whose members it updates")
        parents = {}
        for s0 in st.body:
            for n in ast.walk(s0):
                for c in ast.iter_child_nodes(n):
                    parents[id(c)] = n
        for s0 in st.body:
            for n in ast.walk(s0):
                if isinstance(n, ast.Name) and n.id == x:
                    par = parents.get(id(n))
                    if not (isinstance(par, (ast.Attribute, ast.Subscript)) and par.value is n):
                        bad(n, "the loop variable of an object loop used other than as the root of an attribute path "
                               "(the object could escape or be aliased)")
        acc = xs + "_done"
        if acc in env or acc in self.lean_param_names:
            bad(st, "name clash with the accumulator %s" % acc)
        return xs, acc

    def iterable(self, it, tgt, env, consumed_at_once=False):
        """-> (pre, Lean list term, element type, Lean pattern, {pattern var: type})"""
        def names(t, ty):
            if isinstance(t, ast.Name):
                return t.id, {t.id: ty}
            if isinstance(t, ast.Tuple) and isinstance(ty, tuple) and ty[0] == "Prod" and len(t.elts) == len(ty[1]):
                ps, d = [], {}
                for a, b in zip(t.elts, ty[1]):
                    p, dd = names(a, b)
                    ps.append(p)
                    d.update(dd)
                return tuple(ps), d
            bad(tgt, "loop target does not match the element type %s" % tshow(ty))

        def lst(n, snapshot=False):
            if isinstance(n, ast.Call) and isinstance(n.func, ast.Name) and not n.keywords:
                f = n.func.id
                if f == "range" and len(n.args) == 1:
                    pre, v, ty = self.expr(n.args[0], env, "Nat")
                    if ty not in ("Nat", "IntLit"):
                        bad(n, "range over a value that is not a natural number")
                    v = self.coerce(v, ty, "Nat", n)
                    return pre, Tm("(List.range {0})", [v]), "Nat", None
                if f == "range" and len(n.args) == 2:
                    # range(a, b) = a, a+1, ..., b-1 (empty when b <= a: truncated subtraction)
                    p1, a, ta = self.expr(n.args[0], env, "Nat")
                    p2, b, tb = self.expr(n.args[1], env, "Nat")
                    if tb == "Int" and ta in ("Nat", "IntLit"):
                        # a >= 0: the members a <= x < b are those below b.toNat (none when b <= 0)
                        b, tb = Tm("(Int.toNat {0})", [b]), "Nat"
                    if ta not in ("Nat", "IntLit") or tb not in ("Nat", "IntLit"):
                        bad(n, "range over values that are not natural numbers")
                    a, b = self.coerce(a, ta, "Nat", n), self.coerce(b, tb, "Nat", n)
                    return p1 + p2, Tm("(List.range' {0} ({1} - {0}))", [a, b]), "Nat", None
                if f == "zip" and len(n.args) == 2:
                    p1, a, ta, _ = lst(n.args[0])
                    p2, b, tb, _ = lst(n.args[1])
                    return p1 + p2, Tm("(List.zip {0} {1})", [a, b]), ("Prod", (ta, tb)), None
                if f == "enumerate" and len(n.args) == 1:
                    p1, a, ta, _ = lst(n.args[0])
                    return p1, Tm("(List.zipIdx {0})", [a]), ("Prod", (ta, "Nat")), "enum"
                if f == "list" and len(n.args) == 1:
                    return lst(n.args[0], True)                 # snapshot = the value itself
            if isinstance(n, ast.Call) and isinstance(n.func, ast.Attribute) and n.func.attr == "items" and not n.args \
                    and not n.keywords and self.s.get("strdict"):
                # d.items(): the (key, value) pairs in insertion order = the association list itself
                pre, v, ty = self.expr(n.func.value, env)
                if not (isinstance(ty, tuple) and ty[0] == "Dict") or has_unknown(ty):
                    bad(n, ".items() of something that is not a dict of the translator")
                return pre, v, ("Prod", (ty[1][0], ty[1][1])), None
            pre, v, ty = self.expr(n, env)
            if isinstance(ty, tuple) and ty[0] == "Dict" and not has_unknown(ty) and self.s.get("strdict"):
                # `for key in d`: the keys in insertion order
                return pre, Tm("(List.map Prod.fst {0})", [v]), ty[1][0], None
            if isinstance(ty, str) and ty in self.s.get("iterables", {}):
                # iteration over a value of a spec type: the spec entry says which list `for item in value` yields
                # (a template starting with `?` is Option-valued: none = TypeError, not iterable)
                tmpl, ety = self.s["iterables"][ty]
                if tmpl.startswith("?"):
                    t = self.tmp()
                    return pre + [("bind", t, Tm(tmpl[1:], [v]))], V(t), ety, None
                return pre, Tm(tmpl, [v]), ety, None
            if not (isinstance(ty, tuple) and ty[0] == "List"):
                bad(n, "iteration over something that is not a list (type %s)" % tshow(ty))
            if ty[1] == "IntLit":                      # `for s in [-1, 1]`: the members are integers
                self.setlit(v, "Int", n)
                ty = ("List", "Int")
            if isinstance(n, (ast.Name, ast.Attribute)) and not snapshot:
                x = self.state.get(ast.unparse(n), (getattr(n, "id", None),))[0]
                if x in self.mutated:
                    bad(n, "iteration over a list that the function mutates in place (no snapshot)")
            return pre, v, ty[1], None
        pre, v, ety, kind = lst(it, consumed_at_once)      # a generator inside any()/all() cannot be overtaken by a mutation
        if kind == "enum":
            # Python: (index, element); List.zipIdx: (element, index)
            if not (isinstance(tgt, ast.Tuple) and len(tgt.elts) == 2):
                bad(tgt, "enumerate target")
            pi, di = names(tgt.elts[0], "Nat")
            pe_, de = names(tgt.elts[1], ety[1][0])
            de.update(di)
            return pre, v, ety, (pe_, pi), de
        p, d = names(tgt, ety)
        return pre, v, ety, p, d

    # -- expressions ----------------------------------------------------------------------
    def need(self, helper):
        if helper not in self.helpers:
            self.helpers.append(helper)

    def coerce(self, v, ty, want, node):
        if want is None or ty == want:
            return v
        if self.num and want == "Num":
            # int -> float: the exact value (`Num.ofNat`); a negative literal is the negation of its absolute value
            if ty in ("Nat", "NatF"):
                return Tm("(Num.ofNat {0})", [v])
            if ty == "IntLit":
                if isinstance(v, Lit) and v.value < 0:
                    m = Lit(-v.value)
                    m.ty = "Nat"
                    return Tm("(Num.neg (Num.ofNat {0}))", [m])
                self.setlit(v, "Nat", node)
                return Tm("(Num.ofNat {0})", [v])
            if ty == "Int":
                self.need("numOfInt")             # a signed integer: `Num.ofNat` of its absolute value, negated when negative
                return Tm("(numOfInt {0})", [v])
        if self.num and want == "NatF" and ty in ("Nat", "IntLit"):
            if ty == "IntLit":
                self.setlit(v, "Nat", node)
            return v
        if ty == "IntLit" and want in NUMERIC:
            self.setlit(v, want, node)
            return v
        ck = (tshow(ty), tshow(want)) if ty is not None and want is not None else None
        if ck in self.s.get("coerce", {}):
            return Tm(self.s["coerce"][ck], [v])
        if has_unknown(ty) and not has_unknown(want) and isinstance(ty, tuple) and not isinstance(want, tuple) \
                and any(k[1] == tshow(want) for k in self.s.get("coerce", {})):
            # a list whose element type is not known yet, used where the spec converts (e.g. list -> document):
            # converted in the next typing pass, when the element type is known
            self.unresolved = True
            return v
        if has_unknown(ty) and not has_unknown(want):
            # a list that starts empty used at a known type: the next typing pass declares it with that type
            self.unresolved = True
            if isinstance(v, V):
                self.observed.setdefault(v.name, []).append(want)
            return v
        if ty == "Nat" and want == "Int":
            return Tm("({0} : Int)", [v])
        if isinstance(want, tuple) and want[0] == "Option" and not (isinstance(ty, tuple) and ty[0] == "Option"):
            return Tm("(some {0})", [self.coerce(v, ty, want[1], node)])
        if ty == "IntLit" and want in self.carrier:
            bad(node, "integer literal used as a value of the opaque carrier %s" % want)
        bad(node, "type mismatch: have %s, need %s" % (tshow(ty), tshow(want)))

    def setlit(self, v, ty, node):
        """push a numeric type into an integer-literal expression"""
        if ty == "NatF":
            ty = "Nat"
        if isinstance(v, Lit):
            if ty == "Nat" and v.value < 0:
                bad(node, "negative literal as a natural number")
            v.ty = ty
        elif isinstance(v, Op):
            self.setlit(v.a, ty, node)
            self.setlit(v.b, ty, node)
        elif isinstance(v, Tm):
            for a in v.args:
                self.setlit(a, ty, node)
        elif isinstance(v, If):
            self.setlit(v.t, ty, node)
            self.setlit(v.e, ty, node)
        elif isinstance(v, V):
            # a variable that so far only received integer literals is used at type `ty`:
            # note it, the next typing pass declares the variable with that type
            self.observed.setdefault(v.name, []).append(ty)
        else:
            bad(node, "cannot type literal expression")

    def unify(self, a, ta, b, tb, node):
        if self.num and ta != tb and "Num" in (ta, tb):
            return self.coerce(a, ta, "Num", node), self.coerce(b, tb, "Num", node), "Num"
        if self.num and ta != tb and "NatF" in (ta, tb) and ta in self.INTY and tb in self.INTY:
            return self.coerce(a, ta, "NatF", node), self.coerce(b, tb, "NatF", node), "NatF"
        if ta == tb:
            if ta == "IntLit":
                return a, b, "IntLit"
            return a, b, ta
        if ta == "IntLit" and tb in NUMERIC:
            return self.coerce(a, ta, tb, node), b, tb
        if tb == "IntLit" and ta in NUMERIC:
            return a, self.coerce(b, tb, ta, node), ta
        if {ta, tb} == {"Nat", "Int"}:
            return self.coerce(a, ta, "Int", node), self.coerce(b, tb, "Int", node), "Int"
        if ta == "Rat" and tb in ("Nat", "Int"):
            return a, Tm("({0} : Rat)", [b]), "Rat"                # int op float: the exact value of the integer
        if tb == "Rat" and ta in ("Nat", "Int"):
            return Tm("({0} : Rat)", [a]), b, "Rat"
        bad(node, "operands of different types %s and %s" % (tshow(ta), tshow(tb)))

    def ratconst(self, x):
        f = fractions.Fraction(repr(x))          # the decimal number that was written
        if f.denominator == 1:
            return C("(%d : Rat)" % f.numerator) if f >= 0 else C("(-%d : Rat)" % -f.numerator)
        if f >= 0:
            return C("((%d : Rat) / %d)" % (f.numerator, f.denominator))
        return C("((-%d : Rat) / %d)" % (-f.numerator, f.denominator))

    INTY = ("Nat", "IntLit", "NatF")

    def numconst(self, x, node):
        """float literal in a `num` function: a non-negative integral value k is the natural number k (type NatF: a
        float known to be a natural number, `Num.ofNat k` where a float is needed); any other literal is
        `Num.ofRat (m / 10^e)` with m and e read off the decimal numeral that Python prints for it (0.2 -> 2/10)"""
        import decimal
        if x < 0:
            bad(node, "negative float constant")          # the parser gives -(literal); kept for synthesised nodes
        d = decimal.Decimal(repr(x))
        sign, digits, exp = d.as_tuple()
        m = int("".join(str(k) for k in digits))
        if exp >= 0 or x == int(x):
            k = int(x)
            if k >= 2 ** 53:
                bad(node, "integral float constant of 2^53 or more")
            lit = Lit(k)
            lit.ty = "Nat"
            return [], lit, "NatF"
        return [], C("(Num.ofRat ((%d : Rat) / %d))" % (m, 10 ** (-exp))), "Num"

    def qualname(self, n):
        """`np.cos` / `exp` -> "numpy.cos" / "numpy.exp" through the import statements of the module, or None"""
        if isinstance(n, ast.Name):
            return self.imports.get(n.id) if "." in self.imports.get(n.id, "") else None
        if isinstance(n, ast.Attribute) and isinstance(n.value, ast.Name) and n.value.id in self.imports \
                and "." not in self.imports[n.value.id]:
            return self.imports[n.value.id] + "." + n.attr
        return None

    NUM_FUNS = {"cos": "Num.cos", "sin": "Num.sin", "exp": "Num.exp", "sqrt": "Num.sqrt",
                "abs": "Num.abs", "fabs": "Num.abs", "absolute": "Num.abs"}
    NUM_CONSTS = {"pi": "Num.pi", "e": "(Num.exp (Num.ofNat (1 : Nat)))"}

    def num_arith(self, n, pre, a, ta, b, tb):
        """arithmetic of a `num` function with at least one float operand, `/` or `**` (see NUM_DOC)"""
        opn = type(n.op)
        for t in (ta, tb):
            if t != "Num" and t != "Int" and t not in self.INTY:
                bad(n, "float arithmetic on a value of type %s" % tshow(t))
        ints = ta in self.INTY and tb in self.INTY
        if opn is ast.Pow:
            if ints and "NatF" not in (ta, tb):
                bad(n, "power of an integer")
            return pre, Tm("(Num.pow {0} {1})", [self.coerce(a, ta, "Num", n), self.coerce(b, tb, "Num", n)]), "Num"
        if ints and opn in (ast.Add, ast.Mult):
            # integral float (+ | *) integer: exact natural-number arithmetic (both < 2^53), still a float
            if ta == "IntLit":
                self.setlit(a, "Nat", n)
            if tb == "IntLit":
                self.setlit(b, "Nat", n)
            return pre, Op("+" if opn is ast.Add else "*", a, b), "NatF"
        if opn is ast.Div and (tb in self.INTY or tb == "Int"):
            # the divisor is (the float of) an integer: ZeroDivisionError is decidable
            nz = isinstance(b, Lit) and b.value != 0
            if tb == "IntLit":
                self.setlit(b, "Nat", n)
            if not nz:
                pre = pre + [("guard", Op("≠", b, C("0")))]
        name = {ast.Add: "Num.add", ast.Sub: "Num.sub", ast.Mult: "Num.mul", ast.Div: "Num.div"}.get(opn)
        if name is None:
            bad(n, "binary operator on floats")
        return pre, Tm("(%s {0} {1})" % name, [self.coerce(a, ta, "Num", n), self.coerce(b, tb, "Num", n)]), "Num"

    def accessor(self, base, tb, acc, node):
        """type-directed attribute / string-key access on spec types"""
        table = self.types.get(tb) if isinstance(tb, str) else None
        if table is None or acc not in table:
            bad(node, "no accessor %s on a value of type %s in the spec" % (acc, tshow(tb)))
        tmpl, ty = table[acc][0], table[acc][1]
        return Tm(tmpl, [base], fv=self.mentions(tmpl)), ty

    def expr(self, n, env, want=None):
        """-> (prelude, term, type).  prelude: [("guard", Prop) | ("bind", x, Option-term)] in
        evaluation order; a failing guard / `none` is the Python exception."""
        key = ast.unparse(n)
        if key in self.bind:
            text, ty = self.bind[key][0], self.bind[key][1]
            tm = Tm(text.replace("{", "{{").replace("}", "}}"), fv=self.mentions(text))
            if len(self.bind[key]) > 2 and self.bind[key][2] == "partial":
                t = self.tmp()                    # the Lean text is Option-valued: none = the expression raises
                return [("bind", t, tm)], V(t), ty
            return [], tm, ty
        if key in self.state:
            lv, ty = self.state[key]
            return [], V(lv), ty
        if key in self.fields:
            rv, fld, ty = self.fields[key]
            return [], Tm("{0}.%s" % fld, [V(rv)]), ty
        if self.num and isinstance(n, (ast.Name, ast.Attribute)) and not (isinstance(n, ast.Name) and n.id in env):
            q = self.qualname(n)
            if q is not None and q.split(".")[0] in ("numpy", "math") and q.split(".", 1)[1] in self.NUM_CONSTS:
                return [], C(self.NUM_CONSTS[q.split(".", 1)[1]]), "Num"
        if isinstance(n, ast.Constant):
            v = n.value
            if v is None:
                if isinstance(want, tuple) and want[0] == "Option" and not has_unknown(want):
                    return [], C("(none : %s)" % tshow(want)), want
                if want is None or (isinstance(want, tuple) and want[0] == "Option"):
                    return [], C("none"), ("Option", "?")          # value type found by the next typing pass
                bad(n, "None where the spec does not expect an optional value")
            if isinstance(v, str) and self.s.get("strings"):
                # a string constant: only compared for equality (spec option `strings`)
                if '"' in v or "\\" in v or not v.isprintable():
                    bad(n, "string constant with characters that would need escaping")
                return [], C('"%s"' % v), "Str"
            if isinstance(v, bool):
                return [], C("true" if v else "false"), "Bool"
            if isinstance(v, int):
                lit = Lit(v)
                if want in NUMERIC:
                    self.setlit(lit, want, n)
                    return [], lit, want
                return [], lit, "IntLit"
            if isinstance(v, float):
                if v != v or v in (float("inf"), float("-inf")):
                    bad(n, "non-finite float constant")
                if self.num:
                    return self.numconst(v, n)
                return [], self.ratconst(v), "Rat"
            bad(n, "constant")
        if isinstance(n, ast.Name):
            if n.id in env:
                return [], V(n.id), env[n.id]
            if n.id in self.consts:
                return self.expr(self.consts[n.id], {}, want)
            bad(n, "name is not a variable in scope (unbound, or used outside the spec's binding table)")
        if isinstance(n, ast.UnaryOp):
            if isinstance(n.op, ast.Not):
                pre, c = self.cond(n, env)
                return pre, Tm("(decide {0})", [c]), "Bool"
            if isinstance(n.op, ast.USub) and self.num and not (isinstance(n.operand, ast.Constant)
                                                                and isinstance(n.operand.value, int)):
                pre, v, ty = self.expr(n.operand, env)
                if ty == "Num" or ty == "NatF":
                    return pre, Tm("(Num.neg {0})", [self.coerce(v, ty, "Num", n)]), "Num"
                if ty == "Nat":
                    v, ty = self.coerce(v, ty, "Int", n), "Int"
                if ty not in ("Int", "IntLit"):
                    bad(n, "negation of a non-number")
                return pre, Tm("(- {0})", [v]), ty
            if isinstance(n.op, ast.USub):
                if isinstance(n.operand, ast.Constant) and isinstance(n.operand.value, (int, float)) \
                        and not isinstance(n.operand.value, bool):
                    return self.expr(ast.copy_location(ast.Constant(value=-n.operand.value), n), env, want)
                pre, v, ty = self.expr(n.operand, env, want)
                if ty == "Nat":
                    v, ty = self.coerce(v, ty, "Int", n), "Int"
                if ty not in ("Int", "Rat", "IntLit"):
                    bad(n, "negation of a non-number")
                return pre, Tm("(- {0})", [v]), ty
            bad(n, "unary operator")
        if isinstance(n, ast.BinOp):
            return self.binop(n, env, want)
        if isinstance(n, (ast.Compare, ast.BoolOp)):
            pre, c = self.cond(n, env)
            return pre, Tm("(decide {0})", [c]), "Bool"
        if isinstance(n, ast.IfExp):
            pre, c = self.cond(n.test, env)
            p1, a, ta = self.expr(n.body, env, want)
            p2, b, tb = self.expr(n.orelse, env, want)
            if p1 or p2:
                bad(n, "raising operation inside a conditional expression")
            a, b, ty = self.unify(a, ta, b, tb, n)
            return pre, If(c, a, b), ty
        if isinstance(n, ast.Tuple):
            pres, items, tys = [], [], []
            for e in n.elts:
                p, v, t = self.expr(e, env)
                pres += p
                items.append(v)
                tys.append(t)
            return pres, Tup(items), ("Prod", tuple(tys))
        if isinstance(n, ast.List):
            if not n.elts:
                if not (isinstance(want, tuple) and want[0] == "List"):
                    # element type still unknown: found from the first `append`, next typing pass
                    return [], C("[]"), ("List", "?")
                return [], C("([] : %s)" % tshow(want)), want
            pres, items, ty = [], [], None
            wel = want[1] if isinstance(want, tuple) and want[0] == "List" else None
            if self.num:
                # a display of floats: integer-valued members are converted like any other operand
                parts = [self.expr(e, env, wel) for e in n.elts]
                if wel == "Num" or (any(t == "Num" for _, _, t in parts) and all(t == "Num" or t in self.INTY for _, _, t in parts)):
                    parts = [(p, self.coerce(v, t, "Num", n), "Num") for p, v, t in parts]
            else:
                parts = None
            for k, e in enumerate(n.elts):
                p, v, t = parts[k] if parts is not None else self.expr(e, env, wel)
                if ty is not None and t != ty:
                    bad(n, "list display with elements of different types")
                ty = t
                pres += p
                items.append(v)
            return pres, Tm("[" + ", ".join("{%d}" % i for i in range(len(items))) + "]", items), ("List", ty)
        if isinstance(n, ast.Dict) and n.keys and self.s.get("strdict"):
            # {'k1': e1, ...} with distinct string constants as keys: the association list in source order; every
            # value is converted to the spec's document type (`strdict`) through the spec's `coerce` table
            vt = self.s["strdict"]
            ks = []
            for k in n.keys:
                if not (isinstance(k, ast.Constant) and isinstance(k.value, str)) or k.value in ks \
                        or '"' in k.value or "\\" in k.value or not k.value.isprintable():
                    bad(n, "dict display whose keys are not distinct plain string constants")
                ks.append(k.value)
            pres, items = [], []
            for e in n.values:
                p, v, t = self.expr(e, env, vt)
                pres += p
                items.append(self.coerce(v, t, vt, e))
            self.need("pyDict")
            text = "[" + ", ".join('("%s", {%d})' % (k, i) for i, k in enumerate(ks)) + "]"
            return pres, Tm(text, items), ("Dict", ("Str", vt))
        if isinstance(n, ast.Dict):
            if n.keys:
                bad(n, "dict display with items (only the empty dict `{}` is supported)")
            self.need("pyDict")
            if isinstance(want, tuple) and want[0] == "Dict" and not has_unknown(want):
                return [], C("([] : %s)" % tshow(want)), want
            return [], C("[]"), ("Dict", ("?", "?"))              # item types found by the next typing pass
        if isinstance(n, ast.Attribute):
            pre, b, tb = self.expr(n.value, env)
            table = self.types.get(tb) if isinstance(tb, str) else None
            if table is not None and "." + n.attr in table and table["." + n.attr][0].startswith("?"):
                t = self.tmp()                    # partial accessor: none = AttributeError
                return pre + [("bind", t, Tm(table["." + n.attr][0][1:], [b]))], V(t), table["." + n.attr][1]
            v, ty = self.accessor(b, tb, "." + n.attr, n)
            return pre, v, ty
        if isinstance(n, ast.Subscript):
            return self.subscript(n, env, want)
        if isinstance(n, ast.Call):
            return self.call(n, env, want)
        if self.num and isinstance(n, ast.ListComp):
            # [e for y in xs]: `List.map` over the list value; no conditions, one `for`, e must not raise
            if len(n.generators) != 1 or n.generators[0].ifs or n.generators[0].is_async:
                bad(n, "list comprehension with conditions or several `for` clauses")
            gen = n.generators[0]
            pre, xs, ety, pat, patenv = self.iterable(gen.iter, gen.target, env, True)
            if has_unknown(ety):
                self.unresolved = True
                return pre, C("[]"), ("List", "?")
            env2 = dict(env)
            for a, b in patenv.items():
                if a in env or a in self.lean_param_names:
                    bad(n, "comprehension variable shadows a variable in scope")
                env2[a] = b
            p2, e, te = self.expr(n.elt, env2)
            if p2:
                bad(n, "raising operation inside a list comprehension")
            if te in self.INTY:
                e, te = self.coerce(e, te, "Num", n), "Num"
            return pre, Tm("(List.map {0} {1})", [Lam(pat, e), xs]), ("List", te)
        bad(n, "expression")

    def binop(self, n, env, want):
        ops = {ast.Add: "+", ast.Sub: "-", ast.Mult: "*", ast.Div: "/", ast.Mod: "%"}
        if self.s.get("numpy_ints") and isinstance(n.op, (ast.FloorDiv, ast.Mult, ast.Add)):
            r = self.list_or_npint_op(n, env)
            if r is not None:
                return r
        if type(n.op) not in ops and not (self.num and isinstance(n.op, ast.Pow)):
            bad(n, "binary operator")
        w = want if want in NUMERIC else None
        p1, a, ta = self.expr(n.left, env, w)
        p2, b, tb = self.expr(n.right, env, w)
        if self.num and (isinstance(n.op, (ast.Pow, ast.Div)) or "Num" in (ta, tb) or "NatF" in (ta, tb)) \
                and not (isinstance(n.op, ast.Pow) and "Num" not in (ta, tb) and "NatF" not in (ta, tb)
                         and all(t in ("Int", "Nat", "IntLit") for t in (ta, tb))):
            return self.num_arith(n, p1 + p2, a, ta, b, tb)
        if type(n.op) not in ops:
            bad(n, "power of an integer")
        op = ops[type(n.op)]
        for t in (ta, tb):
            if t not in NUMERIC + ("IntLit",):
                bad(n, "arithmetic on a value of type %s" % tshow(t))
        a, b, ty = self.unify(a, ta, b, tb, n)
        pre = p1 + p2
        if op == "/":
            if ty != "Rat":
                bad(n, "true division of integers (result would be a float)")
            if not (isinstance(n.right, ast.Constant) and n.right.value != 0):
                pre = pre + [("guard", Op("≠", b, C("0")))]             # ZeroDivisionError
            return pre, Op("/", a, b), "Rat"
        if op == "%":
            if ty == "IntLit":
                ty = "Nat"
                self.setlit(a, ty, n)
                self.setlit(b, ty, n)
            if ty == "Int":
                # Python's `%` on integers is the floored remainder (the sign of the divisor): Int.fmod
                if not (isinstance(n.right, ast.Constant) and n.right.value != 0):
                    pre = pre + [("guard", Op("≠", b, C("0")))]             # ZeroDivisionError
                return pre, Tm("(Int.fmod {0} {1})", [a, b]), "Int"
            if ty != "Nat":
                bad(n, "modulo on values that are not integers")
            if not (isinstance(n.right, ast.Constant) and n.right.value != 0):
                pre = pre + [("guard", Op("≠", b, C("0")))]             # ZeroDivisionError
            return pre, Op("%", a, b), "Nat"
        if op == "-" and ty == "Nat":
            # Python integers are signed: never use truncated subtraction
            return pre, Op("-", self.coerce(a, "Nat", "Int", n), self.coerce(b, "Nat", "Int", n)), "Int"
        return pre, Op(op, a, b), ty

    def list_or_npint_op(self, n, env):
        """spec option `numpy_ints` (fullfact): `a // b` where a is a numpy integer (type NpInt: the result of a bound
        numpy call) is numpy's floor division - division by zero gives 0 and a RuntimeWarning, not an exception - and
        stays a numpy integer; on Python naturals it is the floor division with ZeroDivisionError = none.
        `[e] * k` is `List.replicate k e`, `xs * k` the list repeated k times (k a natural number or a numpy integer,
        which implements __index__), `xs + ys` / `xs += ys` the concatenation.  -> (pre, term, type) | None"""
        saved = self.ntmp
        p1, a, ta = self.expr(n.left, env)
        p2, b, tb = self.expr(n.right, env)
        intish = ("Nat", "NpInt", "IntLit")
        if isinstance(n.op, ast.FloorDiv):
            if ta == "NpInt" and tb in intish:
                if tb == "IntLit":
                    self.setlit(b, "Nat", n)
                return p1 + p2, Op("/", a, b), "NpInt"
            if ta in ("Nat", "IntLit") and tb in ("Nat", "IntLit"):
                if ta == "IntLit":
                    self.setlit(a, "Nat", n)
                if tb == "IntLit":
                    self.setlit(b, "Nat", n)
                pre = p1 + p2
                if not (isinstance(n.right, ast.Constant) and n.right.value != 0):
                    pre = pre + [("guard", Op("≠", b, C("0")))]
                return pre, Op("/", a, b), "Nat"
            bad(n, "floor division on values of type %s and %s" % (tshow(ta), tshow(tb)))
        la = isinstance(ta, tuple) and ta[0] == "List"
        lb = isinstance(tb, tuple) and tb[0] == "List"
        if isinstance(n.op, ast.Mult) and la and tb in intish:
            if tb == "IntLit":
                self.setlit(b, "Nat", n)
            if isinstance(n.left, ast.List) and len(n.left.elts) == 1:
                p0, e, te = self.expr(n.left.elts[0], env)
                if te == "IntLit":
                    self.setlit(e, "Nat", n)
                    te = "Nat"
                return p0 + p2, Tm("(List.replicate {0} {1})", [b, e]), ("List", te)
            return p1 + p2, Tm("(List.flatten (List.replicate {0} {1}))", [b, a]), ta
        if isinstance(n.op, ast.Add) and la and lb:
            if has_unknown(ta) and not has_unknown(tb):
                self.unresolved = True
                if isinstance(a, V):
                    self.observed.setdefault(a.name, []).append(tb)
                return p1 + p2, Tm("({0} ++ {1})", [a, b]), tb
            if ta != tb:
                bad(n, "concatenation of lists of different types")
            return p1 + p2, Tm("({0} ++ {1})", [a, b]), ta
        self.ntmp = saved
        return None

    def subscript(self, n, env, want):
        ref = self.table_ref(n, env)
        if ref is not None:
            # obj.features['key'] read from a table: no entry at the object's position = KeyError
            pre, tab, key, vty = ref
            t = self.tmp()
            return pre + [("bind", t, Tm("{0}[{1}]?", [V(tab), key]))], V(t), vty
        pre, b, tb = self.expr(n.value, env)
        sl = n.slice
        if isinstance(sl, ast.Constant) and isinstance(sl.value, str):
            acc = "[%r]" % sl.value
            table = self.types.get(tb) if isinstance(tb, str) else None
            if table is not None and acc in table and table[acc][0].startswith("?"):
                t = self.tmp()                    # partial accessor (template after `?` is Option-valued): none = KeyError
                return pre + [("bind", t, Tm(table[acc][0][1:], [b]))], V(t), table[acc][1]
            v, ty = self.accessor(b, tb, acc, n)
            return pre, v, ty
        if isinstance(tb, str) and tb in self.types:
            acc = "[%s]" % ast.unparse(sl)
            if acc in self.types[tb]:                      # a slice / index named in the spec, e.g. `[:-1]`
                v, ty = self.accessor(b, tb, acc, n)
                return pre, v, ty
            if "[]" in self.types[tb] and not isinstance(sl, ast.Slice):
                # indexing by a natural number, partial: template over {0} (the value) and {1} (the index)
                tmpl, ty = self.types[tb]["[]"][0], self.types[tb]["[]"][1]
                p2, i, ti = self.expr(sl, env, "Nat")
                if ti == "IntLit":
                    self.setlit(i, "Nat", n)
                    ti = "Nat"
                if ti != "Nat":
                    bad(n, "index of type %s on a value of type %s" % (tshow(ti), tshow(tb)))
                t = self.tmp()
                return pre + p2 + [("bind", t, Tm(tmpl, [b, i]))], V(t), ty
        if isinstance(sl, ast.Slice) and isinstance(tb, tuple) and tb[0] == "List" and sl.lower is None \
                and sl.step is None and sl.upper is not None:
            # xs[:k] for a natural number k (a negative k would count from the end: not a natural number, rejected)
            p2, k, tk = self.expr(sl.upper, env, "Nat")
            if tk == "IntLit":
                self.setlit(k, "Nat", n)
                tk = "Nat"
            if tk != "Nat":
                bad(n, "slice bound of type %s (only natural numbers)" % tshow(tk))
            return pre + p2, Tm("(List.take {0} {1})", [k, b]), tb
        if self.num and isinstance(sl, ast.Slice) and isinstance(tb, tuple) and tb[0] == "List" and sl.upper is None \
                and sl.step is None and sl.lower is not None:
            # xs[a:] (a new list): `List.drop` for a natural number, Python's from-the-end rule for a signed integer
            p2, k, tk = self.expr(sl.lower, env, "Nat")
            if tk == "IntLit":
                self.setlit(k, "Nat", n)
                tk = "Nat"
            if tk == "Nat":
                return pre + p2, Tm("(List.drop {0} {1})", [k, b]), tb
            if tk == "Int":
                self.need("pyDropFrom")
                return pre + p2, Tm("(pyDropFrom {0} {1})", [b, k]), tb
            bad(n, "slice bound of type %s" % tshow(tk))
        if isinstance(sl, ast.Slice):
            bad(n, "slice (only slices named in the binding table, and xs[:k] on lists, are supported)")
        if isinstance(tb, tuple) and tb[0] == "Prod":
            if isinstance(sl, ast.Constant) and isinstance(sl.value, int) and 0 <= sl.value < len(tb[1]):
                k = sl.value
                if len(tb[1]) != 2:
                    bad(n, "indexing a tuple longer than a pair")
                return pre, Tm("{0}.%d" % (k + 1), [b]), tb[1][k]
            bad(n, "tuple index that is not a constant in range")
        if isinstance(tb, tuple) and tb[0] == "Dict":
            if has_unknown(tb):
                self.unresolved = True
                return pre, C("default"), "?"
            p2, k, tk = self.expr(sl, env, tb[1][0])
            k = self.coerce(k, tk, tb[1][0], n)
            t = self.tmp()
            if self.s.get("strdict"):
                self.need("pyDict")               # a dict that is a parameter: no `{}` has asked for the helpers
            return pre + p2 + [("bind", t, Tm("(pyDictGet {0} {1})", [b, k]))], V(t), tb[1][1]      # KeyError
        if isinstance(tb, tuple) and tb[0] == "List":
            p2, i, ti = self.expr(sl, env, "Nat" if not isinstance(sl, ast.UnaryOp) else "Int")
            t = self.tmp()
            if ti in ("Nat",):
                return pre + p2 + [("bind", t, Tm("{0}[{1}]?", [b, i]))], V(t), tb[1]     # IndexError
            if ti == "IntLit":
                self.setlit(i, "Int", n)
                ti = "Int"
            if ti == "Int":
                self.need("pyGet")
                return pre + p2 + [("bind", t, Tm("(pyGet {0} {1})", [b, i]))], V(t), tb[1]
            bad(n, "list index of type %s" % tshow(ti))
        bad(n, "subscript on a value of type %s" % tshow(tb))

    def call(self, n, env, want):
        key = ast.unparse(n.func)
        if key in self.calls and self.calls[key].get("expr"):
            return self.calls[key]["expr"](self, n, env, want)
        if key in self.calls and self.calls[key].get("fn"):
            # a Python callable that is a parameter of the model: fn, argument types, result type
            c = self.calls[key]
            if n.keywords or len(n.args) != len(c["args"]):
                bad(n, "call of %s with other than %d positional arguments" % (key, len(c["args"])))
            pre, args = [], []
            for a, t in zip(n.args, c["args"]):
                p, v, ty = self.expr(a, env, t)
                pre += p
                args.append(self.coerce(v, ty, t, a))
            node = Tm("(" + " ".join([c["fn"]] + ["{%d}" % i for i in range(len(args))]) + ")", args,
                      fv=self.mentions(c["fn"]))
            if c.get("raises"):                                   # the callable itself may raise
                t = self.tmp()
                return pre + [("bind", t, node)], V(t), c["ret"]
            return pre, node, c["ret"]
        if key in ("min", "max") and len(n.args) == 1 and len(n.keywords) == 1 and n.keywords[0].arg == "key" \
                and isinstance(n.keywords[0].value, ast.Lambda) and self.s.get("sort") == "Int":
            # min(xs, key=lambda x: e) / max(...): CPython scans the list once, keeps the first member and replaces it
            # when a later key is smaller (larger) - the first of several best members wins; empty list = ValueError,
            # a raising key aborts (`pyMinBy` / `pyMaxBy`)
            pre, xs, ty = self.expr(n.args[0], env)
            if not (isinstance(ty, tuple) and ty[0] == "List"):
                bad(n, "%s of something that is not a list" % key)
            if has_unknown(ty):
                self.unresolved = True
                return pre, C("default"), "?"
            keyfn, _ = self.sort_key(n.keywords[0].value, ty[1], env, n, False)
            helper = "pyMinBy" if key == "min" else "pyMaxBy"
            self.need("pyBestLoop")
            self.need(helper)
            t = self.tmp()
            return pre + [("bind", t, Tm("(%s {0} {1})" % helper, [keyfn, xs]))], V(t), ty[1]
        if key == "list" and len(n.args) == 1 and not n.keywords and isinstance(n.args[0], ast.Call) \
                and ast.unparse(n.args[0].func) == "map" and len(n.args[0].args) == 3 and not n.args[0].keywords \
                and isinstance(n.args[0].args[0], ast.Lambda):
            # list(map(lambda x, y: e, xs, ys)): `map` stops at the shorter sequence = List.zipWith; the lambda body
            # must not contain a raising operation (it would abort the whole call at that member)
            lam, xs_n, ys_n = n.args[0].args
            if len(lam.args.args) != 2 or lam.args.defaults or lam.args.vararg or lam.args.kwarg:
                bad(n, "map with a lambda that does not take exactly two parameters")
            p1, xs, tx = self.expr(xs_n, env)
            p2, ys, ty_ = self.expr(ys_n, env)
            for t in (tx, ty_):
                if not (isinstance(t, tuple) and t[0] == "List") or has_unknown(t):
                    bad(n, "map over something that is not a list")
            a, b = lam.args.args[0].arg, lam.args.args[1].arg
            if a == b or any(z in env or z in self.lean_param_names for z in (a, b)):
                bad(n, "lambda parameter shadows a variable in scope")
            env2 = dict(env)
            env2[a], env2[b] = tx[1], ty_[1]
            pb, body, tb = self.expr(lam.body, env2)
            if pb:
                bad(n, "raising operation inside the lambda of map")
            if tb == "IntLit":
                self.setlit(body, "Int", n)
                tb = "Int"
            return p1 + p2, Tm("(List.zipWith {0} {1} {2})", [Lam(a, Lam(b, body)), xs, ys]), ("List", tb)
        if key == "sorted" and len(n.args) == 1 and len(n.keywords) == 1 and n.keywords[0].arg == "key" \
                and isinstance(n.keywords[0].value, ast.Lambda) and self.s.get("sort"):
            # sorted(xs, key=lambda x: e): a new list - all keys first (`pyKeys`, a raising key aborts), then the
            # stable ascending sort of the keyed members (CPython's sort is stable and compares keys with `<` only)
            pre, xs, ty = self.expr(n.args[0], env)
            if not (isinstance(ty, tuple) and ty[0] == "List") or has_unknown(ty):
                bad(n, "sorted of something that is not a list")
            keyfn, sorter = self.sort_key(n.keywords[0].value, ty[1], env, n)
            t = self.tmp()
            return pre + [("bind", t, Tm("(pyKeys {0} {1})", [keyfn, xs]))], Tm("(%s {0})" % sorter, [V(t)]), ty
        if isinstance(n.func, ast.Attribute) and n.func.attr == "copy" and not n.args and not n.keywords:
            # xs.copy() on a list: a new list object with the same members = the same value (lists are values)
            pre, v, ty = self.expr(n.func.value, env)
            if not (isinstance(ty, tuple) and ty[0] == "List"):
                bad(n, "copy() of something that is not a list")
            return pre, v, ty
        if n.keywords:
            bad(n, "keyword arguments")
        if key == "int" and len(n.args) == 1 and self.s.get("int_is_int"):
            # int(e) on a value that the spec types as an integer: the same integer (spec option `int_is_int`: the
            # matrix entries that the function indexes with are integral)
            pre, v, ty = self.expr(n.args[0], env)
            if ty not in ("Int", "Nat", "IntLit"):
                bad(n, "int() of a value of type %s" % tshow(ty))
            return pre, v, ty
        if key == "list" and not n.args:
            return self.expr(ast.copy_location(ast.List(elts=[], ctx=ast.Load()), n), env, want)      # list() = []
        if key == "dict" and not n.args and self.s.get("strdict"):
            return self.expr(ast.copy_location(ast.Dict(keys=[], values=[]), n), env, want)       # dict() = {}
        if key == "list" and len(n.args) == 1 and self.s.get("strdict"):
            # list(xs) on a list value: a new list object with the same members = the same value
            pre, v, ty = self.expr(n.args[0], env)
            if not (isinstance(ty, tuple) and ty[0] == "List"):
                bad(n, "list() of something that is not a list")
            return pre, v, ty
        if self.num:
            r = self.num_call(n, key, env)
            if r is not None:
                return r
        if key in ("any", "all") and len(n.args) == 1 and isinstance(n.args[0], ast.GeneratorExp):
            # exactly `any(<test> for x in xs)` / `all(...)`: List.any / List.all over the list value; the test
            # must not contain a raising operation (it would be evaluated lazily in Python)
            g = n.args[0]
            if len(g.generators) != 1 or g.generators[0].ifs or g.generators[0].is_async:
                bad(n, "generator expression with conditions or several `for` clauses")
            gen = g.generators[0]
            pre, xs, ety, pat, patenv = self.iterable(gen.iter, gen.target, env, True)
            if has_unknown(ety):
                self.unresolved = True
                return pre, C("false"), "Bool"
            env2 = dict(env)
            for a, b in patenv.items():
                if a in env or a in self.lean_param_names:
                    bad(n, "generator variable shadows a variable in scope")
                env2[a] = b
            p2, c = self.cond(g.elt, env2)
            if p2:
                bad(n, "raising operation inside a generator expression")
            return pre, Tm("(List.%s {0} {1})" % key, [xs, Lam(pat, Tm("(decide {0})", [c]))]), "Bool"
        if key == "abs" and len(n.args) == 1:
            pre, v, ty = self.expr(n.args[0], env)
            if ty in ("Int", "IntLit"):
                if ty == "IntLit":
                    self.setlit(v, "Int", n)
                return pre, Tm("(Int.natAbs {0})", [v]), "Nat"
            if ty == "Rat":
                self.need("pyAbs")
                return pre, Tm("(pyAbs {0})", [v]), "Rat"
            if ty == "Nat":
                return pre, v, "Nat"
            bad(n, "abs of a value of type %s" % tshow(ty))
        if key == "len" and len(n.args) == 1:
            pre, v, ty = self.expr(n.args[0], env)
            if not (isinstance(ty, tuple) and ty[0] == "List"):
                bad(n, "len of something that is not a list")
            return pre, Tm("(List.length {0})", [v]), "Nat"
        if key == "float" and len(n.args) == 1:
            pre, v, ty = self.expr(n.args[0], env, "Rat")
            if ty == "IntLit":
                self.setlit(v, "Rat", n)
                ty = "Rat"
            if ty != "Rat":
                bad(n, "float() of a value of type %s" % tshow(ty))
            return pre, v, "Rat"
        if key in ("min", "max") and len(n.args) == 2:
            p1, a, ta = self.expr(n.args[0], env, want)
            p2, b, tb = self.expr(n.args[1], env, want)
            a, b, ty = self.unify(a, ta, b, tb, n)
            if ty == "IntLit":
                self.setlit(a, "Int", n)
                self.setlit(b, "Int", n)
                ty = "Int"
            if ty not in NUMERIC:
                bad(n, "min/max of non-numbers")
            # Python: min(a, b) = b if b < a else a ; max(a, b) = b if b > a else a
            if key == "min":
                return p1 + p2, If(Op("<", b, a), b, a), ty
            return p1 + p2, If(Op("<", a, b), b, a), ty
        if key == "math.pow" and len(n.args) == 2 and isinstance(n.args[1], ast.Constant) \
                and n.args[1].value in (2, 2.0):
            pre, v, ty = self.expr(n.args[0], env, "Rat")
            if ty != "Rat":
                bad(n, "math.pow of a value of type %s" % tshow(ty))
            self.need("pySq")
            return pre, Tm("(pySq {0})", [v]), "Rat"
        bad(n, "call")

    def num_call(self, n, key, env):
        """numpy / math functions of one float, `abs`, `float`, `pow` in a `num` function"""
        q = self.qualname(n.func)
        fun = None
        if q is not None and q.split(".")[0] in ("numpy", "math"):
            fun = q.split(".", 1)[1]
        elif key == "abs" and "abs" not in self.imports:
            fun = "abs"
        if fun in self.NUM_FUNS and len(n.args) == 1:
            pre, v, ty = self.expr(n.args[0], env)
            if fun == "abs" and q is None and ty in ("Int", "IntLit", "Nat"):
                return None                                  # the builtin on an integer: the integer rules
            return pre, Tm("(%s {0})" % self.NUM_FUNS[fun], [self.coerce(v, ty, "Num", n)]), "Num"
        if ((q in ("math.pow", "numpy.power")) or (key == "pow" and "pow" not in self.imports)) and len(n.args) == 2:
            p1, a, ta = self.expr(n.args[0], env)
            p2, b, tb = self.expr(n.args[1], env)
            if key == "pow" and q is None and ta in ("Int", "IntLit", "Nat") and tb in ("Int", "IntLit", "Nat"):
                bad(n, "power of an integer")
            return p1 + p2, Tm("(Num.pow {0} {1})", [self.coerce(a, ta, "Num", n), self.coerce(b, tb, "Num", n)]), "Num"
        if ((key == "sum" and "sum" not in self.imports) or q == "numpy.sum") and len(n.args) == 1:
            # sum(xs): 0 + x0 + x1 + ... from the left (numpy's pairwise order for long arrays is not represented:
            # np.sum is accepted only on a list display / comprehension / list value, where it converts first)
            pre, v, ty = self.expr(n.args[0], env)
            if ty != ("List", "Num"):
                bad(n, "sum of something that is not a list of floats")
            if q == "numpy.sum":
                bad(n, "np.sum (pairwise summation order of numpy is not that of a left-to-right loop)")
            return pre, Tm("(List.foldl (fun acc y => Num.add acc y) (Num.ofNat (0 : Nat)) {0})", [v]), "Num"
        if key == "float" and "float" not in self.imports and len(n.args) == 1:
            pre, v, ty = self.expr(n.args[0], env)
            if ty in ("Nat", "IntLit", "NatF"):
                if ty == "IntLit":
                    self.setlit(v, "Nat", n)
                return pre, v, "NatF"
            if ty == "Num":
                return pre, v, "Num"
            bad(n, "float() of a value of type %s" % tshow(ty))
        return None

    def cond(self, n, env):
        """-> (prelude, Prop term) for an expression in boolean position"""
        if ast.unparse(n) in self.bind and self.bind[ast.unparse(n)][1] == "Bool":
            text = self.bind[ast.unparse(n)][0]
            return [], Op("=", Tm(text.replace("{", "{{").replace("}", "}}"), fv=self.mentions(text)), C("true"))
        if isinstance(n, ast.BoolOp):
            op = "∧" if isinstance(n.op, ast.And) else "∨"
            pre, c = self.cond(n.values[0], env)
            for v in n.values[1:]:
                p, c2 = self.cond(v, env)
                if p:
                    bad(v, "operation that may raise on the right of a short-circuit operator")
                c = Op(op, c, c2)
            return pre, c
        if isinstance(n, ast.UnaryOp) and isinstance(n.op, ast.Not):
            pre, c = self.cond(n.operand, env)
            return pre, Not(c)
        if isinstance(n, ast.Compare):
            if len(n.ops) != 1:
                bad(n, "chained comparison")
            o = n.ops[0]
            if isinstance(o, (ast.Is, ast.IsNot)):
                rhs = n.comparators[0]
                if not (isinstance(rhs, ast.Constant) and rhs.value is None):
                    bad(n, "`is` with something other than None")
                p1, a, ta = self.expr(n.left, env)
                if not (isinstance(ta, tuple) and ta[0] == "Option"):
                    bad(n, "`is None` on a value that the spec does not declare optional")
                c = Op("=", a, C("none"))
                return p1, (c if isinstance(o, ast.Is) else Not(c))
            if isinstance(o, (ast.In, ast.NotIn)) and isinstance(n.left, ast.Constant) and isinstance(n.left.value, str):
                # `'key' in <value of a spec type>`: the accessor "in 'key'" of the type (a Bool template)
                p2, b, tb = self.expr(n.comparators[0], env)
                acc = "in %r" % n.left.value
                table = self.types.get(tb) if isinstance(tb, str) else None
                if table is None or acc not in table:
                    bad(n, "membership test that the spec entry does not name")
                c = Op("=", Tm(table[acc][0], [b]), C("true"))
                return p2, (c if isinstance(o, ast.In) else Not(c))
            p1, a, ta = self.expr(n.left, env)
            p2, b, tb = self.expr(n.comparators[0], env)
            if isinstance(o, (ast.Eq, ast.NotEq)) and isinstance(ta, tuple) and ta[0] == "Option" and has_unknown(ta):
                self.unresolved = True            # typed by the next pass
                return p1 + p2, C("True")
            if isinstance(o, (ast.Eq, ast.NotEq)) and isinstance(ta, tuple) and ta[0] == "Option" and ta[1] == tb \
                    and (tb in NUMERIC or tb in ("Bool", "Str") or tb in self.carrier):
                # `x == v` where x holds None or a value: None equals no value
                c = Op("=", a, Tm("(some {0})", [b]))
                return p1 + p2, (c if isinstance(o, ast.Eq) else Not(c))
            if isinstance(o, (ast.In, ast.NotIn)):
                if not (isinstance(tb, tuple) and tb[0] == "Dict"):
                    bad(n, "`in` on something that is not a dict of the translator")
                if has_unknown(tb):
                    self.unresolved = True
                    return p1 + p2, C("True")
                a = self.coerce(a, ta, tb[1][0], n)
                c = Tm("((pyDictHas {0} {1}) = true)", [b, a])
                return p1 + p2, (c if isinstance(o, ast.In) else Not(c))
            if isinstance(o, (ast.Eq, ast.NotEq)) and ta == tb and ta in self.eqs:
                c = Tm("(" + self.eqs[ta] + " = true)", [a, b], fv=self.mentions(self.eqs[ta]))
                return p1 + p2, (c if isinstance(o, ast.Eq) else Not(c))
            if self.num and ("Num" in (ta, tb) or "NatF" in (ta, tb)):
                # order of floats: the carrier's `<` (spec `num_lt`); nothing else is available on the carrier
                lt = self.s.get("num_lt")
                if lt is None or not isinstance(o, (ast.Lt, ast.Gt)):
                    bad(n, "comparison of floats other than `<` / `>` (or no `num_lt` in the spec entry)")
                a, b = self.coerce(a, ta, "Num", n), self.coerce(b, tb, "Num", n)
                if isinstance(o, ast.Gt):
                    a, b = b, a
                return p1 + p2, Tm("((%s {0} {1}) = true)" % lt, [a, b])
            a, b, ty = self.unify(a, ta, b, tb, n)
            if ty == "IntLit":
                self.setlit(a, "Int", n)
                self.setlit(b, "Int", n)
                ty = "Int"
            def is_lit(e):
                return isinstance(e, ast.Constant) or (isinstance(e, ast.UnaryOp) and isinstance(e.op, ast.USub)
                                                       and isinstance(e.operand, ast.Constant))
            if isinstance(o, (ast.Eq, ast.NotEq)) and is_lit(n.left) and not is_lit(n.comparators[0]):
                a, b = b, a                      # `1 == x` is emitted as `x = 1` (`-1 == x` as `x = -1`)
            if isinstance(o, (ast.Eq, ast.NotEq)):
                if not (ty in NUMERIC or ty in ("Bool", "Str") or ty in self.carrier):
                    bad(n, "equality on values of type %s" % tshow(ty))
                return p1 + p2, Op("=" if isinstance(o, ast.Eq) else "≠", a, b)
            if not (ty in NUMERIC or ty in self.carrier):
                bad(n, "order comparison on values of type %s" % tshow(ty))
            # a > b is emitted as b < a, a >= b as b ≤ a
            if isinstance(o, ast.Lt):
                return p1 + p2, Op("<", a, b)
            if isinstance(o, ast.Gt):
                return p1 + p2, Op("<", b, a)
            if isinstance(o, ast.LtE):
                return p1 + p2, Op("≤", a, b)
            if isinstance(o, ast.GtE):
                return p1 + p2, Op("≤", b, a)
            bad(n, "comparison operator")
        pre, v, ty = self.expr(n, env)
        if ty == "Bool":
            return pre, Op("=", v, C("true"))
        if isinstance(ty, tuple) and ty[0] == "List":
            return pre, Op("≠", v, C("[]"))
        if ty in NUMERIC:
            return pre, Op("≠", v, C("0"))
        bad(n, "truth value of a value of type %s" % tshow(ty))


HELPERS = {
    "pyAbs": "/-- `abs` on a real number -/\ndef pyAbs (x : Rat) : Rat := if x < 0 then -x else x",
    "pySq": "/-- `math.pow(x, 2.0)` on a real number -/\ndef pySq (x : Rat) : Rat := x * x",
    "pyGet": ("/-- `xs[k]` for a signed index (negative counts from the end); `none` = IndexError -/\n"
              "def pyGet {α : Type} (xs : List α) (k : Int) : Option α :=\n"
              "  if 0 ≤ k then xs[k.toNat]? else if -(xs.length : Int) ≤ k then xs[(xs.length + k).toNat]? else none"),
    "pyKeys": ("/-- the keys of `xs.sort(key=f)`, each with its member; `none` = the key function raised -/\n"
               "def pyKeys {α κ : Type} (key : α → Option κ) : List α → Option (List (κ × α))\n"
               "  | [] => some []\n"
               "  | x :: l =>\n"
               "    match key x, pyKeys key l with\n"
               "    | some k, some t => some ((k, x) :: t)\n"
               "    | _, _ => none"),
    "pySort": ("/-- `list.sort` on the keyed members: stable, ascending -/\n"
               "def pySort {α : Type} (kx : List (Rat × α)) : List α :=\n"
               "  (kx.mergeSort (fun a b => decide (a.1 ≤ b.1))).map (·.2)"),
    "pyDict": ("/-- An insertion-ordered `dict` is the list of its (key, value) items in insertion order; it is only built by\n"
               "`{}` (= `[]`) and `pyDictSet`, so every key occurs in one item.  `k in d`: -/\n"
               "def pyDictHas {κ β : Type} [DecidableEq κ] (d : List (κ × β)) (k : κ) : Bool := d.any (fun e => decide (e.1 = k))\n\n"
               "/-- `d[k]` (the value of the item with key `k`); `none` = KeyError -/\n"
               "def pyDictGet {κ β : Type} [DecidableEq κ] (d : List (κ × β)) (k : κ) : Option β :=\n"
               "  (d.find? (fun e => decide (e.1 = k))).map (·.2)\n\n"
               "/-- `d[k] = v`: the item with key `k` keeps its position and gets the value `v`; a new key is appended -/\n"
               "def pyDictSet {κ β : Type} [DecidableEq κ] (d : List (κ × β)) (k : κ) (v : β) : List (κ × β) :=\n"
               "  if pyDictHas d k then d.map (fun e => if e.1 = k then (e.1, v) else e) else d ++ [(k, v)]"),
    "pyBestLoop": ("/-- the scan of `min` / `max` with a key: `b` is the best member so far, `kb` its key -/\n"
                   "def pyBestLoop {α : Type} (better : Int → Int → Bool) (key : α → Option Int) : List α → α → Int → Option α\n"
                   "  | [], b, _ => some b\n"
                   "  | x :: xs, b, kb =>\n"
                   "    match key x with\n"
                   "    | none => none\n"
                   "    | some k => if better k kb then pyBestLoop better key xs x k else pyBestLoop better key xs b kb"),
    "pyMinBy": ("/-- `min(xs, key=f)`: the first member with the smallest key; `none` = ValueError (empty) or the key raised -/\n"
                "def pyMinBy {α : Type} (key : α → Option Int) : List α → Option α\n"
                "  | [] => none\n"
                "  | x :: xs =>\n"
                "    match key x with\n"
                "    | none => none\n"
                "    | some k => pyBestLoop (fun k kb => decide (k < kb)) key xs x k"),
    "pyMaxBy": ("/-- `max(xs, key=f)`: the first member with the largest key; `none` = ValueError (empty) or the key raised -/\n"
                "def pyMaxBy {α : Type} (key : α → Option Int) : List α → Option α\n"
                "  | [] => none\n"
                "  | x :: xs =>\n"
                "    match key x with\n"
                "    | none => none\n"
                "    | some k => pyBestLoop (fun k kb => decide (kb < k)) key xs x k"),
    "pySortInt": ("/-- `sorted` / `list.sort` on members keyed by integers: stable, ascending -/\n"
                  "def pySortInt {α : Type} (kx : List (Int × α)) : List α :=\n"
                  "  (kx.mergeSort (fun a b => decide (a.1 ≤ b.1))).map (·.2)"),
    "pySet": ("/-- `xs[k] = v` (or an in-place update of `xs[k]`) for a signed index; `none` = IndexError -/\n"
              "def pySet {α : Type} (xs : List α) (k : Int) (v : α) : Option (List α) :=\n"
              "  if 0 ≤ k then (if k.toNat < xs.length then some (xs.set k.toNat v) else none)\n"
              "  else if -(xs.length : Int) ≤ k then some (xs.set (xs.length + k).toNat v) else none"),
    "numOfInt": ("/-- a Python integer where a float is needed: converted exactly -/\n"
                 "def numOfInt {α : Type} [Artap.Num α] (z : Int) : α :=\n"
                 "  if 0 ≤ z then Artap.Num.ofNat z.toNat else Artap.Num.neg (Artap.Num.ofNat (-z).toNat)"),
    "pyDropFrom": ("/-- `xs[a:]` for a signed start (negative counts from the end, clipped at the front) -/\n"
                   "def pyDropFrom {α : Type} (xs : List α) (a : Int) : List α :=\n"
                   "  if 0 ≤ a then xs.drop a.toNat else xs.drop ((xs.length : Int) + a).toNat"),
    "pyDel": ("/-- `del xs[k]` for a signed index; `none` = IndexError -/\n"
              "def pyDel {α : Type} (xs : List α) (k : Int) : Option (List α) :=\n"
              "  if 0 ≤ k then (if k.toNat < xs.length then some (xs.eraseIdx k.toNat) else none)\n"
              "  else if -(xs.length : Int) ≤ k then some (xs.eraseIdx (xs.length + k).toNat) else none"),
}


# ----------------------------------------------------------------------------- front end

def find_function(tree, qual):
    parts = qual.split(".")
    body = tree.body
    node = None
    for i, p in enumerate(parts):
        hits = [n for n in body if isinstance(n, (ast.ClassDef, ast.FunctionDef)) and n.name == p]
        if len(hits) != 1:
            raise Unsupported("function %s: %d definitions of %s found" % (qual, len(hits), p))
        node = hits[0]
        body = node.body
    if not isinstance(node, ast.FunctionDef):
        raise Unsupported("%s is not a function" % qual)
    return node


class Rename(ast.NodeTransformer):
    def __init__(self, m):
        self.m = m

    def visit_Name(self, n):
        if n.id in self.m:
            return ast.copy_location(ast.Name(id=self.m[n.id], ctx=n.ctx), n)
        return n

    def visit_arg(self, n):
        if n.arg in self.m:
            n.arg = self.m[n.arg]
        return n


def normalise(fn, spec):
    """parameters -> the spec's canonical names (by position); locals -> v1, v2, ... in order of
    first assignment.  Returns the set of assigned names and of lists mutated in place."""
    for d in fn.decorator_list:
        if ast.unparse(d) not in ("staticmethod", "classmethod"):
            bad(d, "decorator")
    a = fn.args
    if a.vararg or a.kwarg or a.kwonlyargs or a.posonlyargs:
        bad(fn, "parameter kinds other than plain positional")
    names = [x.arg for x in a.args]
    canon = spec["py_params"]
    if len(names) != len(canon):
        bad(fn, "the function has %d parameters, the spec expects %d (%s)" % (len(names), len(canon), canon))
    if any(d is not None for d in a.defaults) and not spec.get("allow_defaults"):
        bad(fn, "parameter defaults")
    m = {}
    for old, new in zip(names, canon):
        if old != new:
            m[old] = "__p_" + new
    if m:
        Rename(m).visit(fn)
        Rename({"__p_" + c: c for c in canon}).visit(fn)
    allowed = set()
    if spec.get("fuel"):
        allowed.add(ast.While)                    # `while` needs an explicit fuel from the spec entry
    if spec.get("try") or spec.get("try_dropped"):
        allowed.add(ast.Try)                      # only the restricted oracle form, checked by the compiler
    ok_nodes = set()
    if spec.get("num"):
        allowed.add(ast.ListComp)                 # `[e for y in xs]` = List.map, checked by the compiler
    for n in ast.walk(fn):
        # `any(<expr> for x in xs)` / `all(...)`: exactly this generator-expression form
        if isinstance(n, ast.Call) and isinstance(n.func, ast.Name) and n.func.id in ("any", "all") \
                and len(n.args) == 1 and not n.keywords and isinstance(n.args[0], ast.GeneratorExp):
            ok_nodes.add(id(n.args[0]))
        # `xs.sort(key=lambda x: ...)`: only through a `sort` entry of the spec
        if isinstance(n, ast.Call) and isinstance(n.func, ast.Attribute) and n.func.attr == "sort" \
                and spec.get("sort") and len(n.keywords) == 1 and isinstance(n.keywords[0].value, ast.Lambda):
            ok_nodes.add(id(n.keywords[0].value))
        if isinstance(n, ast.Call) and isinstance(n.func, ast.Name) and n.func.id == "map" and len(n.args) == 3 \
                and isinstance(n.args[0], ast.Lambda) and not n.keywords:
            ok_nodes.add(id(n.args[0]))               # only inside list(map(lambda x, y: .., xs, ys)), checked by the compiler
        if isinstance(n, ast.Call) and isinstance(n.func, ast.Name) and n.func.id in ("sorted", "min", "max") \
                and spec.get("sort") and len(n.keywords) == 1 and isinstance(n.keywords[0].value, ast.Lambda):
            ok_nodes.add(id(n.keywords[0].value))
    for n in ast.walk(fn):
        if isinstance(n, (ast.ListComp, ast.SetComp, ast.DictComp, ast.GeneratorExp, ast.Lambda,
                          ast.FunctionDef, ast.While, ast.Try, ast.With, ast.Global, ast.Nonlocal,
                          ast.Yield, ast.YieldFrom, ast.Await, ast.NamedExpr, ast.Starred)) and n is not fn \
                and type(n) not in allowed and id(n) not in ok_nodes:
            bad(n, "construct outside the supported subset (%s)" % type(n).__name__)
    order = []

    def bindname(t):
        if isinstance(t, ast.Name):
            if t.id not in canon and t.id not in order:
                order.append(t.id)
        elif isinstance(t, (ast.Tuple, ast.List)):
            for e in t.elts:
                bindname(e)

    class Walk(ast.NodeVisitor):
        def visit_Assign(self, n):
            self.generic_visit(n)
            for t in n.targets:
                bindname(t)

        def visit_AugAssign(self, n):
            self.generic_visit(n)
            bindname(n.target)

        def visit_For(self, n):
            self.visit(n.iter)
            bindname(n.target)
            for s in n.body + n.orelse:
                self.visit(s)
    Walk().visit(fn)
    used = {n.id for n in ast.walk(fn) if isinstance(n, ast.Name)}
    lm = {}
    k = 0
    for x in order:
        k += 1
        while "v%d" % k in used and "v%d" % k not in order:
            k += 1
        lm[x] = "__v%d" % k
    Rename(lm).visit(fn)
    Rename({v: v[2:] for v in lm.values()}).visit(fn)
    state = spec.get("state", {})
    assigned, mutated = set(), set()
    for n in ast.walk(fn):
        tg = []
        if isinstance(n, ast.Assign):
            tg = n.targets
        elif isinstance(n, ast.AugAssign):
            tg = [n.target]
        for t in tg:
            key = ast.unparse(t)
            if key in state:
                assigned.add(state[key][0])
            elif isinstance(t, ast.Name):
                assigned.add(t.id)
        mt = None
        if isinstance(n, ast.Expr) and isinstance(n.value, ast.Call) and isinstance(n.value.func, ast.Attribute) \
                and n.value.func.attr in ("append", "remove", "extend", "insert", "pop", "sort", "reverse", "clear"):
            mt = n.value.func.value
        if isinstance(n, ast.Delete):
            for t in n.targets:
                if isinstance(t, ast.Subscript):
                    mt = t.value
        if isinstance(n, (ast.Assign, ast.AugAssign)):
            for t in tg:
                if isinstance(t, ast.Subscript):
                    mt = t.value
        if mt is not None:
            tkeys = {acc: ent[0][1:] for tb in spec.get("types", {}).values() for acc, ent in tb.items()
                     if ent[0].startswith("@")}
            while isinstance(mt, ast.Subscript) and ast.unparse(mt) not in state:
                if isinstance(mt.slice, ast.Constant) and "[%r]" % mt.slice.value in tkeys:
                    break
                mt = mt.value                        # xs[i].append(..) / xs[i] = .. mutate xs
            key = ast.unparse(mt)
            if isinstance(mt, ast.Subscript) and key not in state:
                x = tkeys["[%r]" % mt.slice.value]
            else:
                x = state[key][0] if key in state else (mt.id if isinstance(mt, ast.Name) else key)
            mutated.add(x)
            assigned.add(x)
    for tb in spec.get("tables", {}):
        assigned.add(tb)
    for gv in spec.get("ghost_state", {}):
        assigned.add(gv)
    for rv, _, _ in spec.get("fields", {}).values():
        assigned.add(rv)
    return assigned, mutated


def apply_ignore(fn, spec):
    """remove the statements that the spec entry explicitly ignores (exact source text after `ast.unparse`);
    an entry that matches nothing is an error"""
    raw = [t if isinstance(t, str) else t[0] for t in spec.get("ignore", [])]
    # an entry `re:<pattern>` is a regular expression that must match the whole unparsed statement
    # (used where the statement mentions local names, so that renaming a local stays harmless)
    texts = [t if t.startswith("re:") else ast.unparse(ast.parse(t)) for t in raw]
    hit = {}

    def match(u):
        for t in texts:
            if (t.startswith("re:") and re.fullmatch(t[3:], u)) or t == u:
                return t
        return None

    def clean(stmts):
        out = []
        for st in stmts:
            u = ast.unparse(st)
            if match(u) is not None:
                hit.setdefault(match(u), []).append(u)
                continue
            for fld in ("body", "orelse", "finalbody"):
                if isinstance(getattr(st, fld, None), list):
                    setattr(st, fld, clean(getattr(st, fld)) or ([ast.copy_location(ast.Pass(), st)] if fld == "body" else []))
            for h in getattr(st, "handlers", []):
                h.body = clean(h.body) or [ast.copy_location(ast.Pass(), h)]
            out.append(st)
        return out
    fn.body = clean(fn.body) or [ast.Pass()]
    for t in texts:
        if t not in hit:
            bad(fn, "statement that the spec entry ignores is not in the source: %s" % t.split("\n")[0])
    whys = [(sp_why if isinstance(e, str) else e[1]) for e in spec.get("ignore", [])
            for sp_why in [spec.get("ignore_why", "no reason given")]]
    return [(u, why) for t, why in zip(texts, whys) for u in hit[t]]


def blob_hash(data):
    return hashlib.sha1(b"blob %d\0" % len(data) + data).hexdigest()


def module_consts(tree):
    out = {}
    for n in tree.body:
        if isinstance(n, ast.Assign) and len(n.targets) == 1 and isinstance(n.targets[0], ast.Name) \
                and isinstance(n.value, ast.Constant) and isinstance(n.value.value, (int, float)) \
                and not isinstance(n.value.value, bool):
            out[n.targets[0].id] = n.value
    return out


def module_imports(tree):
    """local name -> what it is bound to by the module's import statements: `import numpy as np` -> {"np": "numpy"},
    `from numpy import exp` -> {"exp": "numpy.exp"}"""
    out = {}
    for n in tree.body:
        if isinstance(n, ast.Import):
            for a in n.names:
                if a.asname:
                    out[a.asname] = a.name
                elif "." not in a.name:
                    out[a.name] = a.name
        elif isinstance(n, ast.ImportFrom) and n.module and n.level == 0:
            for a in n.names:
                out[a.asname or a.name] = n.module + "." + a.name
    return out


NUM_DOC = [
    "floats are values of a carrier `α` with the operations of `Artap.Num` (Model/Num.lean): `+ - * /` and unary `-` are",
    "`Num.add/sub/mul/div/neg`, `a ** b` / `pow` / `math.pow` is `Num.pow a b`, numpy / math `cos sin exp sqrt abs fabs` are the class",
    "members, `pi` is `Num.pi`, `e` is `Num.exp (Num.ofNat 1)`.  A float literal is `Num.ofRat (m / 10^k)` for the decimal numeral",
    "m·10^-k that Python prints for it; a literal with a non-negative integral value k, `float(n)` and `len(..)` are natural numbers,",
    "and `+` / `*` between them and integers is natural-number arithmetic (exact below 2^53); an integer that meets a float is",
    "`Num.ofNat n` (Python converts it exactly).  ZeroDivisionError is `none` only where the divisor is such an integer; division",
    "by a float is `Num.div` (Python floats raise on 0, numpy floats give inf / nan: not represented, the theorems carry the",
    "hypothesis where they need it).  `<` on floats is the `lt` of the spec entry's order class.",
]


def generate(name, repo):
    """-> (text of Gen/<name>.lean, blob hash)"""
    from py2lean_specs import SPECS
    mod = SPECS[name]
    path = os.path.join(repo, mod["source"])
    with open(path, "rb") as f:
        data = f.read()
    blob = blob_hash(data)
    tree = ast.parse(data.decode("utf-8"), filename=path)
    consts = module_consts(tree)
    imports = module_imports(tree)
    helpers = []
    defs = []
    ignored = {}
    for spec in mod["functions"]:
        fn = find_function(tree, spec["py"])
        try:
            ignored[spec["py"]] = apply_ignore(fn, spec)
            assigned, mutated = normalise(fn, spec)
            c = Fn(spec, fn, consts)
            c.assigned, c.mutated, c.helpers = assigned, mutated, helpers
            c.imports = imports
            defs.append(c.compile_doc(mod["source"]))
            for t in spec.get("try_dropped", {}):
                if t not in getattr(c, "dropped_seen", set()):
                    bad(fn, "the handler `except %s` that the spec entry drops is not in the source" % t)
            if spec.get("knot"):
                defs.append(knot_def(spec))
        except Unsupported as e:
            raise Unsupported("%s %s: %s" % (mod["source"], spec["py"], e))
    out = ["/-", "GENERATED by tools/py2lean.py -- do not edit (overwritten on every run).",
           "source file : %s" % mod["source"],
           "git blob    : %s" % blob,
           "functions   : %s" % ", ".join(s["py"] for s in mod["functions"])]
    for sp in mod["functions"]:
        for t, why in ignored.get(sp["py"], []):
            out.append("ignored     : %s: `%s`  (%s)" % (sp["py"], " ".join(x.strip() for x in t.split("\n")), why))
        for t, v in sp.get("static", {}).items():
            out.append("specialised : %s: `%s` is %s" % (sp["py"], t, v))
        if sp.get("knot"):
            out.append("recursion   : %s: the function calls itself; it is compiled in open-recursion form (`%s`, the self-call is "
                       "its first parameter) and closed by `%s depth`: `depth` = the number of nested calls the interpreter "
                       "still allows, 0 = RecursionError = none" % (sp["py"], sp["lean"], sp["knot"]))
        if sp.get("int_is_int"):
            out.append("specialised : %s: `int(e)` is applied to integers only (the spec entry types the matrix entries as "
                       "integers), so it is the identity" % sp["py"])
        if sp.get("numpy_ints"):
            out.append("numpy       : %s: the bound numpy calls and what they are taken to mean are in the prelude below; a value of "
                       "type NpInt is a numpy integer: `a // b` on it is numpy's floor division (b = 0 gives 0 and a warning, no "
                       "exception) and `xs * a` repeats the list" % sp["py"])
        for t, why in sp.get("try_dropped", {}).items():
            out.append("dropped     : %s: the handler `except %s` (%s)" % (sp["py"], t, why))
        for t, why in sp.get("objects", {}).items():
            out.append("objects     : %s: values of `%s` stand for mutable objects; a loop that updates the members of a list "
                       "of them assumes the members are distinct objects (%s)" % (sp["py"], t, why))
        for k, t in enumerate(sp.get("fuel", [])):
            if isinstance(t, dict):
                out.append("fuel        : %s: every pass of while loop %d consumes one member of the oracle list `%s` "
                           "(its components are %s during the pass); the list running dry = none"
                           % (sp["py"], k + 1, t["stream"], ", ".join(pat_vars(t["pattern"]))))
                continue
            out.append("fuel        : %s: while loop %d runs on fuel `%s`; out of fuel = none" % (sp["py"], k + 1, t))
    if any(sp.get("num") for sp in mod["functions"]):
        out += [("numbers     : " if k == 0 else "              ") + t for k, t in enumerate(NUM_DOC)]
    out += ["-/"]
    out += ["import %s" % i for i in mod["imports"]]
    out += ["set_option linter.unusedVariables false", "", "namespace Artap.Gen.%s" % name]
    for o in mod.get("open", []):
        out.append("open %s" % o)
    out.append("")
    for h in helpers:
        out += [HELPERS[h], ""]
    if mod.get("prelude"):
        out += [mod["prelude"].strip("\n"), ""]      # type declarations of the spec (records the functions work on)
    out.append("\n\n".join(defs))
    out += ["", "end Artap.Gen.%s" % name, ""]
    return "\n".join(out), blob


def knot_def(spec):
    """A function that calls itself is compiled in open-recursion form: the spec routes the self-call through the
    parameter `rec` of `<lean>` (first parameter).  This definition closes the recursion: every call consumes one unit
    of `depth`, the interpreter's recursion budget; `0` = RecursionError = none.  That the budget suffices for a given
    argument is a hypothesis / theorem of the Tie file, never an assumption of the translator."""
    k = spec["knot"]
    args = spec["params"][1:]
    names = [a for a, _ in args]
    tys = " → ".join(tshow(t, False) for _, t in args)
    res = tshow(("Option", spec["result"][1] if spec.get("result") else spec["ret"]), False)
    if not spec.get("raises"):
        raise Unsupported("%s: a recursive function must be compiled with raises=True (RecursionError)" % spec["py"])
    return ("/-- `%s` with the recursion closed: `depth` is the number of nested calls the interpreter still allows\n"
            "(`sys.getrecursionlimit()` minus the current depth); running out is the RecursionError (`none`) -/\n"
            "def %s %s : Nat → %s → %s\n"
            "  | 0%s => none\n"
            "  | depth + 1%s => %s (%s depth) %s"
            % (spec["py"], k, spec.get("header", ""), tys, res, "".join(", _" for _ in names),
               "".join(", " + a for a in names), spec["lean"], k, " ".join(names)))


def compile_doc(self, source):
    text = self.compile()
    # doc comment on the main definition (the last one)
    head, sep, last = text.rpartition("\n\ndef ")
    doc = "/-- `%s` (%s) -/\n" % (self.s["py"], source)
    if sep:
        return head + "\n\n" + doc + "def " + last
    return doc + text


Fn.compile_doc = compile_doc


# ----------------------------------------------------------------------------- CLI

def gen_path(lean_dir, name):
    return os.path.join(lean_dir, "ArtapModel", "Gen", name + ".lean")


def tie_path(lean_dir, name):
    return os.path.join(lean_dir, "ArtapModel", "Tie", name + ".lean")


def do_gen(name, repo, lean_dir):
    text, blob = generate(name, repo)
    p = gen_path(lean_dir, name)
    os.makedirs(os.path.dirname(p), exist_ok=True)
    old = None
    if os.path.exists(p):
        with open(p, encoding="utf-8") as f:
            old = f.read()
    if old != text:
        with open(p, "w", encoding="utf-8") as f:
            f.write(text)
    return blob


ALLOWED_AXIOMS = {"propext", "Classical.choice", "Quot.sound"}
FORBIDDEN = re.compile(r"\bsorry\b|\badmit\b|^\s*axiom\s|native_decide|bv_decide|implemented_by|\bunsafe\s|maxHeartbeats\s+0\b", re.M)


def strip_comments(src):
    src = re.sub(r"/-.*?-/", "", src, flags=re.S)
    return re.sub(r"--.*", "", src)


def tie_theorems(lean_dir, name):
    with open(tie_path(lean_dir, name), encoding="utf-8") as f:
        src = strip_comments(f.read())
    ns = re.search(r"^namespace\s+(\S+)", src, re.M)
    pre = ns.group(1) + "." if ns else ""
    return [pre + m for m in re.findall(r"^\s*theorem\s+(tie_[A-Za-z0-9_']*)", src, re.M)], src


def do_tie(name, repo, lean_dir):
    from py2lean_specs import SPECS
    res = {"name": name, "generated": False, "tie_checks": False, "theorems": [], "source_blob": "",
           "serves": SPECS[name]["serves"], "detail": ""}
    try:
        for imp in SPECS[name]["imports"]:
            # a generated module that this one calls (e.g. Results -> Queries) is regenerated first
            if imp.startswith("ArtapModel.Gen.") and imp.split(".")[-1] in SPECS:
                do_gen(imp.split(".")[-1], repo, lean_dir)
        # a tie-only module (`gen_of`): theorems that compose another module's tie with model-level theorems; what is
        # regenerated is that module's Gen file
        gname = SPECS[name].get("gen_of", name)
        res["source_blob"] = do_gen(gname, repo, lean_dir)
        res["generated"] = True
    except Unsupported as e:
        res["detail"] = "py2lean: unsupported: %s" % e
        # leave a Gen file that cannot be mistaken for a translation of the current source
        return res
    except (OSError, SyntaxError) as e:
        res["detail"] = "py2lean: cannot read source: %s" % e
        return res
    if not os.path.exists(tie_path(lean_dir, name)):
        res["detail"] = "no Tie/%s.lean" % name
        return res
    thms, src = tie_theorems(lean_dir, name)
    res["theorems"] = thms
    with open(gen_path(lean_dir, gname), encoding="utf-8") as f:
        gsrc = strip_comments(f.read())
    m = FORBIDDEN.search(src) or FORBIDDEN.search(gsrc)
    if m:
        res["detail"] = "forbidden token %r" % m.group(0)
        return res
    r = subprocess.run(["lake", "build", "ArtapModel.Tie.%s" % name], cwd=lean_dir, capture_output=True, text=True)
    if r.returncode != 0:
        errs = [l for l in (r.stdout + r.stderr).splitlines() if "error" in l]
        res["detail"] = "lake build ArtapModel.Tie.%s failed: %s" % (name, " | ".join(errs[:3])[:600])
        return res
    if not thms:
        res["detail"] = "Tie file has no tie_ theorem"
        return res
    adir = os.path.join(lean_dir, ".lake", "audit")
    os.makedirs(adir, exist_ok=True)
    ap = os.path.join(adir, "Tie%s.lean" % name)
    with open(ap, "w", encoding="utf-8") as f:
        f.write("import ArtapModel.Tie.%s\n" % name + "".join("#print axioms %s\n" % t for t in thms))
    r = subprocess.run(["lake", "env", "lean", ap], cwd=lean_dir, capture_output=True, text=True)
    out = r.stdout + r.stderr
    if r.returncode != 0:
        res["detail"] = "axiom audit failed: %s" % out[:400]
        return res
    seen = {}
    for m in re.finditer(r"'([^']+)' depends on axioms: \[([^\]]*)\]", out.replace("\n", " ")):
        seen[m.group(1)] = {a.strip() for a in m.group(2).split(",") if a.strip()}
    for m in re.finditer(r"'([^']+)' does not depend on any axioms", out):
        seen[m.group(1)] = set()
    badax = {t: sorted(a - ALLOWED_AXIOMS) for t, a in seen.items() if a - ALLOWED_AXIOMS}
    missing = [t for t in thms if t not in seen]
    if badax or missing:
        res["detail"] = "axiom audit: %s %s" % (badax, missing)
        return res
    res["tie_checks"] = True
    res["detail"] = "%d tie theorem(s) re-checked against the definitions generated from blob %s" % (
        len(thms), res["source_blob"][:12])
    return res


def main():
    from py2lean_specs import SPECS
    ap = argparse.ArgumentParser()
    ap.add_argument("--gen")
    ap.add_argument("--tie")
    ap.add_argument("--all", action="store_true")
    ap.add_argument("--list", action="store_true")
    ap.add_argument("--stdout", action="store_true", help="with --gen: print instead of writing")
    ap.add_argument("--lean-dir", default=os.environ.get("PY2LEAN_LEAN_DIR", os.path.join(VERIF, "lean")))
    a = ap.parse_args()
    repo = os.environ.get("REPO", "/repo")
    if a.list:
        for name, mod in SPECS.items():
            print("%-10s %-28s serves %-22s %s" % (name, mod["source"], ",".join(mod["serves"]),
                                                  "; ".join(s["py"] for s in mod["functions"])))
        return 0
    if a.gen:
        if a.gen not in SPECS:
            print("py2lean: unknown name %s" % a.gen, file=sys.stderr)
            return 2
        gname = SPECS[a.gen].get("gen_of", a.gen)      # tie-only module: its generated file is another module's
        try:
            if a.stdout:
                sys.stdout.write(generate(gname, repo)[0])
            else:
                do_gen(gname, repo, a.lean_dir)
        except Unsupported as e:
            print("py2lean: unsupported: %s" % e, file=sys.stderr)
            return 3
        return 0
    names = list(SPECS) if a.all else ([a.tie] if a.tie else [])
    if not names:
        ap.print_usage()
        return 2
    for nm in names:
        if nm not in SPECS:
            print("py2lean: unknown name %s" % nm, file=sys.stderr)
            return 2
        print(json.dumps(do_tie(nm, repo, a.lean_dir), ensure_ascii=False))
    return 0


if __name__ == "__main__":
    sys.exit(main())
