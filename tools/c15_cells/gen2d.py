from fractions import Fraction as F
import math, sys
terms=[(F(7,10),F(18,100),1,1),(F(75,100),F(32,100),1,3),(F(1),F(2),3,1),(F(12,10),F(32,100),3,4),(F(1),F(72,100),5,2)]
lit={F(7,10):"(7/10)",F(18,100):"(18/100)",F(75,100):"(75/100)",F(32,100):"(32/100)",F(2):"2",F(12,10):"(12/10)",F(72,100):"(72/100)"}
B=F(121112,100000)+F(1,1000)
def P(t,n):
    s=F(0);term=F(1)
    for k in range(n):
        s+=term; term=term*t/(k+1)
    return s
def ceilq(v,q=10**6):
    return F(-((-v.numerator*q)//v.denominator),q)
cache={}
def ub(t):
    """(n, U) with exp(-t) <= 1/P_n(t) <= U"""
    if t==0: return (1,F(1))
    if t>=14: return (0,F(1,10**6))
    if t not in cache:
        target=math.exp(-float(t))
        for n in [2,3,4,5,6,8,10,12,14,16,20,24,30,40]:
            u=ceilq(1/P(t,n))
            if u<=target*1.01+3e-6: break
        cache[t]=(n,u)
    return cache[t]
def dist(a,b,c):
    if a is not None and c<=a: return F(a)-c
    if b is not None and c>=b: return c-F(b)
    return F(0)
def cellterms(xa,xb,ya,yb):
    out=[]
    for m,w,cx,cy in terms:
        t=(dist(xa,xb,cx)**2+dist(ya,yb,cy)**2)/w
        out.append(ub(t))
    return out
def cellbound(node):
    return sum(m*u for (m,w,cx,cy),(n,u) in zip(terms,cellterms(*node)))
def q(v):
    v=F(v)
    s=str(v.numerator) if v.denominator==1 else f"{v.numerator}/{v.denominator}"
    return f"({s})"
out=[]
cnt=[0,0]
Bs="(121212 / 100000 : ℝ)"
def hyps(node):
    xa,xb,ya,yb=node
    hs=[]
    if xa is not None: hs.append(("hxa",f"{q(xa)} ≤ x"))
    if xb is not None: hs.append(("hxb",f"x ≤ {q(xb)}"))
    if ya is not None: hs.append(("hya",f"{q(ya)} ≤ y"))
    if yb is not None: hs.append(("hyb",f"y ≤ {q(yb)}"))
    return hs
def sig(name,node):
    return f"theorem {name} (x y : ℝ) "+" ".join(f"({n} : {t})" for n,t in hyps(node))+f" :\n    synthetic2D x y ≤ {Bs} := by"
def part(a,b,c,var,ha,hb):
    if a is not None and c<=a: return f"(sq_lb_left {q(a)} {c} {var} {ha} (by norm_num))"
    if b is not None and c>=b: return f"(sq_lb_right {q(b)} {c} {var} {hb} (by norm_num))"
    return "(sq_nonneg _)"
def leaf(node):
    cnt[0]+=1
    name=f"syn2_cell{cnt[0]}"
    xa,xb,ya,yb=node
    L=[sig(name,node),"  rw [synthetic2D_at]"]
    us=cellterms(*node)
    for i,((m,w,cx,cy),(n,u)) in enumerate(zip(terms,us)):
        px=part(xa,xb,cx,"x","hxa","hxb"); py=part(ya,yb,cy,"y","hya","hyb")
        ex=f"(exp_neg_le_of_poly {n} _ {q(u)} (by norm_num) (by norm_num [Finset.sum_range_succ, Nat.factorial]))"
        if n==0:
            if m==1: L.append(f"  have t{i+1} := gauss2_far_one {lit[w]} {cx} {cy} x y _ _ (by norm_num) {px} {py} (by norm_num)")
            else: L.append(f"  have t{i+1} := gauss2_far {lit[m]} {lit[w]} {cx} {cy} x y _ _ (by norm_num) (by norm_num) {px} {py} (by norm_num)")
        elif m==1:
            L.append(f"  have t{i+1} := gauss2_le_one {lit[w]} {cx} {cy} x y _ _ _ (by norm_num) {px} {py}\n    {ex}")
        else:
            L.append(f"  have t{i+1} := gauss2_le {lit[m]} {lit[w]} {cx} {cy} x y _ _ _ (by norm_num) (by norm_num) {px} {py}\n    {ex}")
    L.append("  linarith")
    out.append("\n".join(L))
    return name
def splitpoint(node):
    xa,xb,ya,yb=node
    if xa is None and xb is None: return ('x',F(-1))
    if xb is None and xa==-1: return ('x',F(7))
    if xa is None or xb is None: raise Exception(node)
    if ya is None and yb is None: return ('y',F(-2))
    if yb is None and ya==-2: return ('y',F(6))
    if ya is None or yb is None: raise Exception(node)
    if (xb-xa)>=(yb-ya): return ('x',(xa+xb)/2)
    return ('y',(ya+yb)/2)
def call(name,node,sub):
    # sub: dict hypname->term
    return f"{name} x y "+" ".join(sub.get(n,n) for n,_ in hyps(node))
def gen(node):
    xa,xb,ya,yb=node
    finite_or_outer = True
    try:
        ok = cellbound(node)<=B
    except Exception: ok=False
    if ok: return leaf(node)
    v,m=splitpoint(node)
    if v=='x':
        l=(xa,m,ya,yb); r=(m,xb,ya,yb); hl,hr="hxb","hxa"
    else:
        l=(xa,xb,ya,m); r=(xa,xb,m,yb); hl,hr="hyb","hya"
    nl=gen(l); nr=gen(r)
    cnt[1]+=1
    name=f"syn2_node{cnt[1]}"
    L=[sig(name,node),f"  rcases le_total {v} {q(m)} with h | h",
       f"  · exact {call(nl,l,{hl:'h'})}",f"  · exact {call(nr,r,{hr:'h'})}"]
    out.append("\n".join(L))
    return name
root=gen((None,None,None,None))
print("-- cells",cnt, file=sys.stderr)
out.append(f"""/-- **bound clause of Synthetic2D** (maximised): no real point has a value above the documented maximum 1.21112
by more than the documented precision 10⁻³ -/
theorem synthetic2D_le (x y : ℝ) : synthetic2D x y ≤ 121112 / 100000 + 1 / 1000 := by
  have := {root} x y
  linarith""")
open('gen2d.lean','w').write("/-! ### Synthetic2D: the bisection tree -/\n\n"+"\n\n".join(out)+"\n")
