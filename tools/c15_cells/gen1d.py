from fractions import Fraction as F
import math, sys
# (m, c, w) with the literal spelling of synthetic1D_at
T=[("1","1","(1/2)"),("2","(125/100)","(45/1000)"),("(1/2)","(15/10)","(128/10000)"),("2","(16/10)","(5/1000)"),
("(25/10)","(18/10)","(2/100)"),("(25/10)","(22/10)","(2/100)"),("2","(24/10)","(5/1000)"),("2","(275/100)","(45/1000)"),
("1","3","(1/2)"),("2","6","(32/100)"),("(22/10)","7","(18/100)"),("(24/10)","8","(1/2)"),("(23/10)","(95/10)","(1/2)"),
("(32/10)","11","(18/100)"),("(12/10)","12","(18/100)")]
val=lambda s: F(s.strip("()"))
B=F(3231,1000); Bs="(3231 / 1000 : ℝ)"
FAR=14
def P(t,n):
    s=F(0);term=F(1)
    for k in range(n):
        s+=term; term=term*t/(k+1)
    return s
def ceilq(v,q=10**6): return F(-((-v.numerator*q)//v.denominator),q)
cache={}
def ub(t):
    if t==0: return (1,F(1))
    if t>=FAR: return (0,F(1,10**6))
    if t not in cache:
        target=math.exp(-float(t))
        for n in [2,3,4,5,6,7,8,9,10,12,14,16,18,20,24,28,32,40,50]:
            u=ceilq(1/P(t,n))
            if u<=target*(1+1e-5)+2e-6: break
        else: raise Exception(t)
        cache[t]=(n,u)
    return cache[t]
def dist(a,b,c):
    if a is not None and c<=a: return F(a)-c
    if b is not None and c>=b: return c-F(b)
    return F(0)
def cellterms(a,b): return [ub(dist(a,b,val(c))**2/val(w)) for m,c,w in T]
def cellbound(a,b): return sum(val(m)*u for (m,c,w),(n,u) in zip(T,cellterms(a,b)))
def q(v):
    v=F(v); s=str(v.numerator) if v.denominator==1 else f"{v.numerator}/{v.denominator}"
    return f"({s})"
out=[];cnt=[0,0]
def hyps(node):
    a,b=node; hs=[]
    if a is not None: hs.append(("hxa",f"{q(a)} ≤ x"))
    if b is not None: hs.append(("hxb",f"x ≤ {q(b)}"))
    return hs
def sig(name,node):
    return f"theorem {name} (x : ℝ) "+" ".join(f"({n} : {t})" for n,t in hyps(node))+f" : synthetic1D x ≤ {Bs} := by"
def part(a,b,c):
    cv=val(c)
    if a is not None and cv<=a: return f"(sq_lb_left {q(a)} {c} x hxa (by norm_num))"
    if b is not None and cv>=b: return f"(sq_lb_right {q(b)} {c} x hxb (by norm_num))"
    return "(sq_nonneg _)"
def leaf(node):
    cnt[0]+=1; name=f"syn1_cell{cnt[0]}"; a,b=node
    L=[sig(name,node),"  rw [synthetic1D_at]"]
    for i,((m,c,w),(n,u)) in enumerate(zip(T,cellterms(a,b))):
        px=part(a,b,c)
        if n==0:
            if m=="1": L.append(f"  have t{i+1} := gauss1_far_one {w} {c} x _ (by norm_num) {px} (by norm_num)")
            else: L.append(f"  have t{i+1} := gauss1_far {m} {w} {c} x _ (by norm_num) (by norm_num) {px} (by norm_num)")
        else:
            ex=f"(exp_neg_le_of_poly {n} _ {q(u)} (by norm_num) (by norm_num [Finset.sum_range_succ, Nat.factorial]))"
            if m=="1": L.append(f"  have t{i+1} := gauss1_le_one {w} {c} x _ _ (by norm_num) {px}\n    {ex}")
            else: L.append(f"  have t{i+1} := gauss1_le {m} {w} {c} x _ _ (by norm_num) (by norm_num) {px}\n    {ex}")
    L.append("  linarith"); out.append("\n".join(L)); return name
def splitpoint(node):
    a,b=node
    if a is None and b is None: return F(-1)
    if b is None and a==-1: return F(15)
    return (a+b)/2
def call(name,node,sub): return f"{name} x "+" ".join(sub.get(n,n) for n,_ in hyps(node))
def gen(node):
    a,b=node
    if cellbound(a,b)<=B: return leaf(node)
    m=splitpoint(node); l=(a,m); r=(m,b)
    nl=gen(l); nr=gen(r); cnt[1]+=1; name=f"syn1_node{cnt[1]}"
    out.append("\n".join([sig(name,node),f"  rcases le_total x {q(m)} with h | h",
       f"  · exact {call(nl,l,{'hxb':'h'})}",f"  · exact {call(nr,r,{'hxa':'h'})}"]))
    return name
root=gen((None,None))
print("-- cells",cnt,file=sys.stderr)
out.append(f"""/-- **bound clause of Synthetic1D** (maximised): no real point has a value above the documented maximum 3.23 by
more than the documented precision 10⁻³ (the supremum is ≈ 3.23034 at x ≈ 10.99703) -/
theorem synthetic1D_le (x : ℝ) : synthetic1D x ≤ 323 / 100 + 1 / 1000 := by
  have := {root} x
  linarith""")
open('gen1d.lean','w').write("/-! ### Synthetic1D: the bisection tree -/\n\n"+"\n\n".join(out)+"\n")
