from fractions import Fraction as F
import itertools, math, sys
T5=[("3/10","7/10",["10","1","6","7","8"]),("4/10","75/100",["1","3","8","95/10","2"]),("1","1",["3","1","3","2","5"]),
("4/10","12/10",["3","4","13/10","5","5"]),("6/10","1",["5","2","96/10","73/10","86/10"]),("5/10","6/10",["75/10","8","9","32/10","46/10"]),
("1/10","5/10",["57/10","93/10","22/10","84/10","71/10"]),("1","2/10",["55/10","72/10","58/10","23/10","45/10"]),
("2/10","4/10",["47/10","32/10","55/10","71/10","33/10"]),("3/10","1/10",["97/10","84/10","6/10","32/10","85/10"])]
T10=[(w,m,z+z) for w,m,z in T5]
T10[0]=("3/10","7/10",["10","1","6","7","8","1","1","6","7","8"])
def gen(tag,T,nd):
    xs=[f"x{j+1}" for j in range(nd)]
    X=" ".join(xs)
    out=[]
    def tk(k):
        w,m,z=T[k]
        return "("+" + ".join(f"({x} - {c}) ^ 2" for x,c in zip(xs,z))+f") / ({w})"
    # pair lemmas
    cs={}
    for a,b in itertools.combinations(range(len(T)),2):
        wa,ma,za=T[a]; wb,mb,zb=T[b]
        D2=sum((F(p)-F(q))**2 for p,q in zip(za,zb)); L=D2/(F(wa)+F(wb))
        c=14 if 3 in (a,b) else 10
        assert L>=c,(a,b,float(L))
        cs[(a,b)]=c
        hints=", ".join(f"sq_nonneg (({wb}) * ({x} - {p}) + ({wa}) * ({x} - {q}))" for x,p,q in zip(xs,za,zb))
        out.append(f"theorem {tag}_pair_{a}_{b} ({X} : ℝ) :\n    ({c} : ℝ) ≤ {tk(a)} + {tk(b)} := by\n  linarith [{hints}]")
    return out,cs
o5,c5=gen("syn5",T5,5)
open('gen5d_pairs.lean','w').write("\n\n".join(o5)+"\n")
o10,c10=gen("syn10",T10,10)
open('gen10d_pairs.lean','w').write("\n\n".join(o10)+"\n")

# ---------- abstract lemma ----------
ms=[m for w,m,z in T5]
K=len(ms)
L=[]
L.append('''/-! ## Synthetic5D / Synthetic10D (maximised): nothing above the documented maximum 1.2 by more than 10⁻³

Ten Gaussians `mₖ·exp(−tₖ)`, `tₖ = |x − zₖ|²/wₖ`.  For two centres `tₐ + t_b ≥ |zₐ − z_b|²/(wₐ + w_b)` at every point
(per coordinate `(x−a)²/wₐ + (x−b)²/w_b − (a−b)²/(wₐ+w_b) = (w_b(x−a) + wₐ(x−b))²/(wₐw_b(wₐ+w_b))`), which is at least
14 for the pairs with the highest peak (index 3, `m = 1.2`) and at least 10 for all others.  So at most one term has
`tₖ < 2`; if it is the highest peak all others have `t ≥ 12` (`exp ≤ 10⁻⁵`), if it is another one (`m ≤ 1`) all
others have `t ≥ 8` (`exp ≤ 3.4·10⁻⁴`), and if there is none the sum is at most `6.45·exp(−2) < 0.88`. -/

theorem exp_neg_two_le : Real.exp (-2) ≤ 1354 / 10000 :=
  exp_neg_le_of_poly 12 2 _ (by norm_num) (by norm_num [Finset.sum_range_succ, Nat.factorial])
theorem exp_neg_le_of_two_le (t : ℝ) (h : 2 ≤ t) : Real.exp (-t) ≤ 1354 / 10000 :=
  le_trans (Real.exp_le_exp.2 (by linarith)) exp_neg_two_le
theorem exp_neg_le_of_eight_le (t : ℝ) (h : 8 ≤ t) : Real.exp (-t) ≤ 34 / 100000 := by
  have e : Real.exp (-((4 : ℕ) : ℝ) * 2) = Real.exp (-2) ^ 4 := by
    rw [← Real.exp_nat_mul]; congr 1; push_cast; ring
  calc Real.exp (-t) ≤ Real.exp (-((4 : ℕ) : ℝ) * 2) := Real.exp_le_exp.2 (by push_cast; linarith)
    _ = Real.exp (-2) ^ 4 := e
    _ ≤ (1354 / 10000) ^ 4 := pow_le_pow_left₀ (Real.exp_nonneg _) exp_neg_two_le 4
    _ ≤ 34 / 100000 := by norm_num
theorem exp_neg_le_of_twelve_le (t : ℝ) (h : 12 ≤ t) : Real.exp (-t) ≤ 1 / 100000 := by
  have e : Real.exp (-((6 : ℕ) : ℝ) * 2) = Real.exp (-2) ^ 6 := by
    rw [← Real.exp_nat_mul]; congr 1; push_cast; ring
  calc Real.exp (-t) ≤ Real.exp (-((6 : ℕ) : ℝ) * 2) := Real.exp_le_exp.2 (by push_cast; linarith)
    _ = Real.exp (-2) ^ 6 := e
    _ ≤ (1354 / 10000) ^ 6 := pow_le_pow_left₀ (Real.exp_nonneg _) exp_neg_two_le 6
    _ ≤ 1 / 100000 := by norm_num
theorem exp_neg_le_one_of_nonneg (t : ℝ) (h : 0 ≤ t) : Real.exp (-t) ≤ 1 := by
  rw [Real.exp_le_one_iff]; linarith
''')
ts=" ".join(f"t{k}" for k in range(K))
hy=[]
for a,b in itertools.combinations(range(K),2):
    c=14 if 3 in (a,b) else 10
    hy.append(f"(h{a}_{b} : {c} ≤ t{a} + t{b})")
nn=" ".join(f"(n{k} : 0 ≤ t{k})" for k in range(K))
total=" + ".join(f"Real.exp (-t{k}) * ({ms[k]})" for k in range(K))
S=[f"/-- the abstract step: pairwise separated exponents, at most one term is not negligible -/\ntheorem atoms10_le ({ts} : ℝ) {nn}\n    "+" ".join(hy)+f" :\n    {total} ≤ 1201 / 1000 := by"]
def hname(a,b): return f"h{min(a,b)}_{max(a,b)}"
for a in range(K):
    S.append(f"  by_cases a{a} : t{a} < 2")
    lines=[f"have p{a} := exp_neg_le_one_of_nonneg t{a} n{a}"]
    for b in range(K):
        if b==a: continue
        if 3 in (a,b): lines.append(f"have p{b} := exp_neg_le_of_twelve_le t{b} (by linarith [{hname(a,b)}])")
        else: lines.append(f"have p{b} := exp_neg_le_of_eight_le t{b} (by linarith [{hname(a,b)}])")
    lines.append("linarith")
    S.append("  · "+"\n    ".join(lines))
lines=[f"have p{k} := exp_neg_le_of_two_le t{k} (not_lt.1 a{k})" for k in range(K)]+["linarith"]
S.append("  · "+"\n    ".join(lines))
L.append("\n".join(S))
open('gen_atoms.lean','w').write("\n".join(L)+"\n")

def final(tag,T,nd,fam,tbl,cs):
    xs=[f"x{j+1}" for j in range(nd)]
    X=" ".join(xs); lst="["+", ".join(xs)+"]"
    def tk(k):
        w,m,z=T[k]
        return "("+" + ".join(f"({x} - {c}) ^ 2" for x,c in zip(xs,z))+f") / ({w})"
    out=[]
    out.append(f"theorem {tag}_atom (w m : ℚ) (zs : List ℚ) ({X} : ℝ) (T : ℝ)\n    (hT : (({lst}.zip zs).map (fun p => (p.1 - (p.2 : ℝ)) ^ 2)).sum / (w : ℝ) = T) :\n    atomNd w m {lst} zs = Real.exp (-T) * (m : ℝ) := by\n  rw [atomNd_real, hT]")
    S=[f"/-- **bound clause of {fam}** (maximised), for every real point with {nd} coordinates -/\ntheorem {tag}_le ({X} : ℝ) (v : ℝ) (hv : eval .{fam} {lst} = some v) : v ≤ 12 / 10 + 1 / 1000 := by",
       f"  have hl : ({lst} : List ℝ).length ≤ {nd} := by simp",
       f"  simp only [eval, if_pos hl] at hv",
       f"  rw [{tbl}, atomSum_real] at hv",
       f"  simp only [List.map_cons, List.map_nil, List.sum_cons, List.sum_nil, Option.some.injEq] at hv",
       f"  subst hv"]
    for k,(w,m,z) in enumerate(T):
        zl="["+", ".join(z)+"]"
        S.append(f"  have e{k} := {tag}_atom ({w}) ({m}) {zl} {X} ({tk(k)}) (by\n    simp only [List.zip_cons_cons, List.zip_nil_right, List.map_cons, List.map_nil, List.sum_cons, List.sum_nil]\n    push_cast; ring)")
    S.append("  rw ["+", ".join(f"e{k}" for k in range(len(T)))+"]")
    args=" ".join(f"({tk(k)})" for k in range(len(T)))
    nns=" ".join("(by positivity)" for k in range(len(T)))
    prs=" ".join(f"({tag}_pair_{a}_{b} {X})" for a,b in itertools.combinations(range(len(T)),2))
    S.append(f"  have key := atoms10_le {args}\n    {nns}\n    {prs}")
    S.append("  push_cast at key ⊢\n  linarith")
    out.append("\n".join(S))
    return "\n\n".join(out)+"\n"
open('gen5d_final.lean','w').write(final("syn5",T5,5,"synthetic5D","synthetic5DTable",c5))
open('gen10d_final.lean','w').write(final("syn10",T10,10,"synthetic10D","synthetic10DTable",c10))
