"""Edits applied by tools/py2lean_selftest.py: (function, kind, description, [(old, new[, n-th occurrence])])."""

import ast
import re


def rename_in(qual, mapping):
    """edit: rename identifiers (whole words) inside the named function only"""
    def run(src):
        tree = ast.parse(src)
        body = tree.body
        node = None
        for part in qual.split("."):
            node = [n for n in body if isinstance(n, (ast.ClassDef, ast.FunctionDef)) and n.name == part][0]
            body = node.body
        lines = src.split("\n")
        for k in range(node.lineno - 1, node.end_lineno):
            for a, b in mapping.items():
                lines[k] = re.sub(r"(?<![A-Za-z0-9_'\"])%s(?![A-Za-z0-9_'\"])" % re.escape(a), b, lines[k])
        return "\n".join(lines)
    return run


MUTATIONS = {
    "Dominance": {
        "source": "artap/operators.py",
        "edits": [
            # ---------------- ParetoDominance.compare (second copy of the shared marker block)
            ("ParetoDominance.compare", "break", ">= instead of > in the scan",
             [("            if p_costs > q_costs:", "            if p_costs >= q_costs:")]),
            ("ParetoDominance.compare", "break", "first branch sets the wrong flag",
             [("            if p_costs > q_costs:\n                dominate_q = True",
               "            if p_costs > q_costs:\n                dominate_p = True")]),
            ("ParetoDominance.compare", "break", "final verdict 1/2 swapped",
             [("        if dominate_q == dominate_p:\n            return 0\n        elif dominate_p:\n            return 1",
               "        if dominate_q == dominate_p:\n            return 0\n        elif dominate_p:\n            return 2")]),
            ("ParetoDominance.compare", "break", "abs dropped from the marker comparison",
             [("            elif abs(p[-1]) < abs(q[-1]):", "            elif p[-1] < q[-1]:", 2)]),
            ("ParetoDominance.compare", "break", "feasible p loses",
             [("            if p[-1] == 0:\n                return 1", "            if p[-1] == 0:\n                return 2", 2)]),
            ("ParetoDominance.compare", "break", "marker compared as a cost (zip over whole vectors)",
             [("        for (p_costs, q_costs) in zip(p[:-1], q[:-1]):", "        for (p_costs, q_costs) in zip(p, q):")]),
            ("ParetoDominance.compare", "break", "early `return 0` removed from the second branch",
             [("                dominate_p = True\n                if dominate_q:\n                    return 0\n\n        if dominate_q == dominate_p",
               "                dominate_p = True\n\n        if dominate_q == dominate_p")]),
            ("ParetoDominance.compare", "harmless", "locals renamed",
             [("dominate_p", "dom_first", 0), ("dominate_q", "dom_second", 0),
              ("p_costs", "a", 0), ("q_costs", "b", 0)]),
            ("ParetoDominance.compare", "harmless", "flag initialisations reordered",
             [("        dominate_p = False\n        dominate_q = False\n\n        for (p_costs",
               "        dominate_q = False\n        dominate_p = False\n\n        for (p_costs")]),
            ("ParetoDominance.compare", "harmless", "a > b written as b < a",
             [("            if p_costs > q_costs:", "            if q_costs < p_costs:")]),
            ("ParetoDominance.compare", "harmless", "final test written dominate_p == dominate_q",
             [("        if dominate_q == dominate_p:", "        if dominate_p == dominate_q:")]),
            ("ParetoDominance.compare", "harmless", "the two exclusive loop branches swapped",
             [("            if p_costs > q_costs:\n                dominate_q = True\n                if dominate_p:\n                    return 0\n"
               "            elif q_costs > p_costs:\n                dominate_p = True\n                if dominate_q:\n                    return 0\n",
               "            if q_costs > p_costs:\n                dominate_p = True\n                if dominate_q:\n                    return 0\n"
               "            elif p_costs > q_costs:\n                dominate_q = True\n                if dominate_p:\n                    return 0\n")]),
            # ---------------- EpsilonDominance.compare (first copy)
            ("EpsilonDominance.compare", "break", "zero epsilon replaced by 1e-6 instead of 1e-3",
             [("                epsilon = 1e-3", "                epsilon = 1e-6")]),
            ("EpsilonDominance.compare", "break", "zero-epsilon replacement removed",
             [("            if epsilon == 0:\n                epsilon = 1e-3\n", "")]),
            ("EpsilonDominance.compare", "break", "epsilons indexed without the modulo",
             [("            epsilon = float(self.epsilons[i % len(self.epsilons)])\n            if epsilon == 0:",
               "            epsilon = float(self.epsilons[i])\n            if epsilon == 0:")]),
            ("EpsilonDominance.compare", "break", "tie-break uses <= instead of <",
             [("            if dist1 < dist2:", "            if dist1 <= dist2:")]),
            ("EpsilonDominance.compare", "break", "second distance accumulates the first vector",
             [("                dist2 += math.pow(q_costs - i2 * epsilon, 2.0)", "                dist2 += math.pow(p_costs - i2 * epsilon, 2.0)")]),
            ("EpsilonDominance.compare", "break", "tie-break entered when only one flag is clear",
             [("        if not dominate_p and not dominate_q:", "        if not dominate_p or not dominate_q:")]),
            ("EpsilonDominance.compare", "break", "scaled comparison multiplies instead of divides",
             [("            p_eps = p_costs / epsilon", "            p_eps = p_costs * epsilon")]),
            ("EpsilonDominance.compare", "harmless", "locals renamed",
             [("epsilon = ", "e_i = ", 0), ("/ epsilon", "/ e_i", 0), ("* epsilon", "* e_i", 0), ("if epsilon == 0", "if e_i == 0", 0),
              ("p_eps", "ps", 0), ("q_eps", "qs", 0), ("dist1", "d_first", 0), ("dist2", "d_second", 0)]),
            ("EpsilonDominance.compare", "harmless", "distance initialisations reordered",
             [("            dist1 = 0.0\n            dist2 = 0.0", "            dist2 = 0.0\n            dist1 = 0.0")]),
            ("EpsilonDominance.compare", "harmless", "independent scaling statements reordered",
             [("            p_eps = p_costs / epsilon\n            q_eps = q_costs / epsilon",
               "            q_eps = q_costs / epsilon\n            p_eps = p_costs / epsilon")]),
            ("EpsilonDominance.compare", "harmless", "independent accumulations reordered",
             [("                dist1 += math.pow(p_costs - i1 * epsilon, 2.0)\n                dist2 += math.pow(q_costs - i2 * epsilon, 2.0)",
               "                dist2 += math.pow(q_costs - i2 * epsilon, 2.0)\n                dist1 += math.pow(p_costs - i1 * epsilon, 2.0)")]),
            ("EpsilonDominance.compare", "harmless", "parameters renamed",
             [rename_in("EpsilonDominance.compare", {"p": "first", "q": "second"})]),
            ("ParetoDominance.compare", "harmless", "parameters renamed",
             [rename_in("ParetoDominance.compare", {"p": "x", "q": "y"})]),
        ],
    },
    "Selection": {
        "source": "artap/operators.py",
        "edits": [
            ("nondominated_cmp", "break", "smaller crowding distance preferred (minus signs dropped)",
             [("        if -p.features['crowding_distance'] < -q.features['crowding_distance']:",
               "        if p.features['crowding_distance'] < q.features['crowding_distance']:")]),
            ("nondominated_cmp", "break", "smaller front number loses",
             [("        if p.features['front_number'] < q.features['front_number']:\n            return -1",
               "        if p.features['front_number'] < q.features['front_number']:\n            return 1")]),
            ("nondominated_cmp", "break", "crowding decides whenever p's front is not larger",
             [("    if p.features['front_number'] == q.features['front_number']:",
               "    if p.features['front_number'] <= q.features['front_number']:")]),
            ("nondominated_cmp", "break", "ties on crowding reported as -1",
             [("            return 1\n        else:\n            return 0\n    else:", "            return 1\n        else:\n            return -1\n    else:")]),
            ("nondominated_cmp", "harmless", "parameters renamed",
             [rename_in("nondominated_cmp", {"p": "x", "q": "y"})]),
            ("nondominated_cmp", "harmless", "a > b written as b < a",
             [("        elif -p.features['crowding_distance'] > -q.features['crowding_distance']:",
               "        elif -q.features['crowding_distance'] < -p.features['crowding_distance']:")]),
            ("TournamentSelector.select", "break", "better front loses",
             [("            if candidates[0].features['front_number'] < candidates[1].features['front_number']:\n                return candidates[0]",
               "            if candidates[0].features['front_number'] < candidates[1].features['front_number']:\n                return candidates[1]")]),
            ("TournamentSelector.select", "break", "dominating candidate loses",
             [("            if flag == 1:\n                selected = candidates[0]", "            if flag == 1:\n                selected = candidates[1]")]),
            ("TournamentSelector.select", "break", "front-number test removed",
             [("            if candidates[0].features['front_number'] < candidates[1].features['front_number']:\n                return candidates[0]\n"
               "            elif candidates[1].features['front_number'] < candidates[0].features['front_number']:\n                return candidates[1]\n", "")]),
            ("TournamentSelector.select", "break", "no coin: first candidate wins ties",
             [("                selected = random.choice(candidates)", "                selected = candidates[0]")]),
            ("TournamentSelector.select", "break", "sampling with replacement (random.choices)",
             [("            candidates = random.sample(individuals, 2)", "            candidates = random.choices(individuals, k=2)")]),
            ("TournamentSelector.select", "harmless", "locals and parameter renamed",
             [rename_in("TournamentSelector.select", {"candidates": "pair", "flag": "verdict", "selected": "winner",
                                                      "individuals": "population"})]),
            ("TournamentSelector.select", "harmless", "1 == len(...) instead of len(...) == 1",
             [("        if len(individuals) == 1:", "        if 1 == len(individuals):")]),
            ("TournamentSelector.select", "harmless", "1 == flag instead of flag == 1",
             [("                return candidates[0]\n            elif candidates[1].features['front_number'] < candidates[0].features['front_number']:\n                return candidates[1]\n\n"
               "            flag = self.dominance.compare(candidates[0].costs_signed, candidates[1].costs_signed)\n\n"
               "            if flag == 1:",
               "                return candidates[0]\n            elif candidates[1].features['front_number'] < candidates[0].features['front_number']:\n                return candidates[1]\n\n"
               "            flag = self.dominance.compare(candidates[0].costs_signed, candidates[1].costs_signed)\n\n"
               "            if 1 == flag:")]),
        ],
    },
    "Equality": {
        "source": "artap/individual.py",
        "edits": [
            ("Individual.__eq__", "break", "early `return False` removed (only the last coordinate counts: the repaired C20 defect)",
             [("            if not diff < 1e-10:\n                return False\n", "")]),
            ("Individual.__eq__", "break", "tolerance 1e-6 inside the loop",
             [("            if not diff < 1e-10:", "            if not diff < 1e-6:")]),
            ("Individual.__eq__", "break", "abs dropped",
             [("            diff = abs(self.vector[i] - other.vector[i])", "            diff = self.vector[i] - other.vector[i]")]),
            ("Individual.__eq__", "break", "diff starts at 0 (two empty vectors become equal)",
             [("        diff = 1\n        for i in range(len(self.vector)):", "        diff = 0\n        for i in range(len(self.vector)):")]),
            ("Individual.__eq__", "break", "loop over the shorter vector (no IndexError)",
             [("        for i in range(len(self.vector)):\n            diff = abs(", "        for i in range(min(len(self.vector), len(other.vector))):\n            diff = abs(")]),
            ("Individual.__eq__", "harmless", "local, loop variable and parameter renamed",
             [rename_in("Individual.__eq__", {"diff": "gap", "i": "k", "other": "rhs"})]),
            ("Individual.__eq__", "harmless", "diff = 1.0 instead of 1",
             [("        diff = 1\n        for i in range(len(self.vector)):", "        diff = 1.0\n        for i in range(len(self.vector)):")]),
            ("Individual.__eq__", "harmless", "`not diff < tol` written `diff >= tol`",
             [("            if not diff < 1e-10:", "            if diff >= 1e-10:")]),
        ],
    },
}
