#!/usr/bin/env python3
"""Re-confirms every recorded seeded change (must be caught by the check that caught it when it was recorded) and every
recorded harmless rewrite (must stay silent, except the designed residues listed in harmless/HISTORY.json, which must end
with no-failing-input-found).  Sequential (the runs share lean/ArtapModel/Gen); about 40 s per entry.
usage: tools/regress.py [seeded|harmless] [id-prefix ...]"""
import glob, json, os, subprocess, sys
HERE = os.path.dirname(os.path.dirname(os.path.abspath(__file__)))
args = sys.argv[1:]
kinds = [a for a in args if a in ("seeded", "harmless")] or ["seeded", "harmless"]
prefixes = [a for a in args if a not in ("seeded", "harmless")]
hist = json.load(open(os.path.join(HERE, "harmless", "HISTORY.json")))
bad = 0


def last_json(out):
    lines = [l for l in out.splitlines() if l.startswith("{")]
    return json.loads(lines[-1]) if lines else None


for kind in kinds:
    for d in sorted(glob.glob(os.path.join(HERE, kind, "*", "meta.json"))):
        name = os.path.basename(os.path.dirname(d))
        if prefixes and not any(name.startswith(p) for p in prefixes):
            continue
        m = json.load(open(d))
        c = m.get("confirmed_by_verif", {})
        if kind == "seeded":
            props = c.get("caught_by") or [m["property"]]
            r = subprocess.run([sys.executable, os.path.join(HERE, "tools", "seedtest.py"), os.path.dirname(d)] + props,
                               capture_output=True, text=True)
            res = last_json(r.stdout)
            ok = bool(res) and any(v["rc"] == 1 for v in res["checks"].values())
            print("%-8s %s %s" % (name, "caught" if ok else "NOT CAUGHT", {k: v["rc"] for k, v in (res or {}).get("checks", {}).items()}), flush=True)
        else:
            r = subprocess.run([sys.executable, os.path.join(HERE, "tools", "harmlesstest.py"), os.path.dirname(d)],
                               capture_output=True, text=True)
            res = last_json(r.stdout)
            checks = (res or {}).get("checks", {})
            alarms = {k: v for k, v in checks.items() if v["rc"] != 0}
            residue = name in hist and "designed residue" in hist[name]
            ok = bool(res) and (not alarms or (residue and all(all("no-failing-input-found" in l for l in v.get("violation", [])) for v in alarms.values())))
            print("%-8s %s %s" % (name, ("silent" if not alarms else "designed residue") if ok else "ALARM", {k: v["rc"] for k, v in checks.items()}), flush=True)
        bad += 0 if ok else 1
print("entries not as expected: %d" % bad)
sys.exit(1 if bad else 0)
