#!/usr/bin/env python3
"""Markdown summary (DESIGN.md 11.5) from MANIFEST.json, the Props files and the committed evidence."""
import json, os, re, glob
HERE = os.path.dirname(os.path.dirname(os.path.abspath(__file__)))
man = json.load(open(os.path.join(HERE, "MANIFEST.json")))
print("| id | model file(s) | theorems (obligations) | partial / tested-only | quick: cases (distinct non-trivial), s |")
print("|---|---|---|---|---|")
for c in man["checks"]:
    pid = c["property_id"]
    drv = open(os.path.join(HERE, "lean", "drivers", pid + ".lean")).read()
    models = ", ".join(m.split(".")[-1] for m in re.findall(r"import\s+(ArtapModel\.Model\.\S+)", drv))
    ev = {}
    p = os.path.join(HERE, "evidence", pid + ".json")
    if os.path.exists(p):
        ev = json.load(open(p))
    cov = ev.get("coverage", {})
    src = open(os.path.join(HERE, "lean", "ArtapModel", "Props", pid + ".lean")).read()
    partial = sorted(set(re.findall(r"theorem\s+(\S*_partial)", src)))
    note = ", ".join(partial) if partial else ("PARTIAL (see level text)" if "PARTIAL" in c["level_claimed"]["text"] else "-")
    print("| %s | %s | %s | %s | %s (%s), %.0f |" % (pid, models, cov.get("obligations", "?"), note, cov.get("evaluations", "?"),
                                              cov.get("distinct_nontrivial", "?"), ev.get("wall_s", 0)))
