import ArtapModel.Model.Proto
/-!
# Model of `ParetoDominance.compare` and `EpsilonDominance.compare` (artap/operators.py)

Signed-cost vectors are `costs ++ [marker]` in the code; the model takes costs and marker
separately.  Return codes as in the code: `1` = first dominates, `2` = second dominates,
`0` = neither.

Regime R1: the Pareto comparator only uses `<`, `>`, `==`, `abs` and `== 0`; the harness
maps finite doubles to `Int` with the order embedding φ, so the model is over any linearly
ordered carrier (instantiated at `Int` for Pareto, `Rat` for the scaled ε comparator).
-/
namespace Artap

/-- The `for … in zip(p[:-1], q[:-1])` loop with its two flags and early `return 0`.
`dp` = `dominate_p`, `dq` = `dominate_q`. -/
def scan {α} [LT α] [DecidableLT α] : List α → List α → Bool → Bool → Nat
  | p :: ps, q :: qs, dp, dq =>
    if q < p then (if dp then 0 else scan ps qs dp true)
    else if p < q then (if dq then 0 else scan ps qs true dq)
    else scan ps qs dp dq
  | _, _, dp, dq => if dp == dq then 0 else if dp then 1 else 2

/-- The feasibility block shared by both comparators.  `none` = fall through to the scan. -/
def markerVerdict (mp mq : Int) : Option Nat :=
  if mp ≠ mq then
    if mp == 0 then some 1
    else if mq == 0 then some 2
    else if mp.natAbs < mq.natAbs then some 1
    else if mq.natAbs < mp.natAbs then some 2
    else none
  else none

/-- `ParetoDominance.compare(p ++ [mp], q ++ [mq])`. -/
def paretoCompare {α} [LT α] [DecidableLT α] (p q : List α) (mp mq : Int) : Nat :=
  match markerVerdict mp mq with
  | some v => v
  | none => scan p q false false

/-- ε scaling: `cost / float(epsilons[i % len(epsilons)])`, with `0` replaced by `1e-3`
(first loop of the code only; the theorems assume positive ε so the replacement is inert). -/
def epsAt (eps : List Rat) (i : Nat) : Rat :=
  let e := eps.getD (i % eps.length) 0
  if e == 0 then (1 : Rat) / 1000 else e

def scaleBy (eps : List Rat) : Nat → List Rat → List Rat
  | _, [] => []
  | i, c :: cs => (c / epsAt eps i) :: scaleBy eps (i + 1) cs

/-- Second loop of the ε comparator: `Σ (c − (c/ε)·ε)²` (exactly `0` in ℚ for ε ≠ 0). -/
def cornerDist (eps : List Rat) : Nat → List Rat → Rat
  | _, [] => 0
  | i, c :: cs =>
    let e := eps.getD (i % eps.length) 0
    (c - (c / e) * e) * (c - (c / e) * e) + cornerDist eps (i + 1) cs

/-- `EpsilonDominance.compare(p ++ [mp], q ++ [mq])`.  `none` models the
`ZeroDivisionError` that the second loop raises for an ε equal to zero and for an empty
ε list (outside "positive epsilons"; kept explicit so nothing is true by default). -/
def epsCompare (eps : List Rat) (p q : List Rat) (mp mq : Int) : Option Nat :=
  if eps.isEmpty then none else
  match markerVerdict mp mq with
  | some v => some v
  | none =>
    let sp := scaleBy eps 0 p
    let sq := scaleBy eps 0 q
    let pairs := List.zip sp sq
    -- flags of the scan, recomputed to decide whether the tie-break loop runs
    let anyDiff := pairs.any (fun (a, b) => a < b || b < a)
    if anyDiff then some (scan sp sq false false)
    else
      -- tie-break loop divides by the raw ε (no replacement of 0)
      let n := min p.length q.length
      if (List.range n).any (fun i => eps.getD (i % eps.length) 0 == 0) then none
      else if cornerDist eps 0 (p.take n) < cornerDist eps 0 (q.take n) then some 1 else some 2

end Artap

namespace Artap.Dominance
open Artap.Proto

/-- protocol: `c01.pareto p|q|mp,mq` (φ-encoded ints) ; `c01.eps eps|p|q|mp,mq` (rationals, int markers) -/
def handle (op : String) (arg : String) : Option String :=
  match op, arg.splitOn "|" with
  | "c01.pareto", [p, q, m] => do
    let p ← parseList? parseInt? p
    let q ← parseList? parseInt? q
    match ← parseList? parseInt? m with
    | [mp, mq] => some (toString (paretoCompare p q mp mq))
    | _ => none
  | "c01.eps", [e, p, q, m] => do
    let e ← parseList? parseRat? e
    let p ← parseList? parseRat? p
    let q ← parseList? parseRat? q
    match ← parseList? parseInt? m with
    | [mp, mq] => some (match epsCompare e p q mp mq with
        | some v => toString v
        | none => "raise")
    | _ => none
  | _, _ => none

end Artap.Dominance
