import ArtapModel.Model.Proto
/-!
# Model of the factorial / screening design generators (artap/doe.py, artap/operators.py)

* `fullfact`, `build_full_fact`, `construct_df`  (+ `FullFactorGenerator`, `FullFactorLevelsGenerator`)
* `pbdesign`, `build_plackett_burman`             (+ `PlackettBurmanGenerator`)
* `ff2n`, `bbdesign`, `build_box_behnken`         (+ `BoxBehnkenGenerator`)
* `build_gsd` and its helpers                     (+ `GSDGenerator`, n = 1)

Design matrices are lists of rows.  Python exceptions are explicit (`none` / `Except`).
Level *values* are opaque (`α`) wherever the code only selects them; the two places that compute
a mid-point (`(lb+ub)/2`) are over `Rat` (regime R2).
-/
namespace Artap.Doe

/-! ## Python list indexing and `construct_df` -/

/-- `all-or-nothing` sequencing of partial results (an exception anywhere aborts the whole call). -/
def allSome {α} : List (Option α) → Option (List α)
  | [] => some []
  | none :: _ => none
  | some a :: r => (allSome r).map (a :: ·)

/-- `l[i]` with Python semantics: a negative index counts from the end, out of range raises. -/
def pyGet {α} (l : List α) (i : Int) : Option α :=
  if 0 ≤ i then l[i.toNat]?
  else if 0 ≤ (l.length : Int) + i then l[((l.length : Int) + i).toNat]?
  else none

/-- One row of `construct_df`: `factor_lists[index][int(col[index])]` for `index` in `range(len(col))`
(the lists are consumed in step with the row; a row longer than `factor_lists` raises `IndexError`,
surplus lists are ignored). -/
def pickRow {α} : List (List α) → List Int → Option (List α)
  | _, [] => some []
  | [], _ :: _ => none
  | l :: ls, v :: vs =>
    match pyGet l v, pickRow ls vs with
    | some a, some r => some (a :: r)
    | _, _ => none

/-- `construct_df(x, factor_lists)`. -/
def constructDf {α} (x : List (List Int)) (lists : List (List α)) : Option (List (List α)) :=
  allSome (x.map (pickRow lists))

/-! ## Full factorial -/

/-- `np.prod(levels)` -/
def prod : List Nat → Nat
  | [] => 1
  | l :: ls => l * prod ls

/-- Row `t` of `fullfact(levels)`, columns from the current one on; `rep` is `level_repeat`.
Column `i` of the code is `rng = lvl * range_repeat` with `lvl = [0]*rep + [1]*rep + … + [l-1]*rep`,
so `rng[t] = lvl[t mod (rep*l)] = (t mod (rep*l)) / rep`; then `level_repeat *= levels[i]`. -/
def rowGo : List Nat → Nat → Nat → List Nat
  | [], _, _ => []
  | l :: ls, rep, t => (t % (rep * l)) / rep :: rowGo ls (rep * l) t

/-- The rows of `fullfact(levels)` (`nb_lines = prod levels` of them). -/
def fullfactRows (levels : List Nat) : List (List Nat) :=
  (List.range (prod levels)).map (rowGo levels 1)

/-- `fullfact(levels)`; no factors: `np.zeros((1.0, 0))` raises `TypeError`. -/
def fullfact (levels : List Nat) : Option (List (List Nat)) :=
  if levels.isEmpty then none else some (fullfactRows levels)

def toIntRows (x : List (List Nat)) : List (List Int) := x.map (·.map Int.ofNat)

/-- `build_full_fact(dict)`: level counts, `fullfact`, `construct_df`. -/
def buildFullFact {α} (lists : List (List α)) : Option (List (List α)) :=
  match fullfact (lists.map List.length) with
  | none => none
  | some x => constructDf (toIntRows x) lists

/-- `FullFactorGenerator.generate`: `[lb, (lb+ub)/2.0, ub]` with `center`, else `[lb, ub]`. -/
def fullFactorGen (bounds : List (Rat × Rat)) (center : Bool) : Option (List (List Rat)) :=
  buildFullFact (bounds.map fun (lb, ub) => if center then [lb, (lb + ub) / 2, ub] else [lb, ub])

/-! ## Plackett–Burman -/

/-- `scipy.linalg.toeplitz(c, r)`: `T[i][j] = c[i-j]` for `i ≥ j`, else `r[j-i]`.
(The out-of-range default `0` is never hit: `h12_entries` shows every entry is `±1`.) -/
def toeplitz (c r : List Int) : List (List Int) :=
  (List.range c.length).map fun i => (List.range r.length).map fun j =>
    if j ≤ i then c.getD (i - j) 0 else r.getD (j - i) 0

/-- `scipy.linalg.hankel(c, r)`: `H[i][j] = c[i+j]` while `i+j < len c`, else `r[i+j-len c+1]`. -/
def hankel (c r : List Int) : List (List Int) :=
  (List.range c.length).map fun i => (List.range r.length).map fun j =>
    if i + j < c.length then c.getD (i + j) 0 else r.getD (i + j - c.length + 1) 0

/-- `np.vstack((ones((1,m+1)), np.hstack((ones((m,1)), T))))` -/
def border (T : List (List Int)) : List (List Int) :=
  List.replicate (T.length + 1) 1 :: T.map (1 :: ·)

def h12 : List (List Int) :=
  border (toeplitz [-1, -1, 1, -1, -1, -1, 1, 1, 1, -1, 1] [-1, 1, -1, 1, 1, 1, -1, -1, -1, 1, -1])

def h20 : List (List Int) :=
  border (hankel [-1, -1, 1, 1, -1, -1, -1, -1, 1, -1, 1, -1, 1, 1, 1, 1, -1, -1, 1]
                 [1, -1, -1, 1, 1, -1, -1, -1, -1, 1, -1, 1, -1, 1, 1, 1, 1, -1, -1])

/-- `np.vstack((np.hstack((H, H)), np.hstack((H, -H))))` -/
def double (H : List (List Int)) : List (List Int) :=
  H.map (fun r => r ++ r) ++ H.map (fun r => r ++ r.map (- ·))

/-- `for i in range(e): H = double H` -/
def doubleN : Nat → List (List Int) → List (List Int)
  | 0, H => H
  | e + 1, H => doubleN e (double H)

/-- `some a` iff `x = 2^a` (fuel-bounded halving). -/
def log2Go : Nat → Nat → Option Nat
  | 0, _ => none
  | fuel + 1, x =>
    if x = 1 then some 0
    else if x ≠ 0 ∧ x % 2 = 0 then (log2Go fuel (x / 2)).map (· + 1)
    else none

def log2? (x : Nat) : Option Nat := log2Go x x

/-- `f, e = np.frexp([n, n/12., n/20.])`, `k` = first index with `f == 0.5 and e > 0`, i.e. the first
of `N`, `N/12`, `N/20` that is an exact power of two `2^(e-1) ≥ 1`; result: seed matrix and `e-1`.
`none` = the `assert … k != []`. -/
def pbSeed (N : Nat) : Option (List (List Int) × Nat) :=
  match log2? N with
  | some a => some ([[1]], a)
  | none =>
    match (if N % 12 = 0 then log2? (N / 12) else none) with
    | some a => some (h12, a)
    | none =>
      match (if N % 20 = 0 then log2? (N / 20) else none) with
      | some a => some (h20, a)
      | none => none

/-- `pbdesign(n)`: rows `4*(int(n/4)+1)`, Kronecker doubling, columns `1..keep`, `flipud`. -/
def pbdesign (n : Nat) : Option (List (List Int)) :=
  if n = 0 then none else
  match pbSeed (4 * (n / 4 + 1)) with
  | none => none
  | some (H0, e) => some ((doubleN e H0).map (fun r => (r.drop 1).take n)).reverse

/-- `index_change`: `-1 ↦ 0`, everything else unchanged. -/
def indexChange (x : Int) : Int := if x = -1 then 0 else x

/-- `build_plackett_burman` as called by `PlackettBurmanGenerator` (two-element lists `[lb, ub]`). -/
def buildPB {α} (bounds : List (α × α)) : Option (List (List α)) :=
  match pbdesign bounds.length with
  | none => none
  | some x => constructDf (x.map (·.map indexChange)) (bounds.map fun (lb, ub) => [lb, ub])

/-! ## Box–Behnken -/

/-- `ff2n(n) = 2 * fullfact([2]*n) - 1` -/
def ff2n (n : Nat) : List (List Int) :=
  (fullfactRows (List.replicate n 2)).map (·.map fun (v : Nat) => 2 * (v : Int) - 1)

/-- the `(i, j)` of `for i in range(n-1): for j in range(i+1, n)` in loop order -/
def pairs (n : Nat) : List (Nat × Nat) :=
  (List.range (n - 1)).flatMap fun i => (List.range' (i + 1) (n - (i + 1))).map fun j => (i, j)

/-- One block of four runs: column `i` gets `H_fact[:,0]`, column `j` gets `H_fact[:,1]`, zeros elsewhere.
(`ff2n 2` has rows of length 2 – `ff2n_two` – so the defaults are never used.) -/
def bbBlock (n : Nat) (ij : Nat × Nat) : List (List Int) :=
  (ff2n 2).map fun f => ((List.replicate n (0 : Int)).set ij.1 (f.getD 0 0)).set ij.2 (f.getD 1 0)

/-- `bbdesign(n, center)` for an explicit centre count (`build_box_behnken` passes `center=1`). -/
def bbdesign (n center : Nat) : Option (List (List Int)) :=
  if n < 3 then none
  else some ((pairs n).flatMap (bbBlock n) ++ List.replicate center (List.replicate n 0))

/-- stable insertion sort = `list.sort()` -/
def insertSorted {α} [LE α] [DecidableLE α] (x : α) : List α → List α
  | [] => [x]
  | y :: ys => if y ≤ x then y :: insertSorted x ys else x :: y :: ys

def pySort {α} [LE α] [DecidableLE α] : List α → List α
  | [] => []
  | x :: xs => insertSorted x (pySort xs)

/-- the three levels of a factor: `[lb, ub]`, `.append((lb+ub)/2)`, `.sort()` -/
def bbLevels (b : Rat × Rat) : List Rat := pySort [b.1, b.2, (b.1 + b.2) / 2]

/-- `build_box_behnken` as called by `BoxBehnkenGenerator`: `x = bbdesign(n, center=1) + 1`. -/
def buildBB (bounds : List (Rat × Rat)) : Option (List (List Rat)) :=
  match bbdesign bounds.length 1 with
  | none => none
  | some x => constructDf (x.map (·.map (· + 1))) (bounds.map bbLevels)

/-! ## Generalized subset designs -/

inductive Err where
  | value      -- ValueError
  | assertion  -- AssertionError
  deriving DecidableEq, Repr

/-- One cell of `_make_partitions`: levels `p + (level_i - 1) * r` for `level_i` in `range(1, L)`, kept if `≤ L`.
`p` is `partition_i` (1-based). -/
def part (r L p : Nat) : List Nat :=
  ((List.range' 1 (L - 1)).map fun li => p + (li - 1) * r).filter (· ≤ L)

/-- `_make_partitions(levels, r)`: `partitions[p-1][factor]`. -/
def makePartitions (levels : List Nat) (r : Nat) : List (List (List Nat)) :=
  (List.range' 1 r).map fun p => levels.map fun L => part r L p

/-- `_make_latin_square(r)`: row `i` is `np.roll(arange(r), -i)`, i.e. entry `c` is `(c + i) mod r`. -/
def latin (r : Nat) : List (List Nat) :=
  (List.range r).map fun i => (List.range r).map fun c => (c + i) % r

/-- One pass of the `while` loop of `_make_orthogonal_arrays`:
`new[i] = vstack([ [c | A[latin[i][c]]]  for c in first_row ])`.
(`latin[i][c] < r = len A`, see `orth_length`; the default is never used.) -/
def orthStep (r : Nat) (A : List (List (List Nat))) : List (List (List Nat)) :=
  (latin r).map fun lrow =>
    (List.zip (List.range r) (lrow.map fun q => A.getD q [])).flatMap fun (c, other) => other.map (c :: ·)

def orthIter (r : Nat) : Nat → List (List (List Nat)) → List (List (List Nat))
  | 0, A => A
  | m + 1, A => orthIter r m (orthStep r A)

/-- `_make_orthogonal_arrays(latin_square, k)`: start from the one-column matrices `[[v]]` and add a
column while the width is below `k` (no pass at all for `k ≤ 1`). -/
def orthArrays (r k : Nat) : List (List (List Nat)) :=
  orthIter r (k - 1) ((List.range r).map fun v => [[v]])

/-- `itertools.product(*sets)` (first set varies slowest) -/
def product {α} : List (List α) → List (List α)
  | [] => [[]]
  | s :: ss => s.flatMap fun x => (product ss).map (x :: ·)

/-- `[partitions[p][factor] for factor, p in enumerate(row)]`, `j` = index of the first entry. -/
def setsOf (partitions : List (List (List Nat))) : Nat → List Nat → List (List Nat)
  | _, [] => []
  | j, p :: ps => (partitions.getD p []).getD j [] :: setsOf partitions (j + 1) ps

def listMax : List Nat → Nat
  | [] => 0
  | x :: xs => max x (listMax xs)

def listMin : List Nat → Option Nat
  | [] => none
  | x :: xs => match listMin xs with
    | none => some x
    | some m => some (min x m)

/-- `_map_partitions_to_design(partitions, oa)` (levels still 1-based). -/
def mapPartitions (partitions : List (List (List Nat))) (oa : List (List Nat)) : Except Err (List (List Nat)) :=
  if partitions.length = listMax oa.flatten + 1 ∧ listMin oa.flatten = some 0 then
    let mappings := oa.filterMap fun row =>
      let sets := setsOf partitions 0 row
      if sets.any List.isEmpty then none else some (product sets)
    if mappings.isEmpty then .error .value   -- np.vstack([]) raises ValueError
    else .ok mappings.flatten
  else .error .assertion

def exceptAll {α} : List (Except Err α) → Except Err (List α)
  | [] => .ok []
  | .error e :: _ => .error e
  | .ok a :: r => match exceptAll r with
    | .error e => .error e
    | .ok l => .ok (a :: l)

/-- all `r` designs of `build_gsd` (the list comprehension evaluates every one of them, `- 1` each). -/
def gsdDesigns (levels : List Nat) (r : Nat) : Except Err (List (List (List Nat))) :=
  exceptAll ((orthArrays r levels.length).map fun oa =>
    match mapPartitions (makePartitions levels r) oa with
    | .error e => .error e
    | .ok d => .ok (d.map (·.map (· - 1))))

/-- `build_gsd(levels, reduction, n)`; the result is the list of returned designs
(`n == 1` returns the bare first design – a one-element list here; `designs[:n]` otherwise). -/
def buildGsd (levels : List Nat) (r n : Nat) : Except Err (List (List (List Nat))) :=
  if r ≤ 1 ∨ n = 0 then .error .value
  else match gsdDesigns levels r with
    | .error e => .error e
    | .ok ds => .ok (ds.take n)

/-- `GSDGenerator.generate` for `n = 1`: level indices replaced by the supplied values. -/
def gsdGen {α} (values : List (List α)) (r : Nat) : Except Err (Option (List (List α))) :=
  match buildGsd (values.map List.length) r 1 with
  | .error e => .error e
  | .ok ds => .ok (constructDf (toIntRows (ds.headD [])) values)

/-! ## Line protocol -/
open Artap.Proto

def showRows {α} (f : α → String) (o : Option (List (List α))) : String :=
  match o with
  | none => "raise"
  | some rows => "ok " ++ showMat f rows

def parsePairs? (s : String) : Option (List (Rat × Rat)) := do
  let m ← parseMat? parseRat? s
  Proto.allSome (m.map fun | [a, b] => some (a, b) | _ => none)

def showErr : Err → String
  | .value => "ValueError"
  | .assertion => "AssertionError"

/-- protocol (all answers `raise` / `ok <rows>`; GSD: `ValueError` / `AssertionError` / `ok d|d|…`):
* `c13.fullfact L1,L2,…`            coded design
* `c13.ffl v,v;v,v,v;…`             `FullFactorLevelsGenerator` (one `;` group per factor, rationals)
* `c13.ffc lb,ub;lb,ub|c`           `FullFactorGenerator`, `c` = 0/1
* `c13.pb n`, `c13.pbb lb,ub;…`     `pbdesign`, `PlackettBurmanGenerator`
* `c13.bb n|center`, `c13.bbb lb,ub;…`   `bbdesign`, `BoxBehnkenGenerator`
* `c13.gsd L1,L2,…|r|n`             `build_gsd`
* `c13.gsdgen v,v;v,v|r`            `GSDGenerator` (n = 1) -/
def handle (op : String) (arg : String) : Option String :=
  match op, arg.splitOn "|" with
  | "c13.fullfact", [l] => do
    let l ← parseList? parseNat? l
    some (showRows toString (fullfact l))
  | "c13.ffl", [v] => do
    let v ← parseMat? parseRat? v
    some (showRows showRat (buildFullFact v))
  | "c13.ffc", [b, c] => do
    let b ← parsePairs? b
    let c ← parseNat? c
    some (showRows showRat (fullFactorGen b (c != 0)))
  | "c13.pb", [n] => do
    let n ← parseNat? n
    some (showRows toString (pbdesign n))
  | "c13.pbb", [b] => do
    let b ← parsePairs? b
    some (showRows showRat (buildPB b))
  | "c13.bb", [n, c] => do
    let n ← parseNat? n
    let c ← parseNat? c
    some (showRows toString (bbdesign n c))
  | "c13.bbb", [b] => do
    let b ← parsePairs? b
    some (showRows showRat (buildBB b))
  | "c13.gsd", [l, r, n] => do
    let l ← parseList? parseNat? l
    let r ← parseNat? r
    let n ← parseNat? n
    some (match buildGsd l r n with
      | .error e => showErr e
      | .ok ds => "ok " ++ String.intercalate "|" (ds.map (showMat toString)))
  | "c13.gsdgen", [v, r] => do
    let v ← parseMat? parseRat? v
    let r ← parseNat? r
    some (match gsdGen v r with
      | .error e => showErr e
      | .ok o => showRows showRat o)
  | _, _ => none

end Artap.Doe
