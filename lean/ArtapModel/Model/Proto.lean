/-!
# Line-protocol helpers (core Lean only)

Numbers travel as decimal integers (`Int`), exact rationals `num/den` (`Rat`), or IEEE
doubles as 16 hex digits (`Float.ofBits`).  Lists: `,` inside a vector, `;` between
vectors, `|` between arguments.  Nothing here defaults: a token that does not parse makes
the whole request answer `bad-op`.
-/
namespace Artap.Proto

def tok (s : String) : String := s.trimAscii.toString

def splitNE (s : String) (sep : String) : List String :=
  if tok s == "" then [] else (s.splitOn sep).map tok

def allSome {α} : List (Option α) → Option (List α)
  | [] => some []
  | none :: _ => none
  | some a :: r => (allSome r).map (a :: ·)

def parseInt? (s : String) : Option Int := (tok s).toInt?
def parseNat? (s : String) : Option Nat := (tok s).toNat?

def parseRat? (s : String) : Option Rat :=
  match (tok s).splitOn "/" with
  | [n] => (n.toInt?).map (fun i => (i : Rat))
  | [n, d] => match n.toInt?, d.toNat? with
    | some i, some k => if k == 0 then none else some (mkRat i k)
    | _, _ => none
  | _ => none

def hexDigit? (c : Char) : Option Nat :=
  if '0' ≤ c ∧ c ≤ '9' then some (c.toNat - '0'.toNat)
  else if 'a' ≤ c ∧ c ≤ 'f' then some (c.toNat - 'a'.toNat + 10)
  else none

def parseHex? (s : String) : Option Nat :=
  let cs := (tok s).toList
  if cs.isEmpty then none else
  cs.foldl (fun acc c => match acc, hexDigit? c with
    | some a, some d => some (a * 16 + d)
    | _, _ => none) (some 0)

def parseFloat? (s : String) : Option Float :=
  (parseHex? s).map (fun n => Float.ofBits n.toUInt64)

def parseList? {α} (f : String → Option α) (s : String) : Option (List α) :=
  allSome ((splitNE s ",").map f)

def parseMat? {α} (f : String → Option α) (s : String) : Option (List (List α)) :=
  allSome ((splitNE s ";").map (parseList? f))

def showRat (r : Rat) : String := s!"{r.num}/{r.den}"

def hexOf (n : Nat) : String :=
  let ds := (List.range 16).map fun i =>
    let d := (n >>> (4 * (15 - i))) % 16
    Char.ofNat (if d < 10 then '0'.toNat + d else 'a'.toNat + d - 10)
  String.ofList ds

def showFloat (x : Float) : String := hexOf x.toBits.toNat

def showList {α} (f : α → String) (l : List α) : String := String.intercalate "," (l.map f)
def showMat {α} (f : α → String) (l : List (List α)) : String :=
  String.intercalate ";" (l.map (showList f))

def showBool (b : Bool) : String := if b then "1" else "0"

def showOptNat : Option Nat → String
  | some k => toString k
  | none => "N"

/-- Serve the line protocol on stdin/stdout: one request `<op> <argument>` per line, one
answer per line prefixed `=> `; unknown or malformed requests answer `=> bad-op`. -/
def answer (handle : String → String → Option String) (line : String) : String :=
  let l := tok line
  let (op, arg) := match l.splitOn " " with
    | [] => ("", "")
    | o :: rest => (o, String.intercalate " " rest)
  match handle op arg with
  | some r => "=> " ++ r
  | none => "=> bad-op"

partial def serveLoop (handle : String → String → Option String) (h out : IO.FS.Stream) : IO Unit := do
  let line ← h.getLine
  if line.isEmpty then return ()
  out.putStrLn (answer handle line)
  serveLoop handle h out

def serve (handle : String → String → Option String) : IO Unit := do
  let out ← IO.getStdout
  serveLoop handle (← IO.getStdin) out
  out.flush

end Artap.Proto
