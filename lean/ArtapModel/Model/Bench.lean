import ArtapModel.Model.Num
import ArtapModel.Model.Proto
/-!
# Single-objective benchmark functions (artap/benchmark_functions.py:164-988,
# artap/benchmark_robust.py) — 21 families of DESIGN.md plus Synthetic5D/10D, regime R3

Every formula is written **once** over `Num α` (`Model/Num.lean`): `Num Float` runs it for the
correspondence check, `Num ℝ` (`Proofs/NumReal.lean`) is what the theorems of `Props/C15.lean`
are about.  The definitions mirror the `evaluate` methods statement by statement: the same
accumulators, the same left-to-right association of the Python expressions, `x ** 2.` as
`Num.pow x 2` (not `x * x`), and the loops of the three Xin-She-Yang functions *assign*
(`f1 = …`) instead of accumulating, exactly as the code does – so only the last coordinate
counts there.

Next to each formula: the declared box (`parameters[i]['bounds']`), the documented optimum
(`global_optimum`), the documented optimum coordinates (`global_optimum_coords`, absent for
Schubert and for Michalewicz in 5 and 10 dimensions) and the optimisation direction
(`costs[0]['criteria']`).  These constants are part of the correspondence: the harness compares
them with the implementation's attributes for every dimension it tests.

Python exceptions are explicit: `eval` answers `none` where `evaluate` raises (`IndexError`
for a vector shorter than the fixed arity, `ZeroDivisionError` for Ackley on the empty
vector), `optimum` answers `none` where the constructor raises (`Michaelwicz` outside
{2, 5, 10}).  Nothing defaults.
-/
namespace Artap.Bench

/-- `a < b` on the carrier (needed by `EqualityConstr`: `abs(summa - 1.) < 1e-9`).  Kept here
because `Num` (shared with C16) has no comparison. -/
class NumOrd (α : Type) where
  lt : α → α → Bool

instance : NumOrd Float := ⟨fun a b => decide (a < b)⟩

section formulas
variable {α : Type} [Num α]

local infixl:65 " +' " => Num.add
local infixl:65 " -' " => Num.sub
local infixl:70 " *' " => Num.mul
local infixl:70 " /' " => Num.div

/-- integer / float literal with an integral value (`2.`, `100.0`, `4000.0`, `i + 1`) -/
def nat (n : Nat) : α := Num.ofNat n
/-- decimal literal (`0.2`, `2.1`, `418.982887`): the exact rational, rounded once by `Num Float` -/
def rat (r : Rat) : α := Num.ofRat r

/-- `x ** 2.` / `x ** 2` -/
def sq (x : α) : α := Num.pow x (nat 2)

/-- `acc = a; for i, c in enumerate(xs): acc += f(i, c)` -/
def sumFrom (a : α) (f : Nat → α → α) (xs : List α) : α :=
  (xs.zipIdx).foldl (fun acc p => acc +' f p.2 p.1) a

/-- `acc = a; for i, c in enumerate(xs): acc *= f(i, c)` -/
def prodFrom (a : α) (f : Nat → α → α) (xs : List α) : α :=
  (xs.zipIdx).foldl (fun acc p => acc *' f p.2 p.1) a

/-- `v = a; for c in xs: v = g(c)` – the assigning loops of the Xin-She-Yang functions. -/
def lastOf (a : α) (g : α → α) (xs : List α) : α :=
  xs.foldl (fun _ c => g c) a

/-! ## n-dimensional families -/

/-- `Rosenbrock.evaluate`: `for i in range(0, n-1): a = 1. - x[i]; b = x[i+1] - x[i]**2.;
scores += a*a + b*b*100.0`. -/
def rosenbrock (xs : List α) : α :=
  (xs.zip xs.tail).foldl (fun acc p =>
    acc +' ((nat 1 -' p.1) *' (nat 1 -' p.1) +' (p.2 -' sq p.1) *' (p.2 -' sq p.1) *' nat 100)) (nat 0)

/-- `Ackley.evaluate` (the caller guarantees `xs ≠ []`; `n = float(len(x))`). -/
def ackley (xs : List α) : α :=
  Num.neg (nat 20) *'
      Num.exp (Num.neg (rat (2/10)) *' Num.sqrt (sumFrom (nat 0) (fun _ c => sq c) xs /' nat xs.length))
    -' Num.exp (sumFrom (nat 0) (fun _ c => Num.cos (nat 2 *' Num.pi *' c)) xs /' nat xs.length)
    +' nat 20 +' Num.exp (nat 1)

/-- `Sphere.evaluate` -/
def sphere (xs : List α) : α := sumFrom (nat 0) (fun _ c => sq c) xs

/-- `Schwefel.evaluate`: `fitness -= c*sin(sqrt(|c|)); fitness += 418.982887` -/
def schwefel (xs : List α) : α :=
  xs.foldl (fun acc c => (acc -' c *' Num.sin (Num.sqrt (Num.abs c))) +' rat (418982887/1000000)) (nat 0)

/-- `ModifiedEasom.evaluate` (as repaired by e193300: `product = -1.0`, `product *= cos(c)**2.`) -/
def modifiedEasom (xs : List α) : α :=
  prodFrom (Num.neg (nat 1)) (fun _ c => Num.pow (Num.cos c) (nat 2)) xs
    *' Num.exp (Num.neg (sumFrom (nat 0) (fun _ c => sq (c -' Num.pi)) xs))

/-- `EqualityConstr.evaluate` (as repaired by 5820b59: `if abs(summa - 1.) < 1e-9`);
`self.dimension` = the number of coordinates. -/
def equalityConstr [NumOrd α] (xs : List α) : α :=
  if NumOrd.lt (Num.abs (sumFrom (nat 0) (fun _ c => c *' c) xs -' nat 1)) (rat (1/1000000000))
  then Num.neg (nat 1) *' prodFrom (nat 1) (fun _ c => c *' Num.sqrt (nat xs.length)) xs
  else nat 0

/-- `Griewank.evaluate`: `summa += c**2/4000.0; produkt *= cos(c/sqrt(i+1))` -/
def griewank (xs : List α) : α :=
  sumFrom (nat 0) (fun _ c => sq c /' nat 4000) xs
    -' prodFrom (nat 1) (fun i c => Num.cos (c /' Num.sqrt (nat (i + 1)))) xs +' nat 1

/-- `Michaelwicz.evaluate` (m = 10): `f += sin(c) * sin((i+1)*c*c/pi) ** 20.` ; `-f` -/
def michalewicz (xs : List α) : α :=
  Num.neg (sumFrom (nat 0)
    (fun i c => Num.sin c *' Num.pow (Num.sin (nat (i + 1) *' c *' c /' Num.pi)) (nat 20)) xs)

/-- `Perm.evaluate` (b = 10): `for i in 1..n: for j, d in enumerate(x):
f += (j+1+b) * (d**i - 1./((j+1.)**i)) ** 2.` -/
def perm (xs : List α) : α :=
  (List.range xs.length).foldl (fun f i0 =>
    sumFrom f (fun j d =>
      nat (j + 1 + 10) *' sq (Num.pow d (nat (i0 + 1)) -' nat 1 /' Num.pow (nat (j + 1)) (nat (i0 + 1)))) xs)
    (nat 0)

/-- `Rastrigin.evaluate`: `fitness = 10*n; fitness += c**2 - (10*cos(2*pi*c))` -/
def rastrigin (xs : List α) : α :=
  sumFrom (nat (10 * xs.length)) (fun _ c => sq c -' nat 10 *' Num.cos (nat 2 *' Num.pi *' c)) xs

/-- `Zakharov.evaluate`: `f1 += c**2; f2 += 0.5*(i+1)*c; f3 += 0.5*(i+1)*c`;
`f1 + f2**2. + f3**2.` -/
def zakharov (xs : List α) : α :=
  sumFrom (nat 0) (fun _ c => sq c) xs
    +' sq (sumFrom (nat 0) (fun i c => rat (1/2) *' nat (i + 1) *' c) xs)
    +' sq (sumFrom (nat 0) (fun i c => rat (1/2) *' nat (i + 1) *' c) xs)

/-- `XinSheYang.evaluate`: `for c in x: f1 = fabs(c); f2 = sin(c**2.)` (assignments);
`f1 * exp(-f2)` -/
def xinSheYang1 (xs : List α) : α :=
  lastOf (nat 0) (fun c => Num.abs c) xs *' Num.exp (Num.neg (lastOf (nat 0) (fun c => Num.sin (sq c)) xs))

/-- `XinSheYang2.evaluate`: `f1 = -1.*(c/15.)**10.; f2 = -1.*c**2.; f3 = cos(c)**2.`
(assignments); `(exp(f1) - 2.*exp(f2)) * f3` -/
def xinSheYang2 (xs : List α) : α :=
  (Num.exp (lastOf (nat 0) (fun c => Num.neg (nat 1) *' Num.pow (c /' nat 15) (nat 10)) xs)
      -' nat 2 *' Num.exp (lastOf (nat 0) (fun c => Num.neg (nat 1) *' sq c) xs))
    *' lastOf (nat 1) (fun c => Num.pow (Num.cos c) (nat 2)) xs

/-- `XinSheYang3.evaluate` with the draws `eps_i = uniform(0, 1)` as an explicit input:
`for i, c in enumerate(x): f1 = eps_i * fabs(c - 1./(i+1.))` (assignment). -/
def xinSheYang3 (eps xs : List α) : α :=
  ((eps.zip xs).zipIdx).foldl (fun _ p => p.1.1 *' Num.abs (p.1.2 -' nat 1 /' nat (p.2 + 1))) (nat 0)

/-- `AlpineFunction.evaluate`: `f1 += abs(c*sin(c) + 0.1*c)` -/
def alpine (xs : List α) : α :=
  sumFrom (nat 0) (fun _ c => Num.abs (c *' Num.sin c +' rat (1/10) *' c)) xs

/-! ## fixed-arity families (`x[0]`, `x[1]`: extra coordinates are ignored, missing ones raise) -/

/-- `SixHump.evaluate` -/
def sixHump (x y : α) : α :=
  (nat 4 -' rat (21/10) *' Num.pow x (nat 2) +' Num.pow x (nat 4) /' nat 3) *' Num.pow x (nat 2)
    +' x *' y -' nat 4 *' Num.pow y (nat 2) +' nat 4 *' Num.pow y (nat 4)

/-- `Schubert.evaluate` (n = 5): `f1 += i*cos(i + (i+1)*x0)`, `f2` likewise with `x1`; `f1*f2` -/
def schubertSum (x : α) : α :=
  (List.range 5).foldl (fun acc i0 =>
    acc +' nat (i0 + 1) *' Num.cos (nat (i0 + 1) +' nat (i0 + 2) *' x)) (nat 0)

def schubert (x y : α) : α := schubertSum x *' schubertSum y

/-- `Booth.evaluate` -/
def booth (x y : α) : α :=
  sq (x +' nat 2 *' y -' nat 7) +' sq (nat 2 *' x +' y -' nat 5)

/-- `GramacyLee.evaluate`: `sin(10.*pi*x)/(2.*x) + (x-1.)**4` (the box [0.5, 2.5] excludes 0) -/
def gramacyLee (x : α) : α :=
  Num.sin (nat 10 *' Num.pi *' x) /' (nat 2 *' x) +' Num.pow (x -' nat 1) (nat 4)

/-- one Gaussian term `m * exp(-(s)/w)` of the synthetic functions -/
def gauss (m : α) (s : α) (w : Rat) : α := m *' Num.exp (Num.neg s /' rat w)

/-- `Synthetic2D.evaluate` (benchmark_robust.py) -/
def synthetic2D (x1 x2 : α) : α :=
  gauss (rat (7/10)) (sq (x1 -' nat 1) +' sq (x2 -' nat 1)) (18/100)
    +' gauss (rat (75/100)) (sq (x1 -' nat 1) +' sq (x2 -' nat 3)) (32/100)
    +' Num.exp (Num.neg (sq (x1 -' nat 3) +' sq (x2 -' nat 1)) /' nat 2)
    +' gauss (rat (12/10)) (sq (x1 -' nat 3) +' sq (x2 -' nat 4)) (32/100)
    +' Num.exp (Num.neg (sq (x1 -' nat 5) +' sq (x2 -' nat 2)) /' rat (72/100))

/-- one term `m * exp(-(x - c)**2. / w)` of `Synthetic1D` -/
def peak (m : α) (x : α) (c w : Rat) : α := m *' Num.exp (Num.neg (sq (x -' rat c)) /' rat w)
/-- a term written without multiplier in the code: `exp(-(x - c)**2. / w)` -/
def peak1 (x : α) (c w : Rat) : α := Num.exp (Num.neg (sq (x -' rat c)) /' rat w)

/-- `Synthetic1D.evaluate` (benchmark_robust.py), the fifteen terms in source order -/
def synthetic1D (x : α) : α :=
  peak1 x 1 (1/2) +' peak (nat 2) x (125/100) (45/1000) +' peak (rat (1/2)) x (15/10) (128/10000)
    +' peak (nat 2) x (16/10) (5/1000) +' peak (rat (25/10)) x (18/10) (2/100)
    +' peak (rat (25/10)) x (22/10) (2/100) +' peak (nat 2) x (24/10) (5/1000)
    +' peak (nat 2) x (275/100) (45/1000) +' peak1 x 3 (1/2) +' peak (nat 2) x 6 (32/100)
    +' peak (rat (22/10)) x 7 (18/100) +' peak (rat (24/10)) x 8 (1/2)
    +' peak (rat (23/10)) x (95/10) (1/2) +' peak (rat (32/10)) x 11 (18/100)
    +' peak (rat (12/10)) x 12 (18/100)

/-- `atom_nd(width, multiplier, x, z)` (benchmark_robust.py): `res = Σ (x[i]-z[i])**2.; res /= -width;
exp(res) * multiplier` (the caller guarantees `len(x) ≤ len(z)`, otherwise `z[i]` raises) -/
def atomNd (w m : Rat) (xs : List α) (zs : List Rat) : α :=
  Num.exp ((xs.zip zs).foldl (fun acc p => acc +' sq (p.1 -' rat p.2)) (nat 0) /' Num.neg (rat w)) *' rat m

/-- `result = atom_nd(..); result += atom_nd(..); …` over a table of `(width, multiplier, z)` -/
def atomSum (tbl : List (Rat × Rat × List Rat)) (xs : List α) : Option α :=
  match tbl with
  | [] => none
  | (w, m, z) :: rest => some (rest.foldl (fun acc t => acc +' atomNd t.1 t.2.1 xs t.2.2) (atomNd w m xs z))

/-- the ten Gaussians of `Synthetic5D.evaluate` -/
def synthetic5DTable : List (Rat × Rat × List Rat) :=
  [(3/10, 7/10, [10, 1, 6, 7, 8]), (4/10, 75/100, [1, 3, 8, 95/10, 2]), (1, 1, [3, 1, 3, 2, 5]),
   (4/10, 12/10, [3, 4, 13/10, 5, 5]), (6/10, 1, [5, 2, 96/10, 73/10, 86/10]),
   (5/10, 6/10, [75/10, 8, 9, 32/10, 46/10]), (1/10, 5/10, [57/10, 93/10, 22/10, 84/10, 71/10]),
   (1, 2/10, [55/10, 72/10, 58/10, 23/10, 45/10]), (2/10, 4/10, [47/10, 32/10, 55/10, 71/10, 33/10]),
   (3/10, 1/10, [97/10, 84/10, 6/10, 32/10, 85/10])]

/-- the ten Gaussians of `Synthetic10D.evaluate` (the first centre continues with 1.0, not 10.) -/
def synthetic10DTable : List (Rat × Rat × List Rat) :=
  [(3/10, 7/10, [10, 1, 6, 7, 8, 1, 1, 6, 7, 8]), (4/10, 75/100, [1, 3, 8, 95/10, 2, 1, 3, 8, 95/10, 2]),
   (1, 1, [3, 1, 3, 2, 5, 3, 1, 3, 2, 5]), (4/10, 12/10, [3, 4, 13/10, 5, 5, 3, 4, 13/10, 5, 5]),
   (6/10, 1, [5, 2, 96/10, 73/10, 86/10, 5, 2, 96/10, 73/10, 86/10]),
   (5/10, 6/10, [75/10, 8, 9, 32/10, 46/10, 75/10, 8, 9, 32/10, 46/10]),
   (1/10, 5/10, [57/10, 93/10, 22/10, 84/10, 71/10, 57/10, 93/10, 22/10, 84/10, 71/10]),
   (1, 2/10, [55/10, 72/10, 58/10, 23/10, 45/10, 55/10, 72/10, 58/10, 23/10, 45/10]),
   (2/10, 4/10, [47/10, 32/10, 55/10, 71/10, 33/10, 47/10, 32/10, 55/10, 71/10, 33/10]),
   (3/10, 1/10, [97/10, 84/10, 6/10, 32/10, 85/10, 97/10, 84/10, 6/10, 32/10, 85/10])]

end formulas

/-! ## The table: names, evaluation with explicit errors, boxes, documented optima -/

inductive Family where
  | rosenbrock | ackley | sphere | schwefel | modifiedEasom | equalityConstr | griewank
  | michalewicz | perm | rastrigin | sixHump | schubert | zakharov | xinSheYang1 | xinSheYang2
  | xinSheYang3 | booth | gramacyLee | alpine | synthetic1D | synthetic2D | synthetic5D | synthetic10D
  deriving DecidableEq, Repr

/-- Python class names (artap.benchmark_functions / artap.benchmark_robust). -/
def Family.ofName : String → Option Family
  | "Rosenbrock" => some .rosenbrock | "Ackley" => some .ackley | "Sphere" => some .sphere
  | "Schwefel" => some .schwefel | "ModifiedEasom" => some .modifiedEasom
  | "EqualityConstr" => some .equalityConstr | "Griewank" => some .griewank
  | "Michaelwicz" => some .michalewicz | "Perm" => some .perm | "Rastrigin" => some .rastrigin
  | "SixHump" => some .sixHump | "Schubert" => some .schubert | "Zakharov" => some .zakharov
  | "XinSheYang" => some .xinSheYang1 | "XinSheYang2" => some .xinSheYang2
  | "XinSheYang3" => some .xinSheYang3 | "Booth" => some .booth | "GramacyLee" => some .gramacyLee
  | "AlpineFunction" => some .alpine | "Synthetic1D" => some .synthetic1D
  | "Synthetic2D" => some .synthetic2D | "Synthetic5D" => some .synthetic5D
  | "Synthetic10D" => some .synthetic10D
  | _ => none

section table
variable {α : Type} [Num α] [NumOrd α]

/-- `evaluate(Individual(xs))[0]` for the deterministic families; `none` = the call raises
(or, for the randomised `XinSheYang3`, needs its draws: use `xinSheYang3`). -/
def eval : Family → List α → Option α
  | .rosenbrock, xs => some (rosenbrock xs)
  | .ackley, [] => none
  | .ackley, xs => some (ackley xs)
  | .sphere, xs => some (sphere xs)
  | .schwefel, xs => some (schwefel xs)
  | .modifiedEasom, xs => some (modifiedEasom xs)
  | .equalityConstr, xs => some (equalityConstr xs)
  | .griewank, xs => some (griewank xs)
  | .michalewicz, xs => some (michalewicz xs)
  | .perm, xs => some (perm xs)
  | .rastrigin, xs => some (rastrigin xs)
  | .sixHump, x :: y :: _ => some (sixHump x y)
  | .schubert, x :: y :: _ => some (schubert x y)
  | .zakharov, xs => some (zakharov xs)
  | .xinSheYang1, xs => some (xinSheYang1 xs)
  | .xinSheYang2, xs => some (xinSheYang2 xs)
  | .booth, x :: y :: _ => some (booth x y)
  | .gramacyLee, x :: _ => some (gramacyLee x)
  | .alpine, xs => some (alpine xs)
  | .synthetic1D, x :: _ => some (synthetic1D x)
  | .synthetic2D, x :: y :: _ => some (synthetic2D x y)
  | .synthetic5D, xs => if xs.length ≤ 5 then atomSum synthetic5DTable xs else none
  | .synthetic10D, xs => if xs.length ≤ 10 then atomSum synthetic10DTable xs else none
  | _, _ => none

/-- `true` = the family has a fixed number of parameters (the `dimension` keyword is ignored). -/
def fixedDim : Family → Option Nat
  | .sixHump | .schubert | .booth | .synthetic2D => some 2
  | .gramacyLee | .synthetic1D => some 1
  | .synthetic5D => some 5
  | .synthetic10D => some 10
  | _ => none

/-- number of parameters of the problem constructed with `dimension = n` -/
def dim (F : Family) (n : Nat) : Nat := (fixedDim F).getD n

/-- `[p['bounds'] for p in parameters]` for `dimension = n` -/
def box (F : Family) (n : Nat) : List (α × α) :=
  match F with
  | .rosenbrock => List.replicate n (Num.neg (nat 5), nat 10)
  | .ackley => List.replicate n (Num.neg (nat 32), nat 32)
  | .sphere => List.replicate n (Num.neg (rat (512/100)), rat (512/100))
  | .schwefel => List.replicate n (Num.neg (nat 500), nat 500)
  | .modifiedEasom => List.replicate n (Num.mul (Num.neg (nat 2)) Num.pi, Num.mul (nat 2) Num.pi)
  | .equalityConstr => List.replicate n (nat 0, nat 1)
  | .griewank => List.replicate n (Num.neg (nat 512), nat 512)
  | .michalewicz => List.replicate n (nat 0, Num.pi)
  | .perm => List.replicate n (Num.neg (nat n), nat n)
  | .rastrigin => List.replicate n (Num.neg (rat (512/100)), rat (512/100))
  | .sixHump => [(Num.neg (nat 3), nat 3), (Num.neg (nat 2), nat 2)]
  | .schubert => [(Num.neg (nat 10), nat 10), (Num.neg (nat 10), nat 10)]
  | .zakharov => List.replicate n (Num.neg (nat 5), nat 10)
  | .xinSheYang1 => List.replicate n (Num.mul (Num.neg (nat 2)) Num.pi, Num.mul (nat 2) Num.pi)
  | .xinSheYang2 => List.replicate n (Num.neg (nat 20), nat 20)
  | .xinSheYang3 => List.replicate n (Num.neg (nat 5), nat 5)
  | .booth => [(Num.neg (nat 5), nat 5), (Num.neg (nat 5), nat 5)]
  | .gramacyLee => [(rat (1/2), rat (5/2))]
  | .alpine => List.replicate n (nat 0, nat 10)
  | .synthetic1D => [(nat 0, nat 12)]
  | .synthetic2D => [(nat 0, nat 5), (nat 0, nat 5)]
  | .synthetic5D => List.replicate 5 (nat 0, nat 5)
  | .synthetic10D => List.replicate 10 (nat 0, nat 5)

/-- `1./float(j+1)` for `j in range(n)` (Perm, XinSheYang3) -/
def harmonic (n : Nat) : List α := (List.range n).map (fun j => Num.div (nat 1) (nat (j + 1)))

/-- `global_optimum`; `none` = the constructor raises `ValueError` (Michalewicz outside 2, 5, 10) -/
def optimum (F : Family) (n : Nat) : Option α :=
  match F with
  | .rosenbrock | .ackley | .sphere | .schwefel | .griewank | .perm | .rastrigin | .zakharov
  | .xinSheYang1 | .xinSheYang3 | .booth | .alpine => some (nat 0)
  | .modifiedEasom | .equalityConstr | .xinSheYang2 => some (Num.neg (nat 1))
  | .michalewicz =>
    if n = 2 then some (Num.neg (rat (18013/10000)))
    else if n = 5 then some (Num.neg (rat (4687658/1000000)))
    else if n = 10 then some (Num.neg (rat (966015/100000)))
    else none
  | .sixHump => some (Num.neg (rat (10316/10000)))
  | .schubert => some (Num.neg (rat (1867309/10000)))
  | .gramacyLee => some (Num.neg (rat (869011134989500/1000000000000000)))
  | .synthetic1D => some (rat (323/100))
  | .synthetic2D => some (rat (121112/100000))
  | .synthetic5D | .synthetic10D => some (rat (12/10))

/-- `global_optimum_coords`; `none` = the attribute is not set -/
def optCoords (F : Family) (n : Nat) : Option (List α) :=
  match F with
  | .rosenbrock => some (List.replicate n (nat 1))
  | .ackley | .sphere | .griewank | .rastrigin | .zakharov | .xinSheYang1 | .xinSheYang2 | .alpine =>
    some (List.replicate n (nat 0))
  | .schwefel => some (List.replicate n (rat (4209687/10000)))
  | .modifiedEasom => some (List.replicate n Num.pi)
  | .equalityConstr => some (List.replicate n (Num.div (nat 1) (Num.sqrt (nat n))))
  | .michalewicz => if n = 2 then some [rat (220/100), rat (157/100)] else none
  | .perm | .xinSheYang3 => some (harmonic n)
  | .sixHump => some [rat (898/10000), Num.neg (rat (7126/10000))]
  | .schubert => none
  | .booth => some [nat 1, nat 3]
  | .gramacyLee => some [rat (548563444114526/1000000000000000)]
  | .synthetic1D => some [nat 11]
  | .synthetic2D => some [nat 3, nat 4]
  | .synthetic5D => some [nat 3, nat 4, rat (13/10), nat 5, nat 5]
  | .synthetic10D => some [nat 3, nat 4, rat (13/10), nat 5, nat 5, nat 3, nat 4, rat (13/10), nat 5, nat 5]

/-- the documented direction: `true` = minimised.  The four synthetic functions document their *highest*
peak as the global optimum, so they are maximised (`Synthetic5D`/`Synthetic10D` declare `'minimize'` in
the unchanged code – reported as a finding of C15). -/
def minimised : Family → Bool
  | .synthetic1D | .synthetic2D | .synthetic5D | .synthetic10D => false
  | _ => true

end table

/-! ## line protocol -/
open Artap.Proto

def showOpt (o : Option Float) : String :=
  match o with
  | some v => showFloat v
  | none => "raise"

/-- protocol:
* `c15.eval <Class> <x bits,…>` → value bits, or `raise`
* `c15.xsy3 <eps bits,…>|<x bits,…>` → value bits
* `c15.meta <Class> <n>` → `lb,ub;…|<optimum bits or raise>|<coords bits,… or N>|<min|max>` -/
def handle (op : String) (arg : String) : Option String :=
  match op with
  | "c15.eval" =>
    match (tok arg).splitOn " " with
    | [name, v] => do
      let F ← Family.ofName name
      let xs ← parseList? parseFloat? v
      some (showOpt (eval F xs))
    | [name] => do
      let F ← Family.ofName name
      some (showOpt (eval F ([] : List Float)))
    | _ => none
  | "c15.xsy3" =>
    match arg.splitOn "|" with
    | [e, v] => do
      let es ← parseList? parseFloat? e
      let xs ← parseList? parseFloat? v
      if es.length ≠ xs.length then none else
      some (showFloat (xinSheYang3 es xs))
    | _ => none
  | "c15.meta" =>
    match (tok arg).splitOn " " with
    | [name, n] => do
      let F ← Family.ofName name
      let n ← parseNat? n
      let b : List (Float × Float) := box F n
      let bs := String.intercalate ";" (b.map fun p => showFloat p.1 ++ "," ++ showFloat p.2)
      let cs := match (optCoords F n : Option (List Float)) with
        | some l => if l.isEmpty then "E" else showList showFloat l
        | none => "N"
      some (bs ++ "|" ++ showOpt (optimum F n) ++ "|" ++ cs ++ "|" ++ (if minimised F then "min" else "max"))
    | _ => none
  | _ => none

end Artap.Bench
