import ArtapModel.Model.Proto
/-!
# Model of the result queries (artap/results.py, artap/problem.py) and of the quality
# indicators (artap/quality_indicator.py)

Queries (regime R1): the code only moves values around and compares them (`sorted`, `min`,
`max`, `>` on tags), so parameter and cost values travel as `Int` through the order embedding φ
and every answer is exact.  A recorded individual is `(idx, tag, vector, costs)` where `idx` is its
position in `problem.individuals` (the harness maps Python objects back to positions, so that
individuals with equal values stay distinguishable).

Indicators (regime R2): exact rationals.

`none` is a Python exception (`IndexError` for a missing cost / parameter, `ValueError` for
`min([])`, numpy's error for an empty reduction); nothing is defaulted.
-/
namespace Artap.Results

structure Ind where
  idx : Nat
  tag : Int
  vector : List Int
  costs : List Int
  deriving DecidableEq, Repr

/-- A `for x in xs: out.append(f(x))` loop whose body may raise. -/
def collect {α β} (f : α → Option β) : List α → Option (List β)
  | [] => some []
  | x :: xs =>
    match f x with
    | none => none
    | some b =>
      match collect f xs with
      | none => none
      | some bs => some (b :: bs)

/-! ## artap/problem.py -/

/-- `Problem.population(population_id)`: the loop with `append`. -/
def population (inds : List Ind) (pid : Int) : List Ind :=
  inds.foldl (fun acc i => if i.tag == pid then acc ++ [i] else acc) []

/-- The `max_index` loop of `Problem.last_population` (starts at `-1`). -/
def lastTag (inds : List Ind) : Int :=
  inds.foldl (fun m i => if i.tag > m then i.tag else m) (-1)

def lastPopulation (inds : List Ind) : List Ind := population inds (lastTag inds)

/-- One iteration of `Problem.populations()` on the insertion-ordered dict `d`. -/
def popStep (d : List (Int × List Ind)) (i : Ind) : List (Int × List Ind) :=
  if d.any (fun kg => kg.1 == i.tag) then
    d.map (fun kg => if kg.1 == i.tag then (kg.1, kg.2 ++ [i]) else kg)
  else d ++ [(i.tag, [i])]

/-- `Problem.populations()`: dict tag → individuals, keys in order of first appearance. -/
def populations (inds : List Ind) : List (Int × List Ind) := inds.foldl popStep []

/-! ## artap/results.py -/

/-- `Results.population(population_id=-1)`; `-1` is the sentinel for "last". -/
def populationQuery (inds : List Ind) (pid : Int) : List Ind :=
  if pid == -1 then lastPopulation inds else population inds pid

/-- the individuals in the order in which `table`, `parameters`, `export_to_csv` visit them -/
def grouped (inds : List Ind) : List Ind := (populations inds).flatMap (·.2)

/-- `Results.table(transpose=False)`. -/
def tableRows (inds : List Ind) : List (List Int) := (grouped inds).map (fun i => i.vector ++ i.costs)

def minLength : List (List Int) → Nat
  | [] => 0
  | [r] => r.length
  | r :: rs => min r.length (minLength rs)

/-- `list(zip(*rows))`: column `j` for every `j` below the length of the shortest row. -/
def zipStar (rows : List (List Int)) : Option (List (List Int)) :=
  collect (fun j => collect (fun (r : List Int) => r[j]?) rows) (List.range (minLength rows))

/-- `Results.table(transpose=True)`. -/
def tableT (inds : List Ind) : Option (List (List Int)) := zipStar (tableRows inds)

/-- lexicographic `<=` on pairs – Python's tuple comparison inside `sorted(zip(a, b))`. -/
def lexLe (p q : Int × Int) : Bool := p.1 < q.1 || (p.1 == q.1 && p.2 ≤ q.2)

/-- `Results.sort_list(list_1, list_2)`: `[x for _, x in sorted(zip(list_1, list_2))]`. -/
def sortList (l1 l2 : List Int) : List Int :=
  ((List.zip l1 l2).mergeSort (fun p q => lexLe p q)).map (·.2)

/-- `list.sort()` on numbers. -/
def sortAsc (l : List Int) : List Int := l.mergeSort (fun a b => a ≤ b)

/-- both look-ups succeed (otherwise `IndexError`) -/
def both : Option Int → Option Int → Option (Int × Int)
  | some a, some b => some (a, b)
  | _, _ => none

/-- The common shape of the three two-column listings: one loop appending `fa(individual)` to the first
and `fb(individual)` to the second list, then `second = sort_list(first, second); first.sort()`. -/
def pairListing (fa fb : Ind → Option Int) (pop : List Ind) (sorted : Bool) :
    Option (List Int × List Int) :=
  match collect (fun i => both (fa i) (fb i)) pop with
  | none => none
  | some pairs =>
    let v1 := pairs.map (·.1)
    let v2 := pairs.map (·.2)
    if sorted then some (sortAsc v1, sortList v1 v2) else some (v1, v2)

/-- `Results.goal_on_parameter(parameter, goal, population_id, sorted)` with the two names already
resolved to indices; returns `[parameter_values, goal_values]`. -/
def goalOnParameter (inds : List Ind) (pi gi : Nat) (pid : Int) (sorted : Bool) :
    Option (List Int × List Int) :=
  pairListing (fun i => i.vector[pi]?) (fun i => i.costs[gi]?) (populationQuery inds pid) sorted

/-- `Results.parameter_on_goal(goal, parameter, population_id, sorted)`: calls `goal_on_parameter`
unsorted, then sorts by the goal; returns `[goal_values, parameter_values]`. -/
def parameterOnGoal (inds : List Ind) (gi pi : Nat) (pid : Int) (sorted : Bool) :
    Option (List Int × List Int) :=
  match goalOnParameter inds pi gi pid false with
  | none => none
  | some (pv, gv) => if sorted then some (sortAsc gv, sortList gv pv) else some (gv, pv)

/-- `Results.parameter_on_parameter(p1, p2, population_id, sorted)`. -/
def parameterOnParameter (inds : List Ind) (i1 i2 : Nat) (pid : Int) (sorted : Bool) :
    Option (List Int × List Int) :=
  pairListing (fun i => i.vector[i1]?) (fun i => i.vector[i2]?) (populationQuery inds pid) sorted

/-- The value rows of `goal_on_index` / `parameter_on_index` (the leading `list(range(n))` row is
its length only): with a name, the single column `sel`; without, columns `0 … count-1`. -/
def selCols (sel : Option Nat) (count : Nat) : List Nat :=
  match sel with
  | some j => [j]
  | none => List.range count

def onIndex (field : Ind → List Int) (inds : List Ind) (sel : Option Nat) (count : Nat) (pid : Int) :
    Option (Nat × List (List Int)) :=
  match collect (fun j => collect (fun (i : Ind) => (field i)[j]?) (populationQuery inds pid))
      (selCols sel count) with
  | none => none
  | some t => some ((populationQuery inds pid).length, t)

/-- `min(individuals, key=…)` / `max(individuals, key=…)` with `key = x.costs[index]`: keep the first
element, replace it whenever a later key is `better` (`<` for `min`, `>` for `max`). -/
def bestStep (better : Int → Int → Bool) (index : Nat) (acc : Option (Ind × Int)) (x : Ind) :
    Option (Ind × Int) :=
  match acc, x.costs[index]? with
  | some (b, cb), some cx => if better cx cb then some (x, cx) else some (b, cb)
  | _, _ => none

def bestByCost (better : Int → Int → Bool) (index : Nat) : List Ind → Option Ind
  | [] => none
  | i :: is =>
    match i.costs[index]? with
    | none => none
    | some c => (is.foldl (bestStep better index) (some (i, c))).map (·.1)

def minByCost (index : Nat) : List Ind → Option Ind := bestByCost (fun cx cb => decide (cx < cb)) index
def maxByCost (index : Nat) : List Ind → Option Ind := bestByCost (fun cx cb => decide (cx > cb)) index

/-- `Results.find_optimum(name)` over **all** recorded individuals; `minimize` is
`criteria == 'minimize' or criteria is None`.  `none`: no individuals (`min([])` raises). -/
def findOptimum (inds : List Ind) (minimize : Bool) (index : Nat) : Option Ind :=
  if minimize then minByCost index inds else maxByCost index inds

/-! ## artap/quality_indicator.py -/

abbrev Pt := List Rat

/-- extended value: `np.inf` or a number -/
inductive Ext where
  | fin (r : Rat)
  | inf
  deriving DecidableEq, Repr

/-- the scan of Python's `max(...)` over the remaining coordinate differences: keep the running
maximum `m`, replace it when a later difference is larger. -/
def maxDiffAux (m : Rat) : Pt → Pt → Option Rat
  | [], [] => some m
  | c :: cs, r :: rs => maxDiffAux (if c - r > m then c - r else m) cs rs
  | _, _ => none

/-- `max(np.subtract(comp, ref))`; `none` for an empty or ragged pair (numpy raises / broadcasts –
outside the quantifier, never compared). -/
def maxDiff : Pt → Pt → Option Rat
  | c :: cs, r :: rs => maxDiffAux (c - r) cs rs
  | _, _ => none

/-- `min(eps_k, eps_j)` where `eps_j` may still be `np.inf`. -/
def extMin (k : Rat) : Ext → Ext
  | .inf => .fin k
  | .fin j => if j < k then .fin j else .fin k

/-- `max(eps, eps_j)`. -/
def extMax : Ext → Ext → Ext
  | .inf, _ => .inf
  | .fin _, .inf => .inf
  | .fin e, .fin j => if j > e then .fin j else .fin e

/-- inner loop: `eps_j = min(eps_k, eps_j)` starting from `np.inf`. -/
def epsJ (ref : Pt) : List Pt → Ext → Option Ext
  | [], acc => some acc
  | c :: cs, acc =>
    match maxDiff c ref with
    | none => none
    | some k => epsJ ref cs (extMin k acc)

/-- outer loop: `eps = max(eps, eps_j)` starting from `0.0`. -/
def epsLoop (computed : List Pt) : List Pt → Ext → Option Ext
  | [], acc => some acc
  | r :: rs, acc =>
    match epsJ r computed .inf with
    | none => none
    | some j => epsLoop computed rs (extMax acc j)

/-- `epsilon_add(reference, computed)`. -/
def epsilonAdd (reference computed : List Pt) : Option Ext := epsLoop computed reference (.fin 0)

/-- squared euclidean distance; `none` for points of different dimension (`cdist` raises). -/
def sqDist : Pt → Pt → Option Rat
  | [], [] => some 0
  | a :: as, b :: bs =>
    match sqDist as bs with
    | none => none
    | some s => some ((a - b) * (a - b) + s)
  | _, _ => none

/-- `min` over the reference points of the squared distance to `c`; `none` for no reference point. -/
def minSq (c : Pt) : List Pt → Option Rat
  | [] => none
  | [r] => sqDist c r
  | r :: rs =>
    match sqDist c r, minSq c rs with
    | some d, some m => some (if d < m then d else m)
    | _, _ => none

/-- `gd(reference, computed)` is `sum(sqrt(s) for s in gdSq) / len(computed)`: for every computed point
the squared distance to its nearest reference point (the square root is taken outside the model).
`none` when either set is empty (numpy raises / divides by zero). -/
def gdSq (reference computed : List Pt) : Option (List Rat) :=
  if computed.isEmpty then none else collect (fun c => minSq c reference) computed

/-! ## line protocol -/
open Artap.Proto

/-- an individual travels as `tag,nv,v_1..v_nv,c_1..` -/
def parseInd? (idx : Nat) (row : List Int) : Option Ind :=
  match row with
  | tag :: nv :: rest =>
    if nv < 0 ∨ nv.toNat > rest.length then none
    else some ⟨idx, tag, rest.take nv.toNat, rest.drop nv.toNat⟩
  | _ => none

def parseInds? (s : String) : Option (List Ind) := do
  let rows ← parseMat? parseInt? s
  allSome ((List.zipIdx rows).map (fun (r, k) => parseInd? k r))

def showIdx (l : List Ind) : String := showList toString (l.map (·.idx))
def showInts (l : List Int) : String := showList toString l
def showPair : Option (List Int × List Int) → String
  | none => "raise"
  | some (a, b) => "ok " ++ showInts a ++ "|" ++ showInts b

def handle (op : String) (arg : String) : Option String :=
  match op, arg.splitOn "|" with
  | "c17.pop", [pid, inds] => do
    let pid ← parseInt? pid
    let inds ← parseInds? inds
    some ("ok " ++ showIdx (populationQuery inds pid))
  | "c17.groups", [inds] => do
    let inds ← parseInds? inds
    some ("ok " ++ String.intercalate ";" ((populations inds).map (fun kg => s!"{kg.1}:" ++ showIdx kg.2)))
  | "c17.table", [inds] => do
    let inds ← parseInds? inds
    some ("ok " ++ showMat toString (tableRows inds))
  | "c17.tableT", [inds] => do
    let inds ← parseInds? inds
    some (match tableT inds with
      | none => "raise"
      | some t => "ok " ++ showMat toString t)
  | "c17.gop", [a, inds] => do
    let inds ← parseInds? inds
    match ← parseList? parseInt? a with
    | [pi, gi, pid, srt] => some (showPair (goalOnParameter inds pi.toNat gi.toNat pid (srt != 0)))
    | _ => none
  | "c17.pog", [a, inds] => do
    let inds ← parseInds? inds
    match ← parseList? parseInt? a with
    | [gi, pi, pid, srt] => some (showPair (parameterOnGoal inds gi.toNat pi.toNat pid (srt != 0)))
    | _ => none
  | "c17.pop2", [a, inds] => do
    let inds ← parseInds? inds
    match ← parseList? parseInt? a with
    | [i1, i2, pid, srt] => some (showPair (parameterOnParameter inds i1.toNat i2.toNat pid (srt != 0)))
    | _ => none
  | "c17.onindex", [a, inds] => do
    let inds ← parseInds? inds
    match ← parseList? parseInt? a with
    | [which, sel, count, pid] =>
      let field : Ind → List Int := if which == 0 then (·.costs) else (·.vector)
      let sel := if sel < 0 then none else some sel.toNat
      some (match onIndex field inds sel count.toNat pid with
        | none => "raise"
        | some (n, t) => s!"ok {n}|" ++ showMat toString t)
    | _ => none
  | "c17.opt", [a, inds] => do
    let inds ← parseInds? inds
    match ← parseList? parseInt? a with
    | [mn, index] => some (match findOptimum inds (mn != 0) index.toNat with
        | none => "raise"
        | some o => match o.costs[index.toNat]? with
          | none => "raise"
          | some c => s!"ok {o.idx},{c}")
    | _ => none
  | "c17.eps", [r, c] => do
    let r ← parseMat? parseRat? r
    let c ← parseMat? parseRat? c
    some (match epsilonAdd r c with
      | none => "raise"
      | some .inf => "inf"
      | some (.fin e) => "ok " ++ showRat e)
  | "c17.gd", [r, c] => do
    let r ← parseMat? parseRat? r
    let c ← parseMat? parseRat? c
    some (match gdSq r c with
      | none => "raise"
      | some l => "ok " ++ showList showRat l)
  | _, _ => none

end Artap.Results
