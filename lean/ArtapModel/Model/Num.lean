/-!
# `Num α` — the arithmetic a benchmark formula needs, so that each formula is written once

Regime R3 (DESIGN.md 3.1): `Num Float` (below) makes a formula executable for the
correspondence check; `Num ℝ` (in `Proofs/NumReal.lean`, noncomputable) is what the theorems
are about.  Both interpretations share the syntax tree of the definition.

The operators `+ - * /` and unary `-` on a `Num` carrier are **scoped** instances
(`open scoped Artap.NumOps` in a Model file) so that they never compete with Mathlib's
instances on `ℝ` inside proof files.
-/
namespace Artap

class Num (α : Type) where
  add : α → α → α
  sub : α → α → α
  mul : α → α → α
  div : α → α → α
  neg : α → α
  ofNat : Nat → α
  /-- exact rational constant (`0.5`, `1/4000`, …) -/
  ofRat : Rat → α
  sin : α → α
  cos : α → α
  exp : α → α
  sqrt : α → α
  abs : α → α
  /-- `x ** y` / `math.pow(x, y)` with a real exponent -/
  pow : α → α → α
  pi : α

namespace NumOps
scoped instance {α} [Num α] : Add α := ⟨Num.add⟩
scoped instance {α} [Num α] : Sub α := ⟨Num.sub⟩
scoped instance {α} [Num α] : Mul α := ⟨Num.mul⟩
scoped instance {α} [Num α] : Div α := ⟨Num.div⟩
scoped instance {α} [Num α] : Neg α := ⟨Num.neg⟩
end NumOps

/-- π as the double `math.pi` = 0x400921fb54442d18. -/
def floatPi : Float := Float.ofBits 0x400921fb54442d18

def floatOfRat (r : Rat) : Float := Float.ofInt r.num / Float.ofNat r.den

instance : Num Float where
  add := (· + ·)
  sub := (· - ·)
  mul := (· * ·)
  div := (· / ·)
  neg := fun x => -x
  ofNat := Float.ofNat
  ofRat := floatOfRat
  sin := Float.sin
  cos := Float.cos
  exp := Float.exp
  sqrt := Float.sqrt
  abs := Float.abs
  pow := Float.pow
  pi := floatPi

/-- `Σ_i f i x_i` over a list with 0-based index (left fold, like the Python loops). -/
def sumIdx {α} [Num α] (f : Nat → α → α) (xs : List α) : α :=
  (xs.zipIdx).foldl (fun acc (x, i) => Num.add acc (f i x)) (Num.ofNat 0)

/-- `Π_i f i x_i` with 0-based index (left fold from 1). -/
def prodIdx {α} [Num α] (f : Nat → α → α) (xs : List α) : α :=
  (xs.zipIdx).foldl (fun acc (x, i) => Num.mul acc (f i x)) (Num.ofNat 1)

end Artap
