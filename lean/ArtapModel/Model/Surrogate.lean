import ArtapModel.Model.Proto
/-!
# Model of the surrogate wrappers (artap/surrogate.py, surrogate_scikit.py, surrogate_smt.py) — C19

A state machine over evaluation requests.  The user's objective `f` (`Problem.evaluate`) and
the answers of the user's `predict` hook are parameters: a request carries the design vector
and what the hook *would* answer if it were consulted (`none` = the hook declines).
Values only travel (they are returned, stored, counted; never computed with), so vectors and
cost lists are lists of `Int` (the harness uses integer-valued doubles).

`SurrogateModelScikit.train` / `SurrogateModelSMT.train` are modelled by what the wrapper
relies on: the call happens (counted, with the size of the training set it sees) and sets
`trained = True`.  The regressor behind it is in the trusted base.

Python exceptions are explicit `none`: `eval_counter % 0` for `train_step = 0`.
-/
namespace Artap.Surrogate

structure St where
  trained : Bool
  evalCount : Nat
  predCount : Nat
  /-- `x_data`, `y_data` -/
  xs : List (List Int)
  ys : List (List Int)
  /-- number of `train()` calls made by the wrapper, and `len(x_data)` at each of them -/
  trainCalls : Nat
  trainSizes : List Nat
  /-- log of calls of the true objective -/
  fcalls : List (List Int)
deriving DecidableEq

/-- `SurrogateModel.__init__` (`trained0` = the flag as the user left it: `False` after
construction, `True` after a manual `train()`). -/
def St.init (trained0 : Bool) : St := ⟨trained0, 0, 0, [], [], 0, [], []⟩

structure Req where
  x : List Int
  /-- answer of `problem.predict(individual)` if it is consulted -/
  hook : Option (List Int)

/-- `SurrogateModelEval.evaluate` (the pass-through wrapper). -/
def passStep (f : List Int → List Int) (s : St) (r : Req) : St × List Int :=
  ({ s with evalCount := s.evalCount + 1, fcalls := s.fcalls ++ [r.x] }, f r.x)

def passRun (f : List Int → List Int) : St → List Req → St × List (List Int)
  | s, [] => (s, [])
  | s, r :: rs =>
    let (s1, v) := passStep f s r
    let (s2, vs) := passRun f s1 rs
    (s2, v :: vs)

/-- The first half of `SurrogateModelPredict.evaluate`: the hook is consulted only when the
model is trained and the problem has a `predict` attribute (`hasHook`). -/
def prediction (hasHook : Bool) (s : St) (r : Req) : Option (List Int) :=
  if s.trained && hasHook then r.hook else none

/-- `SurrogateModelPredict.evaluate_individual`. -/
def trueEval (f : List Int → List Int) (ts : Int) (s : St) (r : Req) : Option (St × List Int) :=
  let v := f r.x
  let s1 := { s with evalCount := s.evalCount + 1, xs := s.xs ++ [r.x], ys := s.ys ++ [v],
                     fcalls := s.fcalls ++ [r.x] }
  if ts = -1 then some (s1, v)
  else if ts = 0 then none
  else if (s1.evalCount : Int) % ts = 0 then
    some ({ s1 with trained := true, trainCalls := s1.trainCalls + 1,
                    trainSizes := s1.trainSizes ++ [s1.xs.length] }, v)
  else some (s1, v)

/-- `SurrogateModelPredict.evaluate(individual)`. -/
def step (f : List Int → List Int) (hasHook : Bool) (ts : Int) (s : St) (r : Req) :
    Option (St × List Int) :=
  match prediction hasHook s r with
  | some v => some ({ s with predCount := s.predCount + 1 }, v)
  | none => trueEval f ts s r

def run (f : List Int → List Int) (hasHook : Bool) (ts : Int) : St → List Req → Option (St × List (List Int))
  | s, [] => some (s, [])
  | s, r :: rs => match step f hasHook ts s r with
    | some (s1, v) => match run f hasHook ts s1 rs with
      | some (s2, vs) => some (s2, v :: vs)
      | none => none
    | none => none

/-! ## Line protocol

`c19.pass <objective>|<requests>` and `c19.pred <hasHook 0/1>|<trainStep>|<trained0 0/1>|<objective>|<requests>`;
`objective`: `;`-separated integer rows `c,a_1..a_n` (value `c + Σ a_i x_i` each);
`requests`: `;`-separated `x_1,…,x_n:H` with `H` = `N` (hook declines) or the predicted cost list.
Answer: `returned values (;) # trained|evalCount|predCount|trainCalls|trainSizes|xs|ys|fcalls`, or `raise`.
-/
open Artap.Proto

def evalLin (row : List Int) (x : List Int) : Int :=
  row.getD 0 0 + (List.zipWith (· * ·) (row.drop 1) x).sum

def mkObj (rows : List (List Int)) : List Int → List Int := fun x => rows.map (fun r => evalLin r x)

def parseReq? (s : String) : Option Req :=
  match s.splitOn ":" with
  | [x, h] => do
    let x ← parseList? parseInt? x
    if tok h == "N" then some ⟨x, none⟩ else do
      let h ← parseList? parseInt? h
      some ⟨x, some h⟩
  | _ => none

def parseReqs? (s : String) : Option (List Req) := allSome ((splitNE s ";").map parseReq?)

def showInts (l : List Int) : String := showList toString l

def showSt (s : St) : String :=
  String.intercalate "|" [showBool s.trained, toString s.evalCount, toString s.predCount, toString s.trainCalls,
    showList toString s.trainSizes, showMat toString s.xs, showMat toString s.ys, showMat toString s.fcalls]

def handle (op : String) (arg : String) : Option String :=
  match op, arg.splitOn "|" with
  | "c19.pass", [ob, rq] => do
    let ob ← parseMat? parseInt? ob
    let rq ← parseReqs? rq
    let (s, vs) := passRun (mkObj ob) (St.init true) rq
    some (showMat toString vs ++ "#" ++ showSt s)
  | "c19.pred", [hh, ts, t0, ob, rq] => do
    let hh ← parseNat? hh
    let ts ← parseInt? ts
    let t0 ← parseNat? t0
    let ob ← parseMat? parseInt? ob
    let rq ← parseReqs? rq
    match run (mkObj ob) (hh != 0) ts (St.init (t0 != 0)) rq with
    | some (s, vs) => some (showMat toString vs ++ "#" ++ showSt s)
    | none => some "raise"
  | "c19.pred2", [hh, ts, t0, ob, rq, px, py] => do
    -- as `c19.pred`, with a training set pre-seeded through `add_data` (pairs px / py) before the first request
    let hh ← parseNat? hh
    let ts ← parseInt? ts
    let t0 ← parseNat? t0
    let ob ← parseMat? parseInt? ob
    let rq ← parseReqs? rq
    let px ← parseMat? parseInt? px
    let py ← parseMat? parseInt? py
    match run (mkObj ob) (hh != 0) ts { St.init (t0 != 0) with xs := px, ys := py } rq with
    | some (s, vs) => some (showMat toString vs ++ "#" ++ showSt s)
    | none => some "raise"
  | _, _ => none

end Artap.Surrogate
