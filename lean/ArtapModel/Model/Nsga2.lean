import ArtapModel.Model.Runs
import ArtapModel.Model.Sorting
import ArtapModel.Model.Selection
import ArtapModel.Model.Eval
import ArtapModel.Model.Archive
/-!
# Executable model of the NSGA-II and ε-MOEA generation loops (artap/algorithm_NSGAII.py,
artap/algorithm_genetic.py), composed from the models of their parts

* offspring: `Runs.generate` (the `while` loop of `GeneticAlgorithm.generate`; the children that
  selection, crossover and mutation deliver are an oracle);
* evaluation: `Eval.evalSerial` (`Job.evaluate` with its five attempts; the objective, the fault
  pattern and the re-rolled vectors are the oracle `Eval.Env`); an exception that escapes the
  evaluator aborts the run (`none`);
* `fast_nondominated_sorting`: `phase1` / `level` of `Model/Sorting.lean` (`peelF` is `peel`
  that also keeps the front lists, in the order the code appends to them), then
  `crowding` (`Model/Selection.lean`) on every front;
* `nondominated_truncate`: `truncate` (`Model/Selection.lean`; the order of `list(set(...))` is an
  oracle) – two members are the same design for `set()` iff their vectors are equal;
* ε-MOEA: `Runs.popAccept` (random picks are an oracle) and `Archive.add` with `epsCompare`.

Vectors and costs are exact rationals (the harness sends the exact value of every double).
`none` always stands for something the real run does not survive: the children oracle ran dry
(the real loop would go on drawing), an exception left the evaluator, the `set()` oracle is not a
de-duplication of the merged population, a comparator raised.
-/
namespace Artap.Nsga2
open Artap Artap.Eval Artap.Proto

/-! ## `Individual.__eq__` -/

def absR (x : Rat) : Rat := if x < 0 then -x else x

/-- The loop of `Individual.__eq__(self, other)`: `diff` starts at `1`; every coordinate must
differ by less than `tol` (`1e-10` in the code).  The third clause is the `IndexError` of a
shorter `other.vector`; the handlers below only accept rectangular input. -/
def vecEqLoop (tol : Rat) : List Rat → List Rat → Rat → Bool
  | [], _, diff => decide (diff < tol)
  | a :: as, b :: bs, _ => if absR (a - b) < tol then vecEqLoop tol as bs (absR (a - b)) else false
  | _ :: _, [], _ => false

def vecEq (tol : Rat) (a b : Vec) : Bool := vecEqLoop tol a b 1

/-! ## Individuals -/

/-- An individual of a population algorithm: the design object of the evaluator model
(key = object identity, vector, costs, signed costs, marker, state) plus what the algorithms
add: `features['front_number']`, `features['crowding_distance']` (`none` = inf) and the
generation tag `population_id`. -/
structure Member where
  d : Design
  front : Nat
  crowd : Option Rat
  tag : Nat
  deriving Repr

structure Cfg where
  env : Env
  eq : Vec → Vec → Bool      -- `Individual.__eq__` on vectors
  prec : Nat                 -- `features["precision"]` of a fresh individual (7)
  N : Nat                    -- `max_population_size`

/-- Successful objective calls so far: every call is logged, every failed one is also put on
`Problem.failed` (`log_ge_failed` in `Proofs/Nsga2.lean`: the subtraction never truncates). -/
def okCalls (w : World) : Nat := w.log.length - w.failed.length

/-! ## `fast_nondominated_sorting`: front numbers, front lists, crowding distance per front -/

/-- `Sorting.peel` that also returns `pareto_front[0], pareto_front[1], …` (the last, empty,
front is the one the code pops). -/
def peelF : Nat → SortState → List Nat → Nat → List (List Nat) → Option (SortState × List (List Nat))
  | fuel, s, cur, k, acc =>
    if cur.isEmpty then some (s, acc) else
    match fuel with
    | 0 => none
    | fuel + 1 => peelF fuel (level s cur (k + 1)).1 (level s cur (k + 1)).2 (k + 1) (acc ++ [cur])

/-- Front numbers by position and the front lists (positions, in the code's order). -/
def sortFronts (pop : List (List Rat × Int)) : Option (List (Option Nat) × List (List Nat)) :=
  (peelF (pop.length + 1) (phase1 (popCmp pop) pop.length).1 (phase1 (popCmp pop) pop.length).2 1 []).map
    (fun r => (r.1.front, r.2))

/-- `crowding_distance(sub_front)`: position ↦ distance for the members of one front. -/
def frontCrowd (signed : List (List Rat)) (fr : List Nat) : Option (List (Nat × Option Rat)) :=
  match allSome (fr.map (fun i => signed[i]?)) with
  | none => none
  | some rows =>
    match crowding rows with
    | none => none
    | some ents => allSome (ents.map (fun e => (fr[e.idx]?).map (fun p => (p, e.acc))))

def crowdAll (signed : List (List Rat)) : List (List Nat) → Option (List (Nat × Option Rat))
  | [] => some []
  | fr :: rest =>
    match frontCrowd signed fr, crowdAll signed rest with
    | some a, some b => some (a ++ b)
    | _, _ => none

/-- `costs_signed` of every member as `(costs_signed[:-1], costs_signed[-1])`; a member that was
never evaluated has `costs_signed == []` and the comparator raises `IndexError`. -/
def signedPop (ds : List Design) : Option (List (List Rat × Int)) :=
  allSome (ds.map (fun d => d.marker.map (fun m => (d.signed, m))))

/-- `selector.fast_nondominated_sorting(individuals)`: for every position the front number and
the crowding distance.  `none` = the code raises (unevaluated member, ragged cost vectors). -/
def sortCrowd (ds : List Design) : Option (List (Nat × Option Rat)) :=
  match signedPop ds with
  | none => none
  | some pop =>
    match sortFronts pop with
    | none => none
    | some (fronts, lists) =>
      match crowdAll (pop.map (·.1)) lists with
      | none => none
      | some cd =>
        allSome ((List.range ds.length).map (fun i =>
          match fronts[i]?.join, cd.find? (fun p => p.1 == i) with
          | some f, some p => some (f, p.2)
          | _, _ => none))

/-! ## `nondominated_truncate` on the merged population -/

/-- Class of a design for `set()`: position of the first member with an equal vector. -/
def designId (ds : List Design) (v : Vec) : Nat := ds.findIdx (fun d => decide (d.vec = v))

/-- Order embedding of the crowding distances that occur into `Int` (the truncation model only
compares them): number of finite values below, inf above everything. -/
def encCrowd (all : List (Option Rat)) : Option Rat → Int
  | none => (all.length : Int) + 1
  | some v => ((all.filter (fun x => match x with
      | some w => decide (w < v)
      | none => false)).length : Int)

/-- What `nondominated_cmp` and `set()` see of the merged population. -/
def mkInds (ds : List Design) (fc : List (Nat × Option Rat)) : List Ind :=
  (ds.zip fc).map (fun p =>
    { design := designId ds p.1.vec, front := p.2.1, crowd := encCrowd (fc.map (·.2)) p.2.2 })

def member? (ds : List Design) (fc : List (Nat × Option Rat)) (tag : Nat) (i : Nat) : Option Member :=
  match ds[i]?, fc[i]? with
  | some d, some p => some { d := d, front := p.1, crowd := p.2, tag := tag }
  | _, _ => none

/-! ## NSGA-II -/

/-- `IndividualNSGAII.copy()`: a new object with the same vector; `costs` and `costs_signed` are
aliased, everything else is as the constructor leaves it. -/
def copyOf (key prec : Nat) (p : Member) : Design :=
  { key := key, vec := p.d.vec, state := .empty, costs := p.d.costs, signed := p.d.signed,
    marker := p.d.marker, feasible := .dflt, prec := prec, ncalls := 0 }

def copiesFrom (start prec : Nat) : List Member → List Design
  | [] => []
  | p :: ps => copyOf start prec p :: copiesFrom (start + 1) prec ps

/-- The two oracles of one iteration. -/
structure StepOracle where
  children : List (Vec × Vec)     -- what selection + crossover + mutation deliver, pass by pass
  setOrder : List Nat             -- `list(set(offsprings))` as positions of the merged population

structure RunState where
  parents : List Member           -- `individuals`
  nextKey : Nat                   -- number of design objects handed to the evaluator model so far
  world : World                   -- objective call log and `Problem.failed`
  recorded : List Member          -- `problem.individuals`, in recording order

/-- One iteration `it` of `for it in range(max_population_number - 1)`. -/
def nsga2Step (cfg : Cfg) (it : Nat) (o : StepOracle) (s : RunState) : Option RunState :=
  -- offsprings = self.generate(individuals)
  match Runs.generate cfg.eq cfg.N o.children [] with
  | none => none
  | some offs =>
    -- self.evaluate(offsprings)
    let res := evalSerial cfg.env (freshFrom s.nextKey cfg.prec offs) s.world
    match res.1 with
    | some _ => none
    | none =>
      -- for individual in individuals: offsprings.append(individual.copy())
      let merged := res.2.1 ++ copiesFrom (s.nextKey + offs.length) cfg.prec s.parents
      -- self.selector.fast_nondominated_sorting(offsprings)
      match sortCrowd merged with
      | none => none
      | some fc =>
        -- individuals = nondominated_truncate(offsprings, max_population_size)
        match truncate (mkInds merged fc) cfg.N o.setOrder with
        | none => none
        | some r =>
          -- population_id = it + 2; problem.individuals.append(individual)
          match allSome (r.map (member? merged fc (it + 2))) with
          | none => none
          | some surv =>
            some { parents := surv, nextKey := s.nextKey + offs.length + s.parents.length,
                   world := res.2.2, recorded := s.recorded ++ surv }

/-- Initial population: `generator.generate()`, evaluation, sorting, tag `1`. -/
def nsga2Init (cfg : Cfg) (init : List Vec) : Option RunState :=
  let res := evalSerial cfg.env (freshFrom 0 cfg.prec init) { log := [], failed := [] }
  match res.1 with
  | some _ => none
  | none =>
    match sortCrowd res.2.1 with
    | none => none
    | some fc =>
      match allSome ((List.range res.2.1.length).map (member? res.2.1 fc 1)) with
      | none => none
      | some ms => some { parents := ms, nextKey := init.length, world := res.2.2, recorded := ms }

/-- The `for it in …` loop; one oracle per iteration (`none` when they run out). -/
def nsga2Loop (cfg : Cfg) : List Nat → List StepOracle → RunState → Option RunState
  | [], _, s => some s
  | _ :: _, [], _ => none
  | it :: its, o :: os, s =>
    match nsga2Step cfg it o s with
    | none => none
    | some s' => nsga2Loop cfg its os s'

structure RunResult where
  recorded : List Member          -- everything recorded, with tags
  evals : Nat                     -- successful objective evaluations
  world : World
  final : List Member             -- the working population when the run ends

/-- `NSGAII.run()` with `max_population_number = G`. -/
def nsga2Run (cfg : Cfg) (G : Nat) (init : List Vec) (steps : List StepOracle) : Option RunResult :=
  match nsga2Init cfg init with
  | none => none
  | some s0 =>
    match nsga2Loop cfg (List.range (G - 1)) steps s0 with
    | none => none
    | some s => some { recorded := s.recorded, evals := okCalls s.world, world := s.world, final := s.parents }

/-! ## ε-MOEA -/

/-- `EpsilonDominance(epsilons).compare(a.costs_signed, b.costs_signed)` (`none` = it raises). -/
def archCmp (eps : List Rat) (a b : Member) : Option Nat :=
  match a.d.marker, b.d.marker with
  | some ma, some mb => epsCompare eps a.d.signed b.d.signed ma mb
  | _, _ => none

/-- `individual.costs_signed == current_solution.costs_signed` -/
def archSame (a b : Member) : Bool := decide (a.d.signed = b.d.signed ∧ a.d.marker = b.d.marker)

/-- `self.dominance.compare(individual.costs_signed, individuals[i].costs_signed)` for every member
(`TournamentSelector` is built with the Pareto comparator). -/
def flagsOf (x : Member) (pop : List Member) : Option (List Nat) :=
  allSome (pop.map (fun m =>
    match x.d.marker, m.d.marker with
    | some mx, some mm => some (paretoCompare x.d.signed m.d.signed mx mm)
    | _, _ => none))

structure EpsOracle where
  children : List (Vec × Vec)
  picks : List (Nat × Nat)        -- per offspring: `random.choice(dominates)`, `random.choice(individuals)`

structure EpsState where
  pop : List Member               -- `individuals`, the working population
  archive : List Member           -- `self.archive._contents`
  nextKey : Nat
  world : World
  recorded : List Member

/-- `for individual in offsprings: pop_acceptance; archive.add; population_id = it + 1; record`. -/
def acceptAll (cfg : Cfg) (eps : List Rat) (tag : Nat) :
    List Design → List (Nat × Nat) → EpsState → Option EpsState
  | [], _, s => some s
  | _ :: _, [], _ => none
  | d :: ds, pk :: pks, s =>
    let x : Member := { d := d, front := 0, crowd := some 0, tag := tag }
    match flagsOf x s.pop with
    | none => none
    | some flags =>
      let pop' := Runs.popAccept (fun a b => cfg.eq a.d.vec b.d.vec) s.pop flags x pk.1 pk.2
      match Archive.add (archCmp eps) archSame s.archive x with
      | none => none
      | some a => acceptAll cfg eps tag ds pks
          { s with pop := pop', archive := a.1, recorded := s.recorded ++ [x] }

def epsStep (cfg : Cfg) (eps : List Rat) (it : Nat) (o : EpsOracle) (s : EpsState) : Option EpsState :=
  match Runs.generate cfg.eq cfg.N o.children [] with
  | none => none
  | some offs =>
    let res := evalSerial cfg.env (freshFrom s.nextKey cfg.prec offs) s.world
    match res.1 with
    | some _ => none
    | none =>
      acceptAll cfg eps (it + 1) res.2.1 o.picks
        { s with nextKey := s.nextKey + offs.length, world := res.2.2 }

def archiveAll (eps : List Rat) : List Member → List Member → Option (List Member)
  | [], a => some a
  | x :: xs, a =>
    match Archive.add (archCmp eps) archSame a x with
    | none => none
    | some r => archiveAll eps xs r.1

def epsInit (cfg : Cfg) (eps : List Rat) (init : List Vec) : Option EpsState :=
  let res := evalSerial cfg.env (freshFrom 0 cfg.prec init) { log := [], failed := [] }
  match res.1 with
  | some _ => none
  | none =>
    let ms : List Member := res.2.1.map (fun d => { d := d, front := 0, crowd := some 0, tag := 0 })
    match archiveAll eps ms [] with
    | none => none
    | some a => some { pop := ms, archive := a, nextKey := init.length, world := res.2.2, recorded := ms }

def epsLoop (cfg : Cfg) (eps : List Rat) : List Nat → List EpsOracle → EpsState → Option EpsState
  | [], _, s => some s
  | _ :: _, [], _ => none
  | it :: its, o :: os, s =>
    match epsStep cfg eps it o s with
    | none => none
    | some s' => epsLoop cfg eps its os s'

structure EpsResult where
  recorded : List Member
  evals : Nat
  world : World
  pop : List Member
  archive : List Member

/-- `EpsMOEA.run()` with `max_population_number = G` (`G` iterations after the initial population). -/
def epsMoeaRun (cfg : Cfg) (eps : List Rat) (G : Nat) (init : List Vec) (steps : List EpsOracle) :
    Option EpsResult :=
  match epsInit cfg eps init with
  | none => none
  | some s0 =>
    match epsLoop cfg eps (List.range G) steps s0 with
    | none => none
    | some s => some { recorded := s.recorded, evals := okCalls s.world, world := s.world,
                       pop := s.pop, archive := s.archive }

/-! ## Line protocol

* `c09.nsga2step N|it|signs|table|specs|parents|children|order`
  one iteration replayed from the recorded parents: `table`/`specs` as in `c05.run` (pure part of
  the objective; per offspring object its fault script and vector chain), `parents` entries
  `vec:costs:marker` joined by `#` (their signed costs are recomputed by the evaluator model's
  formula), `children` a matrix whose rows are taken in pairs, `order` the `set()` oracle.
  Answer `ok survivors|front of every merged member|crowding of every merged member|successful calls|calls`
  or `raise`.
* `c09.nsga2run N|G|signs|table|specs|init|step@step@…` with `step = children!order`.
  Answer `ok evals|calls|tag:vec:front:crowd;…` (everything recorded, in order) or `raise`.
* `c09.epsrun N|G|signs|eps|table|specs|init|step@step@…` with `step = children!p1,p2;p1,p2;…`.
  Answer `ok evals|calls|tag:vec;…|final population vectors|archive signed costs` or `raise`.

Every vector that reaches the objective must be in `table`; otherwise the answer is `uncovered`
(the model asked for a design the recorded run never evaluated – a disagreement, reported by the
harness), so no junk value of the table oracle can reach an answer.
-/

def tol10 : Rat := mkRat 1 10000000000

def pairUp : List Vec → List (Vec × Vec)
  | a :: b :: r => (a, b) :: pairUp r
  | _ => []

def parseParent? (env : Env) (prec : Nat) (key : Nat) (s : String) : Option Member :=
  match s.splitOn ":" with
  | [v, c, m] => do
    let v ← parseList? parseRat? v
    let c ← parseList? parseRat? c
    let m ← parseInt? m
    some { d := { key := key, vec := v, state := .evaluated, costs := c, signed := signedCosts env prec c,
                  marker := some m, feasible := .dflt, prec := prec, ncalls := 1 },
           front := 0, crowd := some 0, tag := 0 }
  | _ => none

def parseParents? (env : Env) (prec : Nat) : Nat → List String → Option (List Member)
  | _, [] => some []
  | k, s :: r =>
    match parseParent? env prec k s, parseParents? env prec (k + 1) r with
    | some a, some b => some (a :: b)
    | _, _ => none

def showCrowd : Option Rat → String
  | none => "inf"
  | some v => showRat v

def parseStep? (s : String) : Option StepOracle :=
  match s.splitOn "!" with
  | [c, o] => do
    let c ← parseMat? parseRat? c
    let o ← parseList? parseNat? o
    some { children := pairUp c, setOrder := o }
  | _ => none

def parseEpsStep? (s : String) : Option EpsOracle :=
  match s.splitOn "!" with
  | [c, p] => do
    let c ← parseMat? parseRat? c
    let p ← parseMat? parseNat? p
    let pk ← allSome (p.map (fun r => match r with
      | [a, b] => some (a, b)
      | _ => none))
    some { children := pairUp c, picks := pk }
  | _ => none

def tableCovers (table : List (Vec × List Rat × List Rat)) (w : World) : Bool :=
  w.log.all (fun e => (lookup table e.2).isSome)

def showRecorded (ms : List Member) : String :=
  String.intercalate ";" (ms.map (fun m =>
    s!"{m.tag}:{showList showRat m.d.vec}:{m.front}:{showCrowd m.crowd}"))

def handle (op : String) (arg : String) : Option String :=
  match op, arg.splitOn "|" with
  | "c09.nsga2step", [n, it, sg, tb, sp, ps, ch, od] => do
    let n ← parseNat? n
    let it ← parseNat? it
    let signs ← parseList? parseRat? sg
    let table ← allSome ((splitNE tb "#").map parseEntry?)
    let specs ← allSome ((splitNE sp "#").map parseSpec?)
    let env := mkEnv signs table specs
    let cfg : Cfg := { env := env, eq := vecEq tol10, prec := 7, N := n }
    let parents ← parseParents? env 7 specs.length (splitNE ps "#")
    let ch ← parseMat? parseRat? ch
    let od ← parseList? parseNat? od
    let s0 : RunState := { parents := parents, nextKey := 0, world := { log := [], failed := [] }, recorded := [] }
    -- the intermediate quantities are recomputed for the answer (same functions as in `nsga2Step`)
    match Runs.generate cfg.eq n (pairUp ch) [] with
    | none => some "raise dry"
    | some offs =>
      let res := evalSerial env (freshFrom 0 7 offs) s0.world
      if !(tableCovers table res.2.2) then some "uncovered" else
      match nsga2Step cfg it { children := pairUp ch, setOrder := od } s0 with
      | none => some "raise"
      | some s1 =>
        let merged := res.2.1 ++ copiesFrom offs.length 7 parents
        match sortCrowd merged with
        | none => some "raise"
        | some fc =>
          match truncate (mkInds merged fc) n od with
          | none => some "raise"
          | some r =>
            some (String.intercalate "|" ["ok " ++ showList toString r,
              showList (fun p => toString p.1) fc, showList (fun p => showCrowd p.2) fc,
              toString (okCalls s1.world), toString s1.world.log.length,
              showMat showRat (res.2.1.map (·.vec))])
  | "c09.nsga2run", [n, g, sg, tb, sp, ini, st] => do
    let n ← parseNat? n
    let g ← parseNat? g
    let signs ← parseList? parseRat? sg
    let table ← allSome ((splitNE tb "#").map parseEntry?)
    let specs ← allSome ((splitNE sp "#").map parseSpec?)
    let env := mkEnv signs table specs
    let cfg : Cfg := { env := env, eq := vecEq tol10, prec := 7, N := n }
    let ini ← parseMat? parseRat? ini
    let steps ← allSome ((splitNE st "@").map parseStep?)
    match nsga2Run cfg g ini steps with
    | none => some "raise"
    | some r =>
      if !(tableCovers table r.world) then some "uncovered" else
      some (String.intercalate "|" ["ok " ++ toString r.evals, toString r.world.log.length,
        showRecorded r.recorded])
  | "c09.epsrun", [n, g, sg, ep, tb, sp, ini, st] => do
    let n ← parseNat? n
    let g ← parseNat? g
    let signs ← parseList? parseRat? sg
    let eps ← parseList? parseRat? ep
    let table ← allSome ((splitNE tb "#").map parseEntry?)
    let specs ← allSome ((splitNE sp "#").map parseSpec?)
    let env := mkEnv signs table specs
    let cfg : Cfg := { env := env, eq := vecEq tol10, prec := 7, N := n }
    let ini ← parseMat? parseRat? ini
    let steps ← allSome ((splitNE st "@").map parseEpsStep?)
    match epsMoeaRun cfg eps g ini steps with
    | none => some "raise"
    | some r =>
      if !(tableCovers table r.world) then some "uncovered" else
      some (String.intercalate "|" ["ok " ++ toString r.evals, toString r.world.log.length,
        String.intercalate ";" (r.recorded.map (fun m => s!"{m.tag}:{showList showRat m.d.vec}")),
        showMat showRat (r.pop.map (·.d.vec)),
        showMat showRat (r.archive.map (·.d.signed))])
  | _, _ => none

end Artap.Nsga2
