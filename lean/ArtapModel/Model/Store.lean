import ArtapModel.Model.Proto
/-!
# SQLite store model (C10; reused by C11 crash consistency and C07 parallel evaluation)

Mirrors `artap/individual.py` (`_replace_individual_id`, `to_dict`, `from_dict`),
`artap/datastore.py` (`SqliteDataStore`: upsert statement, `_create_structure`,
`read_from_datastore`, `sync_individual`, `sync_all`) and `ProblemViewDataStore`.

* `J` – the Python values that travel through the store: `None`, `bool`, `int`, `float`
  (an opaque IEEE bit pattern – the store never computes with it), `str`, list/tuple/ndarray
  (`arr`), `dict` with string keys (`obj`) and a reference to an `Individual` object (`ind`).
* Python exceptions are explicit `none`: `RecursionError` of `_replace_individual_id` on a
  non-empty string, `TypeError` of `json.dumps` on an `Individual`, `KeyError` of `from_dict`,
  `IntegrityError` of a duplicate parameter name.
* Trusted, not modelled: `json.dumps`/`json.loads` is the identity on JSON-able trees (float
  `repr` round trip), SQLite keeps what was committed and enforces `PRIMARY KEY`.
-/
namespace Artap.Store

inductive J where
  | null
  | bool (b : Bool)
  | int (n : Int)
  | flt (bits : Nat)
  | str (s : String)
  | arr (xs : List J)
  | obj (kvs : List (String × J))
  | ind (id : Int)

/-! ## Python dict (insertion ordered, assignment replaces in place) -/

def dictGet {β} (d : List (String × β)) (k : String) : Option β :=
  match d with
  | [] => none
  | (k', v) :: r => if k' = k then some v else dictGet r k

def dictSet {β} (d : List (String × β)) (k : String) (v : β) : List (String × β) :=
  match d with
  | [] => [(k, v)]
  | (k', v') :: r => if k' = k then (k, v) :: r else (k', v') :: dictSet r k v

/-! ## `json.dumps`: serialisable iff no `Individual` object is left in the tree -/

mutual
def J.jsonable : J → Bool
  | .ind _ => false
  | .arr xs => jsonableL xs
  | .obj kvs => jsonableK kvs
  | _ => true
def jsonableL : List J → Bool
  | [] => true
  | x :: xs => x.jsonable && jsonableL xs
def jsonableK : List (String × J) → Bool
  | [] => true
  | (_, v) :: r => v.jsonable && jsonableK r
end

/-- `json.loads(json.dumps(j))`: `TypeError` on an `Individual`, identity otherwise (trusted:
Python's float `repr` round trip; tuples and ndarrays are already `arr`). -/
def jsonRoundTrip (j : J) : Option J := if j.jsonable then some j else none

/-! ## `Individual._replace_individual_id`

```
if isinstance(value, Iterable): return [self._replace_individual_id(item) for item in value]
elif isinstance(value, Individual): return value.id
else: return value
```
A `str` is `Iterable` and so is each of its characters: unbounded recursion unless the string
is empty (then `[]`).  A `dict` iterates over its keys (strings). -/

mutual
def replaceIds : J → Option J
  | .ind id => some (.int id)
  | .arr xs => (replaceIdsL xs).map .arr
  | .str s => if s = "" then some (.arr []) else none
  | .obj kvs => if kvs.all (fun kv => kv.1 = "") then some (.arr (kvs.map fun _ => .arr [])) else none
  | .null => some .null
  | .bool b => some (.bool b)
  | .int n => some (.int n)
  | .flt b => some (.flt b)
def replaceIdsL : List J → Option (List J)
  | [] => some []
  | x :: xs =>
    match replaceIds x, replaceIdsL xs with
    | some y, some ys => some (y :: ys)
    | _, _ => none
end

/-- The `features` loop of `to_dict`: every value goes through `_replace_individual_id`
(Python dict keys are unique, so building the new dict is a map). -/
def replaceFeatures : List (String × J) → Option (List (String × J))
  | [] => some []
  | (k, v) :: r =>
    match replaceIds v, replaceFeatures r with
    | some v', some r' => some ((k, v') :: r')
    | _, _ => none

/-! ## Individuals -/

inductive State where
  | empty | inProgress | evaluated | failed

/-- `Individual.to_string`: falls off the end (`None`) for anything that is not a `State`
member – e.g. the string that `from_dict` stores in `state`. -/
def stateJ : Option State → J
  | some .empty => .str "empty"
  | some .inProgress => .str "in_progress"
  | some .evaluated => .str "evaluated"
  | some .failed => .str "failed"
  | none => .null

/-- Snapshot of the attributes of an `Individual` object at the moment of a synchronisation. -/
structure Ind where
  id : Int
  vector : List J
  costs : List J
  costsSigned : J
  state : Option State
  populationId : J
  algorithmId : J
  custom : J
  features : List (String × J)
  parents : List J
  children : List J

/-- `Individual.to_dict` (same key order, same overwriting of `features`). -/
def toDict (i : Ind) : Option J :=
  let out : List (String × J) :=
    [("id", .int i.id), ("vector", .arr i.vector), ("costs", .arr i.costs),
     ("costs_signed", i.costsSigned), ("state", stateJ i.state),
     ("population_id", i.populationId), ("algorithm_id", i.algorithmId),
     ("custom", i.custom), ("features", .obj i.features)]
  match replaceIdsL i.parents with
  | none => none
  | some parents =>
    let out := dictSet out "parents" (.arr parents)
    match replaceIdsL i.children with
    | none => none
    | some children =>
      let out := dictSet out "children" (.arr children)
      match replaceFeatures i.features with
      | none => none
      | some feats => some (.obj (dictSet out "features" (.obj feats)))

/-- The JSON document written for an individual: `json.dumps(individual.to_dict())` as read
back by `json.loads`. `none` = the call raises and nothing is written. -/
def encode (i : Ind) : Option J :=
  match toDict i with
  | some d => jsonRoundTrip d
  | none => none

/-- What a read-mode view exposes of one stored individual (`Individual.from_dict`). -/
structure View where
  id : J
  vector : J
  costs : J
  state : J
  costsSigned : J
  populationId : J
  algorithmId : J
  custom : J
  features : J

/-- `Individual.from_dict`: keyed access, `KeyError`/`TypeError` = `none`. -/
def decode : J → Option View
  | .obj d =>
    match dictGet d "id", dictGet d "vector", dictGet d "costs", dictGet d "state",
          dictGet d "costs_signed", dictGet d "population_id", dictGet d "algorithm_id",
          dictGet d "custom", dictGet d "features" with
    | some id, some v, some c, some st, some cs, some p, some a, some cu, some f =>
      some ⟨id, v, c, st, cs, p, a, cu, f⟩
    | _, _, _, _, _, _, _, _, _ => none
  | _ => none

/-! ## Table `individuals (id int PRIMARY KEY, individual json)` -/

abbrev Row := Int × J
abbrev Store := List Row

def lookup (s : Store) (id : Int) : Option J :=
  match s with
  | [] => none
  | (k, b) :: r => if k = id then some b else lookup r id

/-- `INSERT … ON CONFLICT(id) DO UPDATE SET individual=excluded.individual` -/
def upsert (s : Store) (id : Int) (blob : J) : Store :=
  match s with
  | [] => [(id, blob)]
  | (k, b) :: r => if k = id then (k, blob) :: r else (k, b) :: upsert r id blob

/-- `sync_individual`: one upsert, one commit; an exception leaves the table as it was. -/
def syncIndividual (s : Store) (i : Ind) : Option Store :=
  match encode i with
  | some blob => some (upsert s i.id blob)
  | none => none

/-- `sync_all`: upsert of every recorded individual in order, one commit at the end
(an exception before the commit rolls everything back: `none`). -/
def syncAll (s : Store) : List Ind → Option Store
  | [] => some s
  | i :: r =>
    match syncIndividual s i with
    | some s' => syncAll s' r
    | none => none

inductive Op where
  | syncInd (i : Ind)
  | syncAll (inds : List Ind)

def step (s : Store) : Op → Option Store
  | .syncInd i => syncIndividual s i
  | .syncAll inds => syncAll s inds

/-- A history of synchronisation calls (stops at the first call that raises). -/
def run (s : Store) : List Op → Option Store
  | [] => some s
  | o :: r =>
    match step s o with
    | some s' => run s' r
    | none => none

/-! ## Problem tables and the read-mode view -/

structure ProblemDef where
  name : String
  description : String
  parameters : List J
  costs : List J

structure File where
  main : List (String × String)
  parameters : List (String × J)
  costs : List (String × J)
  individuals : Store

/-- `parameter["name"]` (a `KeyError` or a non-string name is `none`). -/
def nameOf : J → Option String
  | .obj d => match dictGet d "name" with
    | some (.str s) => some s
    | _ => none
  | _ => none

/-- Rows of a `(name text PRIMARY KEY, … json)` table: `IntegrityError` on a repeated name,
`TypeError` on a definition that is not JSON-able. -/
def insertDefs (t : List (String × J)) : List J → Option (List (String × J))
  | [] => some t
  | p :: r =>
    match nameOf p, jsonRoundTrip p with
    | some n, some p' =>
      if (dictGet t n).isSome then none else insertDefs (t ++ [(n, p')]) r
    | _, _ => none

/-- `_create_structure` -/
def createStructure (p : ProblemDef) : Option File :=
  match insertDefs [] p.parameters, insertDefs [] p.costs with
  | some ps, some cs => some ⟨[(p.name, p.description)], ps, cs, []⟩
  | _, _ => none

def decodeAll : List Row → Option (List View)
  | [] => some []
  | (_, b) :: r =>
    match decode b, decodeAll r with
    | some v, some vs => some (v :: vs)
    | _, _ => none

/-- `read_from_datastore` as used by `ProblemViewDataStore`: `rows[0]` of `main`
(`IndexError` = `none`), every parameter, cost and individual row. -/
def readBack (f : File) : Option (ProblemDef × List View) :=
  match f.main, decodeAll f.individuals with
  | (n, d) :: _, some vs => some (⟨n, d, f.parameters.map (·.2), f.costs.map (·.2)⟩, vs)
  | _, _ => none

/-- Create the file, run a history, look at it through a read-mode view. -/
def session (p : ProblemDef) (ops : List Op) : Option (ProblemDef × List View) :=
  match createStructure p with
  | none => none
  | some f =>
    match run f.individuals ops with
    | none => none
    | some s => readBack { f with individuals := s }

/-! ## Wire format (line protocol)

`n` null, `T`/`F` bool, `i<dec>;` int, `d<16 hex>` float bits, `s<text>;` string (the
harness escapes every character outside `[A-Za-z0-9_.-]`, the model never looks inside),
`[`…`]` list, `{` (`s<key>;` value)* `}` dict, `@<dec>;` Individual reference. -/

def untilSemi : List Char → List Char → Option (String × List Char)
  | [], _ => none
  | ';' :: r, acc => some (String.ofList acc.reverse, r)
  | c :: r, acc => untilSemi r (c :: acc)

mutual
def parseJ : Nat → List Char → Option (J × List Char)
  | 0, _ => none
  | fuel + 1, cs =>
    match cs with
    | 'n' :: r => some (.null, r)
    | 'T' :: r => some (.bool true, r)
    | 'F' :: r => some (.bool false, r)
    | 'i' :: r => match untilSemi r [] with
      | some (t, r') => t.toInt?.map fun n => (.int n, r')
      | none => none
    | '@' :: r => match untilSemi r [] with
      | some (t, r') => t.toInt?.map fun n => (.ind n, r')
      | none => none
    | 'd' :: r =>
      if r.length < 16 then none else
      (Artap.Proto.parseHex? (String.ofList (r.take 16))).map fun b => (.flt b, r.drop 16)
    | 's' :: r => match untilSemi r [] with
      | some (t, r') => some (.str t, r')
      | none => none
    | '[' :: r => match parseArr fuel r with
      | some (xs, r') => some (.arr xs, r')
      | none => none
    | '{' :: r => match parseObj fuel r with
      | some (kvs, r') => some (.obj kvs, r')
      | none => none
    | _ => none
def parseArr : Nat → List Char → Option (List J × List Char)
  | 0, _ => none
  | fuel + 1, cs =>
    match cs with
    | ']' :: r => some ([], r)
    | _ => match parseJ fuel cs with
      | some (x, r) => match parseArr fuel r with
        | some (xs, r') => some (x :: xs, r')
        | none => none
      | none => none
def parseObj : Nat → List Char → Option (List (String × J) × List Char)
  | 0, _ => none
  | fuel + 1, cs =>
    match cs with
    | '}' :: r => some ([], r)
    | 's' :: r => match untilSemi r [] with
      | some (k, r1) => match parseJ fuel r1 with
        | some (v, r2) => match parseObj fuel r2 with
          | some (kvs, r3) => some ((k, v) :: kvs, r3)
          | none => none
        | none => none
      | none => none
    | _ => none
end

def parse? (s : String) : Option J :=
  let cs := (Artap.Proto.tok s).toList
  match parseJ (cs.length + 1) cs with
  | some (j, []) => some j
  | _ => none

mutual
def J.show : J → String
  | .null => "n"
  | .bool true => "T"
  | .bool false => "F"
  | .int n => "i" ++ toString n ++ ";"
  | .flt b => "d" ++ Artap.Proto.hexOf b
  | .str s => "s" ++ s ++ ";"
  | .arr xs => "[" ++ showL xs ++ "]"
  | .obj kvs => "{" ++ showK kvs ++ "}"
  | .ind id => "@" ++ toString id ++ ";"
def showL : List J → String
  | [] => ""
  | x :: xs => x.show ++ showL xs
def showK : List (String × J) → String
  | [] => ""
  | (k, v) :: r => "s" ++ k ++ ";" ++ v.show ++ showK r
end

def stateOf? : J → Option (Option State)
  | .str "empty" => some (some .empty)
  | .str "in_progress" => some (some .inProgress)
  | .str "evaluated" => some (some .evaluated)
  | .str "failed" => some (some .failed)
  | .null => some none
  | _ => none

def arrOf? : J → Option (List J)
  | .arr xs => some xs
  | _ => none

def Ind.ofJ? : J → Option Ind
  | .obj d => do
    let id ← match dictGet d "id" with
      | some (.int n) => some n
      | _ => none
    let vector ← (dictGet d "vector").bind arrOf?
    let costs ← (dictGet d "costs").bind arrOf?
    let cs ← dictGet d "costs_signed"
    let st ← (dictGet d "state").bind stateOf?
    let p ← dictGet d "population_id"
    let a ← dictGet d "algorithm_id"
    let cu ← dictGet d "custom"
    let f ← match dictGet d "features" with
      | some (.obj kvs) => some kvs
      | _ => none
    let pa ← (dictGet d "parents").bind arrOf?
    let ch ← (dictGet d "children").bind arrOf?
    some ⟨id, vector, costs, cs, st, p, a, cu, f, pa, ch⟩
  | _ => none

def Op.ofJ? : J → Option Op
  | .obj d =>
    match dictGet d "op" with
    | some (.str "ind") => ((dictGet d "ind").bind Ind.ofJ?).map Op.syncInd
    | some (.str "all") => do
      let xs ← (dictGet d "inds").bind arrOf?
      let inds ← Artap.Proto.allSome (xs.map Ind.ofJ?)
      some (Op.syncAll inds)
    | _ => none
  | _ => none

def ProblemDef.ofJ? : J → Option ProblemDef
  | .obj d =>
    match dictGet d "name", dictGet d "description", dictGet d "parameters", dictGet d "costs" with
    | some (.str n), some (.str ds), some (.arr ps), some (.arr cs) => some ⟨n, ds, ps, cs⟩
    | _, _, _, _ => none
  | _ => none

def View.toJ (v : View) : J :=
  .obj [("id", v.id), ("vector", v.vector), ("costs", v.costs), ("state", v.state),
        ("costs_signed", v.costsSigned), ("population_id", v.populationId),
        ("algorithm_id", v.algorithmId), ("custom", v.custom), ("features", v.features)]

def ProblemDef.toJ (p : ProblemDef) : J :=
  .obj [("name", .str p.name), ("description", .str p.description),
        ("parameters", .arr p.parameters), ("costs", .arr p.costs)]

def showOpt : Option J → String
  | some j => "ok " ++ j.show
  | none => "raise"

/-- First op of a history that raises in the model (for diagnostics), if any. -/
def firstRaise (s : Store) : List Op → Nat → Option Nat
  | [], _ => none
  | o :: r, k =>
    match step s o with
    | some s' => firstRaise s' r (k + 1)
    | none => some k

/-- protocol:
* `c10.replace <J>` → `ok <J>` | `raise` (`_replace_individual_id`)
* `c10.encode <ind>` → `ok <blob>` | `raise` (`json.loads(json.dumps(to_dict()))`)
* `c10.roundtrip <ind>` → `ok <view>` | `raise` (`from_dict` of the former)
* `c10.session <problem>|<ops>` → `ok <problem>|<views>|<rows>` | `raise <k>` (`k` = index of the
  first raising op, `create` for `_create_structure`) -/
def handle (op : String) (arg : String) : Option String :=
  match op, arg.splitOn "|" with
  | "c10.replace", [j] => (parse? j).map fun j => showOpt (replaceIds j)
  | "c10.encode", [j] => ((parse? j).bind Ind.ofJ?).map fun i => showOpt (encode i)
  | "c10.roundtrip", [j] => ((parse? j).bind Ind.ofJ?).map fun i =>
      showOpt (((encode i).bind decode).map View.toJ)
  | "c10.session", [p, ops] => do
    let p ← (parse? p).bind ProblemDef.ofJ?
    let ops ← (parse? ops).bind arrOf?
    let ops ← Artap.Proto.allSome (ops.map Op.ofJ?)
    match createStructure p with
    | none => some "raise create"
    | some f =>
      match run f.individuals ops with
      | none => some (match firstRaise f.individuals ops 0 with
          | some k => "raise " ++ toString k
          | none => "raise ?")
      | some s =>
        match readBack { f with individuals := s } with
        | none => some "raise read"
        | some (p', vs) =>
          some ("ok " ++ p'.toJ.show ++ "|" ++ (J.arr (vs.map View.toJ)).show ++ "|" ++
                (J.arr (s.map (·.2))).show)
  | _, _ => none

end Artap.Store
