import ArtapModel.Model.Runs
import ArtapModel.Model.Nsga2
/-!
# Combined protocol handler of property C09

`Artap.Runs.handle` (generate / popAccept / run counters) first, then `Artap.Nsga2.handle`
(the composed NSGA-II and ε-MOEA run models).
-/
namespace Artap.RunsAll

def handle (op : String) (arg : String) : Option String :=
  match Artap.Runs.handle op arg with
  | some r => some r
  | none => Artap.Nsga2.handle op arg

end Artap.RunsAll
