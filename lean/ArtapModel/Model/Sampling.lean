import ArtapModel.Model.Proto
/-!
# Model of the space-filling samplers (artap/doe.py, artap/operators.py, artap/utils.py)

* `construct_df_from_random_matrix` – the affine map `lb + w·|ub − lb|` (`affine`, `mapRow`, `constructDf`);
* `_lhsclassic` / `lhs` / `build_lhs` / `LHSGenerator` – `lhsUnit`, `buildLhs` (the uniform draws `u` and the
  permutations `order` are *inputs* of the model: the theorems quantify over all of them);
* `_van_der_corput` / `_primes_from_2_to` / `halton` / `build_halton` / `HaltonGenerator` – `vdcLoop`,
  `vanDerCorput`, `primesBelow`, `haltonBases`, `haltonUnit`, `buildHalton`;
* `UniformGenerator.generate` – `gridLevels`, `product` (itertools.product), `uniformGrid`;
* `VectorAndNumbers.gen_number` / `gen_vector` / `RandomGenerator.generate` – `pyRound`, `genNumber`,
  `genVector`, `randomDesigns` (the `random()` draws are inputs).

Regime R2: everything is over `Rat`.  Python exceptions and non-termination are explicit `none`.
-/
namespace Artap.Sampling

/-! ## shared: `construct_df_from_random_matrix` -/

/-- `np.fabs(x)` on rationals. -/
def rabs (x : Rat) : Rat := if x < 0 then -x else x

/-- `factor_lists[index][0] + w[index] * np.fabs(factor_lists[index][1] - factor_lists[index][0])`. -/
def affine (lb ub w : Rat) : Rat := lb + w * rabs (ub - lb)

/-- inner loop `for index in range(len(w))`; `factor_lists[index]` raises `IndexError` when the row is longer
than the list of parameters. -/
def mapRow : List Rat → List (Rat × Rat) → Option (List Rat)
  | [], _ => some []
  | _ :: _, [] => none
  | w :: ws, b :: bs => (mapRow ws bs).map (affine b.1 b.2 w :: ·)

def allSome {α} : List (Option α) → Option (List α)
  | [] => some []
  | none :: _ => none
  | some a :: r => (allSome r).map (a :: ·)

/-- `construct_df_from_random_matrix(x, factor_lists)`. -/
def constructDf (x : List (List Rat)) (bounds : List (Rat × Rat)) : Option (List (List Rat)) :=
  allSome (x.map (mapRow · bounds))

/-! ## Latin hypercube -/

/-- `cut = np.linspace(0, 1, samples + 1)`; `cut[i]`. -/
def cut (N i : Nat) : Rat := (i : Rat) / (N : Rat)

/-- `rdpoints[i, j] = u[i, j] * (b[i] - a[i]) + a[i]` with `a = cut[:N]`, `b = cut[1:N+1]`. -/
def rdpoint (N i : Nat) (u : Rat) : Rat := u * (cut N (i + 1) - cut N i) + cut N i

/-- `H[i, j] = rdpoints[order_j[i], j]`; indexing outside the arrays raises. -/
def lhsEntry (N : Nat) (u : List (List Rat)) (perms : List (List Nat)) (i j : Nat) : Option Rat := do
  let p ← perms[j]?
  let s ← p[i]?
  let row ← u[s]?
  let x ← row[j]?
  some (rdpoint N s x)

/-- `_lhsclassic(n, samples = N, randomstate)`: `u` is the `N × n` matrix returned by `randomstate.rand`,
`perms[j]` the `j`-th `randomstate.permutation(range(N))`. -/
def lhsUnit (N n : Nat) (u : List (List Rat)) (perms : List (List Nat)) : Option (List (List Rat)) :=
  allSome ((List.range N).map fun i => allSome ((List.range n).map fun j => lhsEntry N u perms i j))

/-- `build_lhs(dict_vars, num_samples = N)` as called by `LHSGenerator.generate`: `lhs(n = len(bounds), N)`
followed by `construct_df_from_random_matrix`. -/
def buildLhs (N : Nat) (bounds : List (Rat × Rat)) (u : List (List Rat)) (perms : List (List Nat)) :
    Option (List (List Rat)) := do
  let h ← lhsUnit N bounds.length u perms
  constructDf h bounds

/-- Stratum index of a value of a parameter with bounds `lb < ub` cut into `N` equal strata:
`⌊N·(x − lb)/(ub − lb)⌋`. -/
def stratum (N : Nat) (lb ub x : Rat) : Int := ((N : Rat) * ((x - lb) / (ub - lb))).floor

/-- Specification predicate (evaluated by the driver on the implementation's output): the column has `N`
entries and every stratum `0 … N−1` contains exactly one of them. -/
def isLatinCol (N : Nat) (lb ub : Rat) (col : List Rat) : Bool :=
  let strata := col.map (stratum N lb ub)
  col.length == N &&
  (List.range N).all fun s => (strata.filter fun t => t == (s : Int)).length == 1

/-- column `j` of a matrix; `none` when a row is too short. -/
def column (x : List (List Rat)) (j : Nat) : Option (List Rat) := allSome (x.map (·[j]?))

/-- Every row has one coordinate per parameter and every column is Latin w.r.t. its parameter's strata. -/
def isLatinDesign (N : Nat) (bounds : List (Rat × Rat)) (x : List (List Rat)) : Bool :=
  x.length == N && x.all (·.length == bounds.length) &&
  (List.range bounds.length).all fun j =>
    match bounds[j]?, column x j with
    | some b, some c => isLatinCol N b.1 b.2 c
    | _, _ => false

/-! ## Halton -/

/-- The `while i > 0:` loop of `_van_der_corput` (state `i, denom, n_th_number`).  For `base < 2` the
Python loop does not terminate (`base = 1`) or raises (`base = 0`); see `vanDerCorput`. -/
def vdcLoop (b : Nat) (i : Nat) (denom nth : Rat) : Rat :=
  if _h : 0 < i ∧ 2 ≤ b then
    vdcLoop b (i / b) (denom * (b : Rat)) (nth + ((i % b : Nat) : Rat) / (denom * (b : Rat)))
  else nth
termination_by i
decreasing_by exact Nat.div_lt_self ‹0 < i ∧ 2 ≤ b›.1 ‹0 < i ∧ 2 ≤ b›.2

/-- One element of `_van_der_corput(n_sample, base)`. -/
def vanDerCorput (b i : Nat) : Option Rat := if b < 2 then none else some (vdcLoop b i 1 0)

/-- Contract of `_primes_from_2_to(n)` ("primes in 2 <= p < n", increasing); the numpy wheel sieve itself is
not modelled – the correspondence check compares its output with this list. -/
def isPrime (n : Nat) : Bool := 2 ≤ n && (List.range n).all fun d => d < 2 || n % d != 0

def primesBelow (n : Nat) : List Nat := (List.range n).filter isPrime

/-- `while 'Not enought primes': base = _primes_from_2_to(big_number)[:dimension]; if len(base) == dimension:
break; big_number += 1000`.  `fuel` bounds the number of rounds (the Python loop has no bound). -/
def basesLoop : Nat → Nat → Nat → Option (List Nat)
  | 0, _, _ => none
  | fuel + 1, big, dim =>
    let base := (primesBelow big).take dim
    if base.length == dim then some base else basesLoop fuel (big + 1000) dim

def haltonBases (dim : Nat) : Option (List Nat) := basesLoop (dim + 1) 10 dim

/-- `halton(num_points = N, dimension)`: `np.stack([vdc(N + 1, b) for b in base], axis=-1)[1:]`, i.e. row `i`,
column `j` is `vdc(base_j)[i]`, and the row of `i = 0` is dropped.  `np.stack([])` raises for `dimension = 0`. -/
def haltonUnit (N dim : Nat) : Option (List (List Rat)) := do
  let base ← haltonBases dim
  if base.isEmpty then none else
  let rows ← allSome ((List.range (N + 1)).map fun i => allSome (base.map fun b => vanDerCorput b i))
  some (rows.drop 1)

/-- `build_halton(dict_vars, num_samples = N)` as called by `HaltonGenerator.generate`. -/
def buildHalton (N : Nat) (bounds : List (Rat × Rat)) : Option (List (List Rat)) := do
  let h ← haltonUnit N bounds.length
  constructDf h bounds

/-! ## Uniform grid -/

/-- The inner loop of `UniformGenerator.generate` for one parameter: `delta = (ub − lb)/(number − 1)`,
levels `lb + i·delta`, `i = 0 … number−1`.  `number = 1` raises `ZeroDivisionError`. -/
def gridLevels (lb ub : Rat) (k : Nat) : Option (List Rat) :=
  if k = 1 then none
  else
    let delta := (ub - lb) / ((k : Rat) - 1)
    some ((List.range k).map fun (i : Nat) => lb + (i : Rat) * delta)

/-- `itertools.product(*vectors)` (first factor varies slowest; the empty product is one empty tuple). -/
def product {α} : List (List α) → List (List α)
  | [] => [[]]
  | l :: ls => l.flatMap fun a => (product ls).map (a :: ·)

/-- `UniformGenerator.generate()` with `number = k`. -/
def uniformGrid (bounds : List (Rat × Rat)) (k : Nat) : Option (List (List Rat)) := do
  let vectors ← allSome (bounds.map fun b => gridLevels b.1 b.2 k)
  some (product vectors)

/-! ## Random generator -/

/-- Python 3 `round(x)` for a float: nearest integer, ties to even. -/
def pyRound (x : Rat) : Int :=
  let f := x.floor
  let r := x - (f : Rat)
  if r < 1 / 2 then f
  else if 1 / 2 < r then f + 1
  else if f % 2 == 0 then f else f + 1

/-- `gen_number(bounds, precision)` for the uniform distribution and a real parameter; `u` is the value
returned by `random()`.  `precision == 0` (also the default of the one-argument call) is replaced by
`1e-12` – the harness sends the exact rational of that double. -/
def genNumber (lb ub prec u : Rat) : Rat :=
  let number := u * (ub - lb) + lb
  (pyRound (number / prec) : Rat) * prec

/-- `gen_vector(parameters)`: one draw per parameter `(lb, ub, precision)`, in order; fewer draws than
parameters cannot happen in the code (`none`). -/
def genVector : List (Rat × Rat × Rat) → List Rat → Option (List Rat)
  | [], _ => some []
  | _ :: _, [] => none
  | p :: ps, u :: us => (genVector ps us).map (genNumber p.1 p.2.1 p.2.2 u :: ·)

/-- `RandomGenerator.generate()` with `number = N`; `draws[i]` are the `random()` values consumed by the `i`-th
`gen_vector` call. -/
def randomDesigns (N : Nat) (params : List (Rat × Rat × Rat)) (draws : List (List Rat)) :
    Option (List (List Rat)) :=
  allSome ((List.range N).map fun i => match draws[i]? with
    | some us => genVector params us
    | none => none)

/-- The values `gen_number` can return for the recorded `random()` values `us` (the harness checks that every
returned coordinate is, within the R2 band, one of them). -/
def genCandidates (lb ub prec : Rat) (us : List Rat) : List Rat := us.map (genNumber lb ub prec)

end Artap.Sampling

namespace Artap.Sampling
open Artap.Proto

def parseBounds? (s : String) : Option (List (Rat × Rat)) := do
  let m ← parseMat? parseRat? s
  Artap.Sampling.allSome (m.map fun r => match r with
    | [a, b] => some (a, b)
    | _ => none)

def parseParams? (s : String) : Option (List (Rat × Rat × Rat)) := do
  let m ← parseMat? parseRat? s
  Artap.Sampling.allSome (m.map fun r => match r with
    | [a, b, c] => some (a, b, c)
    | _ => none)

def showOptMat : Option (List (List Rat)) → String
  | some m => if m.isEmpty then "empty" else showMat showRat m
  | none => "raise"

def showStrata (N : Nat) (bounds : List (Rat × Rat)) (x : List (List Rat)) : String :=
  showMat toString (x.map fun row => (row.zip bounds).map fun (v, b) => stratum N b.1 b.2 v)

/-- protocol
* `c12.latin N|bounds|rows` → `spec <0/1> <strata matrix>` (`isLatinDesign` on the implementation's output);
* `c12.lhs N|bounds|u|perms` → design or `raise`;
* `c12.halton N|bounds` → design / `raise`;  `c12.bases dim` → the prime bases;
* `c12.vdc b|i` → one van der Corput number;
* `c12.grid k|bounds` → rows of the grid / `raise` / `empty`;  `c12.levels k|lb,ub` → the levels;
* `c12.gen lb,ub,prec|u,u,…` → `genNumber` for each `u`;
* `c12.random N|lb,ub,prec;…|u,…;u,…` → designs / `raise`. -/
def handle (op : String) (arg : String) : Option String :=
  match op, arg.splitOn "|" with
  | "c12.latin", [n, b, x] => do
    let n ← parseNat? n
    let b ← parseBounds? b
    let x ← parseMat? parseRat? x
    some ("spec " ++ showBool (isLatinDesign n b x) ++ " " ++ showStrata n b x)
  | "c12.lhs", [n, b, u, p] => do
    let n ← parseNat? n
    let b ← parseBounds? b
    let u ← parseMat? parseRat? u
    let p ← parseMat? parseNat? p
    some (showOptMat (buildLhs n b u p))
  | "c12.halton", [n, b] => do
    let n ← parseNat? n
    let b ← parseBounds? b
    some (showOptMat (buildHalton n b))
  | "c12.bases", [d] => do
    let d ← parseNat? d
    some (match haltonBases d with
      | some l => showList toString l
      | none => "raise")
  | "c12.vdc", [b, i] => do
    let b ← parseNat? b
    let i ← parseNat? i
    some (match vanDerCorput b i with
      | some r => showRat r
      | none => "raise")
  | "c12.grid", [k, b] => do
    let k ← parseNat? k
    let b ← parseBounds? b
    some (showOptMat (uniformGrid b k))
  | "c12.levels", [k, b] => do
    let k ← parseNat? k
    match ← parseList? parseRat? b with
    | [lb, ub] => some (match gridLevels lb ub k with
        | some l => if l.isEmpty then "empty" else showList showRat l
        | none => "raise")
    | _ => none
  | "c12.gen", [p, us] => do
    let us ← parseList? parseRat? us
    match ← parseList? parseRat? p with
    | [lb, ub, prec] => if prec == 0 then none else some (showList showRat (genCandidates lb ub prec us))
    | _ => none
  | "c12.random", [n, p, d] => do
    let n ← parseNat? n
    let p ← parseParams? p
    let d ← parseMat? parseRat? d
    if p.any (fun q => q.2.2 == 0) then none else
    some (showOptMat (randomDesigns n p d))
  | _, _ => none

end Artap.Sampling
