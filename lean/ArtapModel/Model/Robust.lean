import ArtapModel.Model.Proto
/-!
# Model of `WorstCaseEvaluator` and `GradientEvaluator` (artap/operators.py) — property C14

Python objects with identity (`Individual`s that sit in several lists at once and are
mutated in place) are modelled by a heap: `Heap.mem : Nat → Ind`, identities are numbers
`< Heap.next` (the designs handed to `Algorithm.evaluate`).  The evaluator's work lists
`individuals` / `to_evaluate` are lists of identities, exactly as the Python lists are lists
of references.  The neighbour designs (`individual.children`) are owned by their parent and
stored inside it; `to_evaluate` is always a concatenation of whole families
`[parent] ++ parent.children` (that is how both `add` methods extend it), so it is kept as the
list of the parents' identities and "evaluate every member of `to_evaluate`" becomes
"for every family: the parent, then its children" — the same calls in the same order.

Regime R2: all arithmetic over `Rat` (`+`, `-`, `*`, `/ delta`, `abs`, `np.round(·, 7)`).

Not modelled (other properties): retries of a failing objective (C06), the parallel branch
(C07), the data store.  `Job.evaluate` is therefore: skip when already evaluated, otherwise
`costs := f x`, `costs_signed := signs * round7 costs ++ [marker]`, one logged objective call.

Python exceptions are explicit `none`: unknown identity, `parameters[i]['tol']` missing
(`KeyError`/`IndexError`), `costs[0]` of an empty cost list (`IndexError`),
`costs_signed[-2]` of a too short list, `gradient[i]` out of range, division by `delta = 0`,
`self.individuals[0]` of an empty gradient batch.
-/
namespace Artap.Robust

/-- A neighbour design (`Individual(vector)` hung on `individual.children`). -/
structure Child where
  x : List Rat
  costs : List Rat
  evaluated : Bool

def Child.fresh (x : List Rat) : Child := ⟨x, [], false⟩

/-- One submitted `Individual`.  `evaluated` is `state == EVALUATED` (otherwise `EMPTY`);
`sens` = `features['sensitivity']`, `grad` = `features['gradient']`. -/
structure Ind where
  x : List Rat
  costs : List Rat
  signed : List Rat
  evaluated : Bool
  children : List Child
  sens : Option Rat
  grad : Option (List Rat)

/-- `Individual(vector)`. -/
def Ind.fresh (x : List Rat) : Ind := ⟨x, [], [], false, [], none, none⟩

/-- The user's problem: objective `f` (`Problem.evaluate`), `signs` (`Problem.signs`, one per
*user* objective: computed in `Problem.__init__`, before the evaluator appends its
`sensitivity` cost), `marker x` = `not features["feasible"]` as a number, and
`parameters[i]['tol']` (`none` = key missing). -/
structure Prob where
  f : List Rat → List Rat
  signs : List Int
  marker : List Rat → Rat
  tol : List (Option Rat)

structure Heap where
  next : Nat
  mem : Nat → Ind
  /-- log of objective calls (argument vectors, in call order) -/
  calls : List (List Rat)

def upd (m : Nat → Ind) (i : Nat) (v : Ind) : Nat → Ind := fun j => if j = i then v else m j

/-- The designs `Individual(v)` for `v` in `ds`, identities `0, 1, …`. -/
def Heap.ofDesigns (ds : List (List Rat)) : Heap := ⟨ds.length, fun i => Ind.fresh (ds.getD i []), []⟩

/-- `np.round(y, decimals=7)` = `rint(y * 1e7) / 1e7`, `rint` rounds half to even. -/
def roundHalfEven (q : Rat) : Int :=
  let fl := q.floor
  let r := q - (fl : Rat)
  if r < 1 / 2 then fl else if 1 / 2 < r then fl + 1 else if fl % 2 == 0 then fl else fl + 1

def round7 (y : Rat) : Rat := (roundHalfEven (y * 10000000) : Rat) / 10000000

/-- `Individual.calc_signed_costs`: `map` stops at the shorter of `signs`, `costs`. -/
def signedCosts (P : Prob) (c : List Rat) (x : List Rat) : List Rat :=
  List.zipWith (fun (s : Int) y => (s : Rat) * round7 y) P.signs c ++ [P.marker x]

/-- Generic "for i in ids: state = step(state, i)" with exceptions. -/
def foldO {σ : Type} (step : σ → Nat → Option σ) : σ → List Nat → Option σ
  | s, [] => some s
  | s, i :: r => match step s i with
    | some s' => foldO step s' r
    | none => none

/-- "Mutate the object with identity `i`": `g` returns the new object and the objective calls
it made; unknown identity or an exception in `g` = `none`. -/
def applyAt (g : Ind → Option (Ind × List (List Rat))) (h : Heap) (i : Nat) : Option Heap :=
  if i < h.next then
    match g (h.mem i) with
    | some (d', cl) => some { h with mem := upd h.mem i d', calls := h.calls ++ cl }
    | none => none
  else none

/-- `Job.evaluate(individual)` behind `Evaluator.evaluate_serial` (only `EMPTY` designs are
computed). -/
def jobEval (P : Prob) (d : Ind) : Ind × List (List Rat) :=
  if d.evaluated then (d, [])
  else ({ d with costs := P.f d.x, signed := signedCosts P (P.f d.x) d.x, evaluated := true }, [d.x])

/-- The same for a neighbour design. -/
def childEval (P : Prob) (c : Child) : Child :=
  if c.evaluated then c else { c with costs := P.f c.x, evaluated := true }

/-- One family of `to_evaluate`: the parent, then each child, in order. -/
def famEval (P : Prob) (d : Ind) : Ind × List (List Rat) :=
  let (d1, cl) := jobEval P d
  ({ d1 with children := d1.children.map (childEval P) },
   cl ++ (d.children.filter (fun c => !c.evaluated)).map (·.x))

/-- `Evaluator.evaluate(individuals)` (serial) on submitted designs. -/
def evalList (P : Prob) : Heap → List Nat → Option Heap :=
  foldO (applyAt (fun d => some (jobEval P d)))

/-- `Evaluator.evaluate(self.to_evaluate)`. -/
def evalFamilies (P : Prob) : Heap → List Nat → Option Heap :=
  foldO (applyAt (fun d => some (famEval P d)))

/-- `vector = x.copy(); vector[k] += d`. -/
def shift (x : List Rat) (k : Nat) (d : Rat) : List Rat := x.modify k (· + d)

/-- Evaluator object: the heap it works on plus its own attributes. -/
structure Ev where
  heap : Heap
  individuals : List Nat
  toEvaluate : List Nat
  /-- `self.n = len(problem.costs)` *after* appending the `sensitivity` entry -/
  n : Nat

/-- `WorstCaseEvaluator(algorithm)` / `GradientEvaluator(algorithm)` on a heap. -/
def Ev.init (P : Prob) (h : Heap) : Ev := ⟨h, [], [], P.signs.length + 1⟩

/-! ## Worst-case evaluator -/

/-- The double loop of `WorstCaseEvaluator.add`: for every axis `k` (in `ks`), for
`sign in [-1, 1]`: `x` with `x[k] += sign * parameters[k]['tol']`. -/
def wcPairs (tol : List (Option Rat)) (x : List Rat) : List Nat → Option (List (List Rat))
  | [] => some []
  | k :: ks => match tol[k]? with
    | some (some t) => match wcPairs tol x ks with
      | some r => some (shift x k ((-1) * t) :: shift x k (1 * t) :: r)
      | none => none
    | _ => none

def wcChildVecs (tol : List (Option Rat)) (x : List Rat) : Option (List (List Rat)) :=
  wcPairs tol x (List.range x.length)

/-- Object part of `WorstCaseEvaluator.add`: `individual.children = [Individual(v) …]`. -/
def wcAddInd (P : Prob) (d : Ind) : Option (Ind × List (List Rat)) :=
  match wcChildVecs P.tol d.x with
  | some vs => some ({ d with children := vs.map Child.fresh }, [])
  | none => none

/-- `WorstCaseEvaluator.add(individual)`: children, `individuals.append`, `to_evaluate`
extended by the family. -/
def wcAdd (P : Prob) (e : Ev) (i : Nat) : Option Ev :=
  match applyAt (wcAddInd P) e.heap i with
  | some h => some { e with heap := h, individuals := e.individuals ++ [i], toEvaluate := e.toEvaluate ++ [i] }
  | none => none

def absR (q : Rat) : Rat := if q < 0 then -q else q

/-- `[abs(individual.costs[0] - child.costs[0]) for child in individual.children]`. -/
def diffs (d : Ind) : List Child → Option (List Rat)
  | [] => some []
  | c :: cs =>
    match d.costs[0]?, c.costs[0]? with
    | some a, some b => match diffs d cs with
      | some r => some (absR (a - b) :: r)
      | none => none
    | _, _ => none

/-- `l[-1] = v` (callers guarantee `l ≠ []`). -/
def setLast (l : List Rat) (v : Rat) : List Rat := l.set (l.length - 1) v

/-- `l.insert(-1, v)`: before the last element; on an empty list it appends. -/
def insertBeforeLast (l : List Rat) (v : Rat) : List Rat :=
  l.take (l.length - 1) ++ v :: l.drop (l.length - 1)

/-- Body of the `for individual in self.individuals` loop of `WorstCaseEvaluator.run`. -/
def wcProcInd (n : Nat) (d : Ind) : Option (Ind × List (List Rat)) :=
  match diffs d d.children with
  | some ds =>
    let s := ds.sum
    if d.costs.length > n then
      if d.signed.length < 2 then none
      else some ({ d with sens := some s, costs := setLast d.costs s,
                          signed := d.signed.set (d.signed.length - 2) s }, [])
    else some ({ d with sens := some s, costs := d.costs ++ [s], signed := insertBeforeLast d.signed s }, [])
  | none => none

/-- `WorstCaseEvaluator.run`.  `reset = true` is the code as it is now (work lists cleared at
the end, commit cfc0e1c); `reset = false` is the earlier, accumulating behaviour. -/
def wcRun (P : Prob) (reset : Bool) (e : Ev) : Option Ev :=
  match evalFamilies P e.heap e.toEvaluate with
  | some h1 => match foldO (applyAt (wcProcInd e.n)) h1 e.individuals with
    | some h2 =>
      if reset then some { e with heap := h2, individuals := [], toEvaluate := [] }
      else some { e with heap := h2 }
    | none => none
  | none => none

/-- `WorstCaseEvaluator.evaluate(batch)` = `Algorithm.evaluate(batch)` under this evaluator. -/
def wcEvaluate (P : Prob) (reset : Bool) (e : Ev) (batch : List Nat) : Option Ev :=
  match evalList P e.heap batch with
  | some h0 => match foldO (wcAdd P) { e with heap := h0 } batch with
    | some e1 => wcRun P reset e1
    | none => none
  | none => none

/-- One batch per generation. -/
def wcBatches (P : Prob) (reset : Bool) : Ev → List (List Nat) → Option Ev
  | e, [] => some e
  | e, b :: bs => match wcEvaluate P reset e b with
    | some e' => wcBatches P reset e' bs
    | none => none

/-! ## Gradient evaluator -/

/-- `self.delta = 1e-4`: the exact value of that double. -/
def delta : Rat := 7378697629483821 / 73786976294838206464

/-- children of `GradientEvaluator.add`: `x` with `x[k] += delta`, `k = 0 … n-1`. -/
def gradVecs (dl : Rat) (x : List Rat) : List (List Rat) :=
  (List.range x.length).map (fun k => shift x k dl)

def gradAddInd (dl : Rat) (d : Ind) : Option (Ind × List (List Rat)) :=
  some ({ d with children := (gradVecs dl d.x).map Child.fresh }, [])

/-- `GradientEvaluator.add(individual)`. -/
def gradAdd (dl : Rat) (e : Ev) (i : Nat) : Option Ev :=
  match applyAt (gradAddInd dl) e.heap i with
  | some h => some { e with heap := h, individuals := e.individuals ++ [i], toEvaluate := e.toEvaluate ++ [i] }
  | none => none

/-- `(child.costs[0] - individual.costs[0]) / delta` for every child. -/
def quots (dl : Rat) (d : Ind) : List Child → Option (List Rat)
  | [] => some []
  | c :: cs =>
    match c.costs[0]?, d.costs[0]? with
    | some b, some a =>
      if dl = 0 then none else
      match quots dl d cs with
      | some r => some ((b - a) / dl :: r)
      | none => none
    | _, _ => none

/-- Loop body of `GradientEvaluator.run`: `gradient = np.zeros(n_params)`, then
`gradient[i] = …` for the i-th child (`IndexError` beyond `n_params`). -/
def gradProcInd (dl : Rat) (nParams : Nat) (d : Ind) : Option (Ind × List (List Rat)) :=
  if d.children.length > nParams then none else
  match quots dl d d.children with
  | some qs => some ({ d with grad := some (qs ++ List.replicate (nParams - qs.length) 0) }, [])
  | none => none

/-- `GradientEvaluator.run` (always resets its work lists). -/
def gradRun (P : Prob) (dl : Rat) (e : Ev) : Option Ev :=
  match e.individuals with
  | [] => none
  | i0 :: _ =>
    if i0 < e.heap.next then
      let nParams := (e.heap.mem i0).x.length
      match evalFamilies P e.heap e.toEvaluate with
      | some h1 => match foldO (applyAt (gradProcInd dl nParams)) h1 e.individuals with
        | some h2 => some { e with heap := h2, individuals := [], toEvaluate := [] }
        | none => none
      | none => none
    else none

/-- `GradientEvaluator.evaluate(batch)`. -/
def gradEvaluate (P : Prob) (dl : Rat) (e : Ev) (batch : List Nat) : Option Ev :=
  match foldO (gradAdd dl) e batch with
  | some e1 => gradRun P dl e1
  | none => none

def gradBatches (P : Prob) (dl : Rat) : Ev → List (List Nat) → Option Ev
  | e, [] => some e
  | e, b :: bs => match gradEvaluate P dl e b with
    | some e' => gradBatches P dl e' bs
    | none => none

/-! ## Line protocol

`c14.wc  <reset 0/1>|<signs>|<tol>|<objectives>|<constraints>|<designs>|<batches>`
`c14.grad          <signs>|<tol>|<objectives>|<constraints>|<designs>|<batches>`

* `signs`: `1,-1,…`; `tol`: rationals, `N` = key missing;
* `objectives` / `constraints`: `;`-separated polynomials `c,a_1..a_n,b_1..b_n`
  (`c + Σ a_i x_i + Σ b_i x_i²`); no constraint = marker `1`, otherwise marker `0` iff every
  constraint value is `< 0`;
* `designs`: `;`-separated vectors (identities `0 …` in this order);
  `batches`: `;`-separated lists of identities (`-` = empty batch).

Answer: one snapshot per batch, joined by `@`; a snapshot is `<calls>#<design>#…` over the
top-level designs, a design is `e|costs|signed|sens|grad|childvecs|childcosts`
(`childvecs`, `childcosts` are `;`-separated vectors); `raise` if the model raises.
-/
open Artap.Proto

def evalPoly (coef : List Rat) (x : List Rat) : Rat :=
  let n := x.length
  let c := coef.getD 0 0
  let a := (coef.drop 1).take n
  let b := (coef.drop (1 + n)).take n
  c + (List.zipWith (· * ·) a x).sum + (List.zipWith (fun bi xi => bi * xi * xi) b x).sum

def mkProb (signs : List Int) (tol : List (Option Rat)) (objs cons : List (List Rat)) : Prob where
  f := fun x => objs.map (fun p => evalPoly p x)
  signs := signs
  marker := fun x => if cons.isEmpty then 1 else if cons.all (fun p => evalPoly p x < 0) then 0 else 1
  tol := tol

def parseTol? (s : String) : Option (Option Rat) :=
  if tok s == "N" then some none else (parseRat? s).map some

/-- a batch: identities, `-` = the empty batch -/
def parseBatch? (s : String) : Option (List Nat) :=
  if tok s == "-" then some [] else parseList? parseNat? s

def parseBatches? (s : String) : Option (List (List Nat)) :=
  allSome ((splitNE s ";").map parseBatch?)

def showOptRat : Option Rat → String
  | some r => showRat r
  | none => "N"

def showInd (d : Ind) : String :=
  String.intercalate "|" [
    showBool d.evaluated, showList showRat d.costs, showList showRat d.signed, showOptRat d.sens,
    (match d.grad with | some g => showList showRat g | none => "N"),
    showMat showRat (d.children.map (·.x)),
    showMat showRat (d.children.map (·.costs))]

def snapshot (nTop : Nat) (h : Heap) : String :=
  String.intercalate "#" (toString h.calls.length :: (List.range nTop).map fun i => showInd (h.mem i))

/-- Run the batches one by one, taking a snapshot after each. -/
def runSnap (step : Ev → List Nat → Option Ev) (nTop : Nat) : Ev → List (List Nat) → Option (List String)
  | _, [] => some []
  | e, b :: bs => match step e b with
    | some e' => (runSnap step nTop e' bs).map (snapshot nTop e'.heap :: ·)
    | none => none

def answerOf (r : Option (List String)) : String :=
  match r with
  | some l => String.intercalate "@" l
  | none => "raise"

def handle (op : String) (arg : String) : Option String :=
  match op, arg.splitOn "|" with
  | "c14.wc", [r, sg, tl, ob, cn, ds, bs] => do
    let r ← parseNat? r
    let sg ← parseList? parseInt? sg
    let tl ← parseList? parseTol? tl
    let ob ← parseMat? parseRat? ob
    let cn ← parseMat? parseRat? cn
    let ds ← parseMat? parseRat? ds
    let bs ← parseBatches? bs
    let P := mkProb sg tl ob cn
    let e := Ev.init P (Heap.ofDesigns ds)
    some (answerOf (runSnap (wcEvaluate P (r != 0)) ds.length e bs))
  | "c14.grad", [sg, tl, ob, cn, ds, bs] => do
    let sg ← parseList? parseInt? sg
    let tl ← parseList? parseTol? tl
    let ob ← parseMat? parseRat? ob
    let cn ← parseMat? parseRat? cn
    let ds ← parseMat? parseRat? ds
    let bs ← parseBatches? bs
    let P := mkProb sg tl ob cn
    let e := Ev.init P (Heap.ofDesigns ds)
    some (answerOf (runSnap (gradEvaluate P delta) ds.length e bs))
  | _, _ => none

end Artap.Robust
