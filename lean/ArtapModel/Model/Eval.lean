import ArtapModel.Model.Proto
/-!
# Model of `Job.evaluate` and `Evaluator` (artap/job.py, artap/operators.py), C05 + C06

One model for the success path (C05) and the fault path (C06).

* `attempts` is the `for i in range(5)` loop of `Job.evaluate` (fuel = remaining
  iterations), `jobEvaluate` adds the early return for `EVALUATED` designs.
* `evalSerial` is `Evaluator.evaluate_serial` (a Python exception aborts the loop:
  later designs are left untouched), `evalIdx` the same loop over *references* into a pool
  of design objects (so the same object may occur twice in a batch), `evalScalar` is
  `Evaluator.evaluate_scalar`, `sweep` is `SweepAlgorithm.run`.
* The user's objective, the constraint function, the sampler used for re-rolls and the
  rounding function are parameters (`Env`).  The objective is an oracle
  `obj key n v` = outcome of the `n`-th objective call ever made on the design object
  `key`, asked for vector `v` (a pure objective ignores `key` and `n`); `reroll key n` is the
  vector `VectorAndNumbers.gen_vector` returned after that call failed.
* Python exceptions are explicit: `Err.tooMany` is the final
  `RuntimeError("To many failures …")`, `Err.fatal tag` any exception class other than
  `TimeoutError`/`RuntimeError` raised by the objective (identified by `tag`).

Python details reproduced deliberately:
* `features["feasible"]` starts as `0.0` (`Feas.dflt`, falsy), becomes a `bool` only when the
  constraint list is non-empty, and is set to `False` in the `except` branch;
  the marker appended to `costs_signed` is `not features["feasible"]`.
* `map(lambda x, y: …, signs, costs)` stops at the shorter list (`List.zipWith`).
* `costs_signed` is kept as `signed` (without marker) + `marker` like the C01 model does;
  `marker = none` is the empty `costs_signed` of a design that was never evaluated.
* `individual.costs.append(self.job.evaluate(individual))` appends `None` to the *old* list
  object (the attribute is rebound inside the call) – a no-op on the design.
-/
namespace Artap.Eval

abbrev Vec := List Rat

inductive State
  | empty | inProgress | evaluated | failed
  deriving DecidableEq, Repr

/-- `features["feasible"]`: the float default `0.0`, or a bool. -/
inductive Feas
  | dflt | no | yes
  deriving DecidableEq, Repr

def Feas.truthy : Feas → Bool
  | .yes => true
  | _ => false

inductive Outcome
  | ok (costs : List Rat)
  | transient (tag : Nat)     -- TimeoutError (0) / RuntimeError (1) and subclasses
  | fatal (tag : Nat)         -- any other exception class
  deriving Repr

inductive Err
  | tooMany
  | fatal (tag : Nat)
  deriving DecidableEq, Repr

structure Design where
  key : Nat                 -- object identity (never changes)
  vec : Vec
  state : State
  costs : List Rat
  signed : List Rat         -- `costs_signed[:-1]`
  marker : Option Int       -- `costs_signed[-1]` (`none`: `costs_signed == []`)
  feasible : Feas
  prec : Nat                -- `features["precision"]`
  ncalls : Nat              -- ghost: number of objective calls made on this object so far
  deriving Repr

structure Env where
  obj : Nat → Nat → Vec → Outcome
  reroll : Nat → Nat → Vec
  cons : Vec → List Rat
  signs : List Rat
  rnd : Nat → Rat → Rat

/-- Observable side effects: the objective's call log `(design, vector)` and `Problem.failed`. -/
structure World where
  log : List (Nat × Vec)
  failed : List Vec
  deriving Repr

/-- `if len(constraints) > 0: features["feasible"] = all(v < 0.0 for v in constraints)`. -/
def feasAfter (g : List Rat) (f : Feas) : Feas :=
  if g.isEmpty then f else if g.all (fun v => decide (v < 0)) then .yes else .no

/-- `not features["feasible"]` as 0/1. -/
def markerOf (f : Feas) : Int := if f.truthy then 0 else 1

/-- `list(map(lambda x, y: x * np.round(y, decimals=precision), signs, costs))`. -/
def signedCosts (env : Env) (prec : Nat) (costs : List Rat) : List Rat :=
  List.zipWith (fun s c => s * env.rnd prec c) env.signs costs

/-- The design after a successful objective call returning `c`. -/
def succeed (env : Env) (d : Design) (c : List Rat) : Design :=
  let f := feasAfter (env.cons d.vec) d.feasible
  { d with state := .evaluated, feasible := f, costs := c, signed := signedCosts env d.prec c,
           marker := some (markerOf f), ncalls := d.ncalls + 1 }

/-- The design after the `except (TimeoutError, RuntimeError)` branch. -/
def failDesign (env : Env) (d : Design) : Design :=
  { d with state := .empty, feasible := .no, vec := env.reroll d.key d.ncalls, ncalls := d.ncalls + 1 }

def failWorld (d : Design) (w : World) : World :=
  { log := w.log ++ [(d.key, d.vec)], failed := w.failed ++ [d.vec] }

/-- The design when another exception passes through (`state` stays `IN_PROGRESS`). -/
def abortDesign (env : Env) (d : Design) : Design :=
  { d with state := .inProgress, feasible := feasAfter (env.cons d.vec) d.feasible, ncalls := d.ncalls + 1 }

def logCall (d : Design) (w : World) : World := { w with log := w.log ++ [(d.key, d.vec)] }

/-- `for i in range(k): …` of `Job.evaluate`, then `raise RuntimeError`. -/
def attempts (env : Env) : Nat → Design → World → Option Err × Design × World
  | 0, d, w => (some .tooMany, d, w)
  | k + 1, d, w =>
    match env.obj d.key d.ncalls d.vec with
    | .ok c => (none, succeed env d c, logCall d w)
    | .transient _ => attempts env k (failDesign env d) (failWorld d w)
    | .fatal t => (some (.fatal t), abortDesign env d, logCall d w)

/-- `Job.evaluate(individual)`. -/
def jobEvaluate (env : Env) (d : Design) (w : World) : Option Err × Design × World :=
  if d.state = .evaluated then (none, d, w) else attempts env 5 d w

/-- `Evaluator.evaluate_serial(individuals)` on a list of distinct design objects. -/
def evalSerial (env : Env) : List Design → World → Option Err × List Design × World
  | [], w => (none, [], w)
  | d :: ds, w =>
    if d.state = .empty then
      match jobEvaluate env d w with
      | (some e, d', w') => (some e, d' :: ds, w')
      | (none, d', w') =>
        match evalSerial env ds w' with
        | (r, ds', w'') => (r, d' :: ds', w'')
    else
      match evalSerial env ds w with
      | (r, ds', w') => (r, d :: ds', w')

/-- The same loop over references `i` into the pool of objects (aliasing allowed).
`none` only for a reference outside the pool (malformed request). -/
def evalIdx (env : Env) : List Nat → List Design → World → Option (Option Err × List Design × World)
  | [], pool, w => some (none, pool, w)
  | i :: is, pool, w =>
    match pool[i]? with
    | none => none
    | some d =>
      if d.state = .empty then
        match jobEvaluate env d w with
        | (some e, d', w') => some (some e, pool.set i d', w')
        | (none, d', w') => evalIdx env is (pool.set i d') w'
      else evalIdx env is pool w

/-- `Individual(vector)`. -/
def fresh (key : Nat) (prec : Nat) (v : Vec) : Design :=
  { key := key, vec := v, state := .empty, costs := [], signed := [], marker := none,
    feasible := .dflt, prec := prec, ncalls := 0 }

/-- `costs_signed[0]` (`none` = IndexError on the empty list). -/
def signedHead (d : Design) : Option Rat :=
  match d.signed, d.marker with
  | s :: _, _ => some s
  | [], some m => some (m : Rat)
  | [], none => none

/-- `Evaluator.evaluate_scalar(x)`: a new design is appended to `problem.individuals`
(`pool`), evaluated, and `costs_signed[0]` is returned to the optimiser. -/
def evalScalar (env : Env) (prec : Nat) (x : Vec) (pool : List Design) (w : World) :
    Except Err (Option Rat) × List Design × World :=
  match jobEvaluate env (fresh pool.length prec x) w with
  | (some e, d', w') => (.error e, pool ++ [d'], w')
  | (none, d', w') => (.ok (signedHead d'), pool ++ [d'], w')

/-- `[Individual(v) for v in vectors]` appended to `problem.individuals`. -/
def freshFrom (start : Nat) (prec : Nat) : List Vec → List Design
  | [] => []
  | v :: vs => fresh start prec v :: freshFrom (start + 1) prec vs

/-- `SweepAlgorithm.run` with the generator's output `vectors`. -/
def sweep (env : Env) (prec : Nat) (vectors : List Vec) (pool : List Design) (w : World) :
    Option Err × List Design × World :=
  match evalSerial env (freshFrom pool.length prec vectors) w with
  | (r, ds', w') => (r, pool ++ ds', w')

/-! ### `np.round(y, decimals=p)` in exact arithmetic: `rint(y·10^p) / 10^p` (half to even) -/

def rintHalfEven (q : Rat) : Int :=
  let f := q.floor
  let r := q - (f : Rat)
  if r < 1 / 2 then f
  else if 1 / 2 < r then f + 1
  else if f % 2 = 0 then f else f + 1

def roundDec (p : Nat) (y : Rat) : Rat :=
  (rintHalfEven (y * ((10 : Rat) ^ p)) : Rat) / ((10 : Rat) ^ p)

end Artap.Eval

/-! ## Line protocol

`c05.run signs|table|designs|program`   (also served as `c06.run`)

* `signs`   : `1,-1,…`
* `table`   : entries separated by `#`, each `vec:costs:cons` (rationals, `,`-separated);
              the pure part of the user's functions: `costs`/`cons` returned for `vec`
* `designs` : entries separated by `#`, each `prec:script:vecs` – every design object ever
              created, in creation order (key = position).  `script` = `,`-separated outcome
              kinds of the successive objective calls on that object (`o` ok, `t` TimeoutError,
              `r` RuntimeError, `f<n>` other exception class n); `vecs` = `;`-separated
              vectors: the initial one followed by the re-rolled ones (read back from the run)
* `program` : commands separated by `#`: `n:k1,k2,…` the caller creates these objects
              (`Individual(vec)` with `features["precision"] = prec`; no result entry),
              `b:i,j,…` serial batch over existing objects,
              `s:k` `evaluate_scalar` creating object k, `w:k1,k2,…` sweep creating these objects

Answer: `results|log|failed|designs` with results `ok`, `ok=<rat>`, `E:tooMany`, `E:f<n>`
per command; log entries `key:vec` joined by `#`; failed vectors joined by `;`; designs
`vec:state:costs:signed:marker` joined by `#` (state `E I V F`, marker `0 1 N`).

The oracles are total functions built from these tables; a lookup outside the tables yields
junk, and `handle` answers `none` (→ `bad-op`, an infrastructure error) whenever a run
consulted an entry that was not supplied, so no junk value can reach an answer.
-/
namespace Artap.Eval
open Artap.Proto

structure DesignSpec where
  prec : Nat
  script : List Outcome      -- costs of `ok` are filled in from the table
  vecs : List Vec

def lookup (table : List (Vec × List Rat × List Rat)) (v : Vec) : Option (List Rat × List Rat) :=
  (table.find? (fun e => e.1 == v)).map (·.2)

def mkEnv (signs : List Rat) (table : List (Vec × List Rat × List Rat)) (specs : List DesignSpec) : Env where
  obj := fun key n v =>
    match specs[key]? with
    | none => .fatal 0
    | some sp =>
      match sp.script[n]? with
      | some (.ok _) => .ok ((lookup table v).map (·.1) |>.getD [])
      | some o => o
      | none => .fatal 0
  reroll := fun key n => (specs[key]?.bind (fun sp => sp.vecs[n + 1]?)).getD []
  cons := fun v => ((lookup table v).map (·.2)).getD []
  signs := signs
  rnd := roundDec

inductive Cmd
  | batch (idx : List Nat)
  | scalar (k : Nat)
  | sweepC (ks : List Nat)
  | create (ks : List Nat)

def parseOutcome? (s : String) : Option Outcome :=
  match (tok s).toList with
  | ['o'] => some (.ok [])
  | ['t'] => some (.transient 0)
  | ['r'] => some (.transient 1)
  | 'f' :: rest => (String.ofList rest).toNat?.map .fatal
  | _ => none

def parseSpec? (s : String) : Option DesignSpec :=
  match s.splitOn ":" with
  | [p, sc, vs] => do
    let p ← parseNat? p
    let sc ← parseList? parseOutcome? sc
    let vs ← parseMat? parseRat? vs
    some { prec := p, script := sc, vecs := vs }
  | _ => none

def parseEntry? (s : String) : Option (Vec × List Rat × List Rat) :=
  match s.splitOn ":" with
  | [v, c, g] => do
    let v ← parseList? parseRat? v
    let c ← parseList? parseRat? c
    let g ← parseList? parseRat? g
    some (v, c, g)
  | _ => none

def parseCmd? (s : String) : Option Cmd :=
  match s.splitOn ":" with
  | [c, a] =>
    match tok c with
    | "b" => (parseList? parseNat? a).map .batch
    | "s" => (parseNat? a).map .scalar
    | "w" => (parseList? parseNat? a).map .sweepC
    | "n" => (parseList? parseNat? a).map .create
    | _ => none
  | _ => none

def showErr : Err → String
  | .tooMany => "E:tooMany"
  | .fatal t => s!"E:f{t}"

def showState : State → String
  | .empty => "E" | .inProgress => "I" | .evaluated => "V" | .failed => "F"

def showDesign (d : Design) : String :=
  String.intercalate ":" [showList showRat d.vec, showState d.state, showList showRat d.costs,
    showList showRat d.signed, match d.marker with | some m => toString m | none => "N"]

/-- Initial vector of object `k` (first entry of its `vecs`). -/
def initVec? (specs : List DesignSpec) (k : Nat) : Option (Nat × Vec) := do
  let sp ← specs[k]?
  let v ← sp.vecs[0]?
  some (sp.prec, v)

def runCmds (env : Env) (specs : List DesignSpec) :
    List Cmd → List Design → World → List String → Option (List Design × World × List String)
  | [], pool, w, out => some (pool, w, out.reverse)
  | .batch idx :: cs, pool, w, out =>
    match evalIdx env idx pool w with
    | none => none
    | some (r, pool', w') =>
      runCmds env specs cs pool' w' ((match r with | none => "ok" | some e => showErr e) :: out)
  | .scalar k :: cs, pool, w, out =>
    if k ≠ pool.length then none else
    match initVec? specs k with
    | none => none
    | some (p, x) =>
      match evalScalar env p x pool w with
      | (.error e, pool', w') => runCmds env specs cs pool' w' (showErr e :: out)
      | (.ok (some r), pool', w') => runCmds env specs cs pool' w' (("ok=" ++ showRat r) :: out)
      | (.ok none, _, _) => none
  | .create ks :: cs, pool, w, out =>
    if ks ≠ (List.range ks.length).map (· + pool.length) then none else
    match allSome (ks.map (fun k => (initVec? specs k).map (fun pv => fresh k pv.1 pv.2))) with
    | none => none
    | some ds => runCmds env specs cs (pool ++ ds) w out
  | .sweepC ks :: cs, pool, w, out =>
    if ks ≠ (List.range ks.length).map (· + pool.length) then none else
    match allSome (ks.map (initVec? specs)) with
    | none => none
    | some pvs =>
      -- one precision per sweep (fresh individuals all carry the default); taken from the first
      let p := (pvs.head?.map (·.1)).getD 7
      if pvs.any (fun pv => pv.1 ≠ p) then none else
      match sweep env p (pvs.map (·.2)) pool w with
      | (r, pool', w') =>
        runCmds env specs cs pool' w' ((match r with | none => "ok" | some e => showErr e) :: out)

/-- Did the run stay inside the supplied tables? -/
def consulted (table : List (Vec × List Rat × List Rat)) (specs : List DesignSpec)
    (pool : List Design) (w : World) : Bool :=
  w.log.all (fun e => (lookup table e.2).isSome) &&
  pool.all (fun d =>
    match specs[d.key]? with
    | none => false
    | some sp =>
      decide (d.ncalls ≤ sp.script.length) &&
      -- one vector per consumed transient outcome, plus the initial one
      decide (((sp.script.take d.ncalls).filter (fun o => match o with | .transient _ => true | _ => false)).length + 1
        ≤ sp.vecs.length))

def handle (op : String) (arg : String) : Option String :=
  if op ≠ "c05.run" ∧ op ≠ "c06.run" then none else
  match arg.splitOn "|" with
  | [sg, tb, ds, pg] => do
    let signs ← parseList? parseRat? sg
    let table ← allSome ((splitNE tb "#").map parseEntry?)
    let specs ← allSome ((splitNE ds "#").map parseSpec?)
    let cmds ← allSome ((splitNE pg "#").map parseCmd?)
    let env := mkEnv signs table specs
    let (pool, w, out) ← runCmds env specs cmds [] { log := [], failed := [] } []
    if !(consulted table specs pool w) then none else
    some (String.intercalate "|" [
      String.intercalate "#" out,
      String.intercalate "#" (w.log.map (fun e => s!"{e.1}:{showList showRat e.2}")),
      showMat showRat w.failed,
      String.intercalate "#" (pool.map showDesign)])
  | _ => none

end Artap.Eval
