import ArtapModel.Model.Proto
/-!
# Model of `Individual.__eq__` / `__hash__` (artap/individual.py) and their consumers

Regime R2: vectors are exact rationals (the exact value of every double the harness
generates); the tolerance is the real number `1e-10`.

```python
def __eq__(self, other):
    diff = 1
    for i in range(len(self.vector)):
        diff = abs(self.vector[i] - other.vector[i])
        if not diff < 1e-10:
            return False
    return diff < 1e-10
def __hash__(self):
    return hash(tuple(self.vector))
```

Consumers modelled: `x in list`, `set(list)`, `list.remove(x)` (also `Archive.remove`),
and the duplicate rejection of `GeneticAlgorithm.generate` (artap/algorithm_genetic.py).
`none` / `indexError` is the `IndexError` Python raises when `other.vector` is shorter
than `self.vector`; nothing is defaulted.
-/
namespace Artap.Equality

abbrev Vec := List Rat

/-- `1e-10`. -/
def tol : Rat := 1 / 10000000000

/-- `abs` on rationals (core Lean only). -/
def absR (x : Rat) : Rat := if x < 0 then -x else x

/-- The loop of `__eq__`; the third argument is the running `diff`. -/
def eqLoop : Vec → Vec → Rat → Option Bool
  | [], _, diff => some (decide (diff < tol))
  | _ :: _, [], _ => none
  | a :: as, b :: bs, _ =>
    if absR (a - b) < tol then eqLoop as bs (absR (a - b)) else some false

/-- `Individual(v) == Individual(w)` (`diff = 1` before the loop, so two empty vectors are unequal). -/
def indEq (v w : Vec) : Option Bool := eqLoop v w 1

/-- `hash(tuple(vector))`, abstracted to the key it is a function of: two keys are equal
iff the vectors are numerically identical (`1 == 1.0`, `0.0 == -0.0` hash alike in Python). -/
def hashKey (v : Vec) : Vec := v

/-- `any(f(e) for e in l)` with short circuit; an exception before the first hit propagates. -/
def anyEq (f : Vec → Option Bool) : List Vec → Option Bool
  | [] => some false
  | e :: es =>
    match f e with
    | none => none
    | some true => some true
    | some false => anyEq f es

/-- `x in l` for a list of individuals: `any(e == x for e in l)` (the element is the left operand). -/
def memInd (l : List Vec) (x : Vec) : Option Bool := anyEq (fun e => indEq e x) l

/-- One insertion into a Python `set`: the newcomer is dropped iff an entry with the same
hash **and** `entry == newcomer` is present.  Equal keys mean identical vectors, so the
comparison can never raise. -/
def setInsert (s : List Vec) (x : Vec) : List Vec :=
  if s.any (fun e => hashKey e == hashKey x && indEq e x == some true) then s else s ++ [x]

/-- `set(l)` as the list of representatives in insertion order (Python's iteration order
is unspecified; the harness compares multisets). -/
def dedup (l : List Vec) : List Vec := l.foldl setInsert []

inductive RemoveResult where
  | removed (rest : List Vec)
  | valueError
  | indexError
  deriving Repr, BEq, DecidableEq

/-- `l.remove(x)`: deletes the first `e` with `e == x`, `ValueError` when there is none. -/
def removeFirst (x : Vec) : List Vec → RemoveResult
  | [] => .valueError
  | e :: es =>
    match indEq e x with
    | none => .indexError
    | some true => .removed es
    | some false =>
      match removeFirst x es with
      | .removed r => .removed (e :: r)
      | .valueError => .valueError
      | .indexError => .indexError

/-- `if any(child1 == o for o in offsprings) and len(offsprings) < N: pass / else: append(child1)`. -/
def addChild1 (N : Nat) (offs : List Vec) (c1 : Vec) : Option (List Vec) :=
  match anyEq (indEq c1) offs with
  | none => none
  | some s1 => some (if s1 && decide (offs.length < N) then offs else offs ++ [c1])

/-- `if any(child2 == o …) and len < N: pass / elif len < N: append(child2)`. -/
def addChild2 (N : Nat) (offs : List Vec) (c2 : Vec) : Option (List Vec) :=
  match anyEq (indEq c2) offs with
  | none => none
  | some s2 =>
    some (if s2 && decide (offs.length < N) then offs
          else if offs.length < N then offs ++ [c2] else offs)

/-- One pass through the body of the `while` loop of `GeneticAlgorithm.generate` after the
children have been produced (`N = max_population_size`). -/
def genStep (N : Nat) (offs : List Vec) (c1 c2 : Vec) : Option (List Vec) :=
  -- "always create new individual"
  match addChild1 N (if offs.length == 0 then offs ++ [c1] else offs) c1 with
  | none => none
  | some offs1 => addChild2 N offs1 c2

/-- The `while len(offsprings) < N` loop over a finite stream of child pairs; returns the
offspring list and the number of pairs consumed (the loop may stop because the stream is
exhausted – the harness always supplies enough pairs). -/
def generate (N : Nat) : List (Vec × Vec) → List Vec → Nat → Option (List Vec × Nat)
  | [], offs, k => some (offs, k)
  | (c1, c2) :: rest, offs, k =>
    if offs.length < N then
      match genStep N offs c1 c2 with
      | none => none
      | some offs' => generate N rest offs' (k + 1)
    else some (offs, k)

/-! ## line protocol -/
open Artap.Proto

def showOB : Option Bool → String
  | none => "raise"
  | some b => showBool b

def pairUp : List Vec → Option (List (Vec × Vec))
  | [] => some []
  | [_] => none
  | a :: b :: r => (pairUp r).map ((a, b) :: ·)

/-- `c20.eq v|w`, `c20.hash v|w`, `c20.mem x|l`, `c20.dedup l`, `c20.remove x|l`,
`c20.generate N|c1;c2;c1';c2';…` (rationals). -/
def handle (op : String) (arg : String) : Option String :=
  match op, arg.splitOn "|" with
  | "c20.eq", [v, w] => do
    let v ← parseList? parseRat? v
    let w ← parseList? parseRat? w
    some (showOB (indEq v w))
  | "c20.hash", [v, w] => do
    let v ← parseList? parseRat? v
    let w ← parseList? parseRat? w
    some (showBool (hashKey v == hashKey w))
  | "c20.mem", [x, l] => do
    let x ← parseList? parseRat? x
    let l ← parseMat? parseRat? l
    some (showOB (memInd l x))
  | "c20.dedup", [l] => do
    let l ← parseMat? parseRat? l
    some ("ok " ++ showMat showRat (dedup l))
  | "c20.remove", [x, l] => do
    let x ← parseList? parseRat? x
    let l ← parseMat? parseRat? l
    some (match removeFirst x l with
      | .removed r => "ok " ++ showMat showRat r
      | .valueError => "ValueError"
      | .indexError => "raise")
  | "c20.generate", [n, cs] => do
    let n ← parseNat? n
    let cs ← parseMat? parseRat? cs
    let ps ← pairUp cs
    some (match generate n ps [] 0 with
      | none => "raise"
      | some (offs, k) => s!"ok {k}|" ++ showMat showRat offs)
  | _, _ => none

end Artap.Equality
