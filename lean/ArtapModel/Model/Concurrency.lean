import ArtapModel.Model.Proto
/-!
# Model of `Evaluator.evaluate_parallel` (joblib threading backend) at action granularity

Every design of the batch is one *task* running the same program – the action list of
`Job.evaluate` – on its own record.  An action reads and writes only the record of its own
design, may write that design's row in the store (row key = the design's id, ids are distinct,
so rows are indexed by task) and may invoke the objective (appends the task to the call log).
A *schedule* is any list of task ids: `t` occurring at position `i` means "the worker that
holds design `t` executes its next action now".  Nothing else is shared.

That the real code has this footprint is exactly what the correspondence check (forced
schedules on real threads, harness/c07.py) tests; the theorems in `Props/C07.lean` say that under
this footprint every schedule gives the serial result.
-/
namespace Artap.Conc

structure Action (L B : Type) where
  /-- effect on the design's own record -/
  upd : L → L
  /-- row written to the store under the design's own id (computed from the updated record) -/
  write : L → Option B
  /-- does this action invoke the user's objective (decided on the record before the update)? -/
  call : L → Bool

structure Sys (L B : Type) where
  locals : List L
  store : List (Option B)
  calls : List Nat
  pc : List Nat

variable {L B : Type}

/-- A store write: `none` leaves the table alone, `some b` replaces the row of design `t`. -/
def setRow (st : List (Option B)) (t : Nat) : Option B → List (Option B)
  | some b => st.set t (some b)
  | none => st

/-- Task `t` executes its next action (no-op when `t` is not a task or has finished). -/
def step (prog : List (Action L B)) (s : Sys L B) (t : Nat) : Sys L B :=
  match s.locals[t]?, s.pc[t]? with
  | some l, some k =>
    match prog[k]? with
    | none => s
    | some a =>
      let l' := a.upd l
      { locals := s.locals.set t l'
        store := setRow s.store t (a.write l')
        calls := if a.call l then s.calls ++ [t] else s.calls
        pc := s.pc.set t (k + 1) }
  | _, _ => s

def run (prog : List (Action L B)) (σ : List Nat) (s : Sys L B) : Sys L B := σ.foldl (step prog) s

def init (ls : List L) : Sys L B :=
  { locals := ls, store := ls.map (fun _ => none), calls := [], pc := ls.map (fun _ => 0) }

/-- The serial schedule: all actions of design 0, then all of design 1, … -/
def serialSchedule (n len : Nat) : List Nat := (List.range n).flatMap (fun t => List.replicate len t)

/-! ## The concrete program: `Job.evaluate` on the success path -/

inductive St | empty | inProgress | evaluated | failed
deriving DecidableEq, Repr

structure Design where
  vec : List Rat
  state : St
  costs : List Rat
  signed : List Rat
  marker : Bool          -- `not features["feasible"]` as appended to costs_signed
  feasible : Option Bool -- `features["feasible"]` when constraints exist
  skip : Bool := false   -- `Job.evaluate` returned at once (design was already evaluated)
deriving DecidableEq, Repr

structure Row where
  vec : List Rat
  costs : List Rat
  signed : List Rat
  marker : Bool
  state : St
deriving DecidableEq, Repr

/-- Parameters of a problem as far as `Job.evaluate` is concerned. -/
structure Prob where
  obj : List Rat → List Rat
  cons : List Rat → List Rat
  signs : List Rat
  /-- `np.round(·, precision)` supplied by the harness as a table (glue) -/
  rnd : Rat → Rat

def zipMul : List Rat → List Rat → List Rat
  | a :: as, b :: bs => (a * b) :: zipMul as bs
  | _, _ => []

/-- The action list of `Job.evaluate` for one design (success path): return at once if it is
already evaluated (`skip`); otherwise mark in progress; evaluate constraints; call the
objective and store its costs; sign the costs and append the marker; mark evaluated and
synchronise to the store. -/
def jobProg (P : Prob) : List (Action Design Row) :=
  [ { upd := fun d => if d.state == St.evaluated then { d with skip := true }
                      else { d with skip := false, state := St.inProgress },
      write := fun _ => none, call := fun _ => false },
    { upd := fun d => if d.skip then d else
        let c := P.cons d.vec
        if c.isEmpty then d else { d with feasible := some (c.all (fun v => v < 0)) },
      write := fun _ => none, call := fun _ => false },
    { upd := fun d => if d.skip then d else { d with costs := P.obj d.vec },
      write := fun _ => none, call := fun d => !d.skip },
    { upd := fun d => if d.skip then d else
        let m := match d.feasible with
          | some f => !f
          | none => true       -- `not 0.0` for the default feature value
        { d with signed := zipMul P.signs (d.costs.map P.rnd), marker := m },
      write := fun _ => none, call := fun _ => false },
    { upd := fun d => if d.skip then d else { d with state := St.evaluated },
      write := fun d => if d.skip then none else
        some { vec := d.vec, costs := d.costs, signed := d.signed, marker := d.marker, state := d.state },
      call := fun _ => false } ]

/-! ## protocol -/
open Artap.Proto

def lookup (tbl : List (List Rat × List Rat)) (v : List Rat) : List Rat :=
  match tbl.find? (fun p => p.1 == v) with
  | some p => p.2
  | none => []

def lookup1 (tbl : List (Rat × Rat)) (x : Rat) : Rat :=
  match tbl.find? (fun p => p.1 == x) with
  | some p => p.2
  | none => x

def showSt : St → String
  | .empty => "0" | .inProgress => "1" | .evaluated => "2" | .failed => "3"

def showDesign (d : Design) : String :=
  if d.skip then "skip" else
  s!"{showSt d.state},{showBool d.marker};{showList showRat d.costs};{showList showRat d.signed}"

def showRow : Option Row → String
  | none => "-"
  | some r => s!"{showList showRat r.vec};{showList showRat r.costs};{showList showRat r.signed};{showBool r.marker};{showSt r.state}"

/-- `c07.run V|S|O|C|G|RO|σ` : vectors; states (0 empty, 2 evaluated); objective output per design;
constraint values per design (`-` = no constraints); signs; rounded objective output per design;
schedule.  Answer: designs `|`-separated `#` store rows `#` call count per design. -/
def handle (op : String) (arg : String) : Option String :=
  match op, arg.splitOn "|" with
  | "c07.run", [v, st, o, c, g, ro, sched] => do
    let vs ← parseMat? parseRat? v
    let sts ← parseList? parseNat? st
    let os ← parseMat? parseRat? o
    let cs ← if tok c == "-" then some (vs.map fun _ => []) else parseMat? parseRat? c
    let gs ← parseList? parseRat? g
    let ros ← parseMat? parseRat? ro
    let σ ← parseList? parseNat? sched
    if vs.length ≠ sts.length ∨ vs.length ≠ os.length ∨ vs.length ≠ cs.length ∨ vs.length ≠ ros.length then none else
    let P : Prob := { obj := lookup (vs.zip os), cons := lookup (vs.zip cs), signs := gs,
                      rnd := lookup1 ((os.zip ros).flatMap (fun p => p.1.zip p.2)) }
    let ds : List Design := (vs.zip sts).map fun (vec, k) =>
      { vec := vec, state := if k == 2 then St.evaluated else St.empty, costs := [], signed := [],
        marker := false, feasible := none }
    let r := run (jobProg P) σ (init ds)
    let calls := (List.range ds.length).map (fun t => r.calls.count t)
    some (String.intercalate "|" (r.locals.map showDesign) ++ "#" ++
          String.intercalate "|" (r.store.map showRow) ++ "#" ++ showList toString calls ++
          "#" ++ showList toString r.pc)
  | _, _ => none

end Artap.Conc
