import ArtapModel.Model.Swarm
import ArtapModel.Model.Archive
import ArtapModel.Model.Variation
import ArtapModel.Model.Eval
import ArtapModel.Model.Selection
import ArtapModel.Model.Nsga2
/-!
# Executable model of the OMOPSO and SMPSO generation loops (artap/algorithm_swarm.py),
composed from the models of their parts

One iteration of `while it < max_population_number` is `swarmStep`:

* `selector.select(individuals)` (`CopySelector`): `copyParticle` – a new design object with
  the same vector, no costs, state EMPTY, and a deep copy of the features (velocity, personal
  best, crowding distance, front number, `feasible`, `precision`);
* `update_velocity`: `velocityPhase`.  Per particle the chosen leader (`select_leader()`: named by
  its signed costs, which are pairwise different inside the leader archive), the rounded factors
  `r1 r2 c1 c2`, the value of `khi(c1, c2)` (a square root) and the inertia weights (one
  `uniform` draw per coordinate) are oracle inputs; every component goes through
  `Swarm.speedConstriction`;
* `update_position`: `positionPhase`, coordinate by coordinate `Swarm.updatePosition` with the
  factor of the algorithm (`-1` OMOPSO, `1/1000` SMPSO), `zip(parameters, range(len(vector)))`;
* `turbulence`: `turbulencePhase`, `Variation.mutate` (the control flow shared by the uniform,
  non-uniform and polynomial mutators: a coordinate is either copied or overwritten by a *clipped*
  value) on every particle (OMOPSO) / on the particles `i % 6 == 0` (SMPSO); which coordinates are
  hit and the values handed to `clip` are the oracle;
* `evaluate`: `Eval.evalSerial` (objective, fault pattern, re-rolled vectors = `Eval.Env`); an
  exception that leaves the evaluator ends the run (`none`);
* `update_particle_best`: `Swarm.pbestReplaced` / `Swarm.updatePBest` on (signed costs, marker);
* `update_global_best`: OMOPSO – `fast_nondominated_sorting` (`Nsga2.sortCrowd`: front numbers and
  the crowding distance inside every front), the members of front 1 are offered to the leader
  archive, truncation to `N` by crowding distance, then `archive += swarm` (the ε archive of the
  algorithm); SMPSO – `crowding_distance(swarm)` on the whole swarm, **which sorts the list in
  place** (`Artap.crowding` returns the members in the order the code leaves them in), every
  particle is offered.  The leader archive is `Swarm.generation` = `Archive.addAll` + `Archive.truncate`.
* tagging and recording: `population_id = it + 1`, appended to `problem.individuals` in the
  order the list has after `update_global_best`.  (The model writes the tag when the copy is
  made; the code writes it at the end of the iteration on the same objects, which are by then
  also referenced from the leader archive.)

`swarmRun` = initial swarm (tag `0`: evaluation, `init_pbest`, `update_global_best`) followed by
`G` steps.  Every phase result of every generation is kept in `history` (a ghost output: the
run-level theorems of `Props/C18.lean` and the step-by-step replay of `harness/c18.py` both speak
about it).  `none` always stands for something the real run does not survive (an exception) or
for an oracle that does not fit the run (too few draws, a leader that is not in the archive).
-/
namespace Artap.SwarmRun
open Artap Artap.Eval Artap.Proto
open Artap.Variation (Param MutDraw)

inductive Alg
  | omopso | smpso
  deriving DecidableEq, Repr

/-- velocity factor of `update_position` at a violated bound -/
def Alg.factor : Alg → Rat
  | .omopso => -1
  | .smpso => 1 / 1000

/-- `turbulence`: is particle number `i` of the list mutated? (OMOPSO: `i % 3 == 0` uniform,
otherwise non-uniform mutation – every particle; SMPSO: `i % 6 == 0`.) -/
def Alg.mutates : Alg → Nat → Bool
  | .omopso, _ => true
  | .smpso, i => i % 6 == 0

/-- A particle: the design object of the evaluator model (position = `d.vec`, costs, signed costs,
marker) and the features the swarm algorithms keep on it. -/
structure Particle where
  d : Design
  vel : List Rat                     -- `features['velocity']`
  bestVec : Vec                      -- `features['best_vector']`
  best : Option (List Rat × Int)     -- `features['best_cost']` = a `costs_signed` list; `none`: `None` / `[]`
  crowd : Option Rat                 -- `features['crowding_distance']`, `none` = inf
  front : Nat                        -- `features['front_number']` (OMOPSO)
  tag : Nat                          -- `population_id`
  deriving Repr

structure Cfg where
  alg : Alg
  env : Env
  prec : Nat                 -- `features["precision"]` of a fresh individual
  N : Nat                    -- `max_population_size`
  params : List Param        -- the box
  eps : List Rat             -- ε of the leader archive (`Archive()`: `[0.1, 0.1]`)
  epsA : List Rat            -- ε of OMOPSO's `self.archive` (`options['epsilons']`)

/-! ## select -/

/-- `CopySelector.select`: `individual.copy()` + `deepcopy(individual.features)`. -/
def copyParticle (key tag : Nat) (p : Particle) : Particle :=
  { p with
    d := { key := key, vec := p.d.vec, state := .empty, costs := [], signed := [], marker := none,
           feasible := p.d.feasible, prec := p.d.prec, ncalls := 0 },
    tag := tag }

def copiesFrom (start tag : Nat) : List Particle → List Particle
  | [] => []
  | p :: ps => copyParticle start tag p :: copiesFrom (start + 1) tag ps

/-! ## generic list plumbing -/

/-- `for a, b in zip(as, bs)` where running out of `bs` is an error and `f` may raise. -/
def zipMapOpt {α β γ} (f : α → β → Option γ) : List α → List β → Option (List γ)
  | [], _ => some []
  | _ :: _, [] => none
  | a :: as, b :: bs =>
    match f a b, zipMapOpt f as bs with
    | some c, some cs => some (c :: cs)
    | _, _ => none

/-- `for a in as` where `f` may raise. -/
def mapOpt {α β} (f : α → Option β) : List α → Option (List β)
  | [] => some []
  | a :: as =>
    match f a, mapOpt f as with
    | some c, some cs => some (c :: cs)
    | _, _ => none

/-! ## update_velocity -/

/-- What is drawn / looked up for one particle of `update_velocity`. -/
structure VelDraw where
  leader : List Rat × Int   -- `self.select_leader().costs_signed`: names the member of the leader archive
  r1 : Rat
  r2 : Rat
  c1 : Rat
  c2 : Rat
  khi : Rat             -- `self.khi(c1, c2)`
  w : List Rat          -- `self.inertia_weight()`, one draw per coordinate

/-- `for i in range(len(individual.vector))`: arguments are the parameters, the position, the
personal best vector, the leader's vector and the inertia draws.  A parameter list, best vector or
leader vector shorter than the position is Python's `IndexError`. -/
def velCoords (d : VelDraw) : List Param → List Rat → List Rat → List Rat → List Rat → Option (List Rat)
  | _, [], _, _, _ => some []
  | p :: ps, x :: xs, b :: bs, g :: gs, w :: ws =>
    match velCoords d ps xs bs gs ws with
    | some r =>
      some (Swarm.speedConstriction (d.khi * (w * x + d.c1 * d.r1 * (b - x) + d.c2 * d.r2 * (g - x))) p.ub p.lb :: r)
    | none => none
  | _, _ :: _, _, _, _ => none

def velOne (cfg : Cfg) (leaders : List Particle) (p : Particle) (d : VelDraw) : Option Particle :=
  match leaders.find? (fun l => decide (l.d.signed = d.leader.1 ∧ l.d.marker = some d.leader.2)) with
  | none => none
  | some g =>
    match velCoords d cfg.params p.d.vec p.bestVec g.d.vec d.w with
    | some v => some { p with vel := v }
    | none => none

def velocityPhase (cfg : Cfg) (leaders : List Particle) (ps : List Particle) (ds : List VelDraw) :
    Option (List Particle) :=
  zipMapOpt (velOne cfg leaders) ps ds

/-! ## update_position -/

/-- `for parameter, i in zip(self.parameters, range(len(individual.vector)))`: new position and
velocity.  `zip` stops at the shorter list (the rest of the position stays); a velocity list that is
too short is `IndexError`. -/
def posCoords (f : Rat) : List Param → List Rat → List Rat → Option (List Rat × List Rat)
  | p :: ps, x :: xs, v :: vs =>
    match posCoords f ps xs vs with
    | some r => some ((Swarm.updatePosition f x v p.lb p.ub).1 :: r.1, (Swarm.updatePosition f x v p.lb p.ub).2 :: r.2)
    | none => none
  | _ :: _, _ :: _, [] => none
  | _, xs, vs => some (xs, vs)

def posOne (cfg : Cfg) (p : Particle) : Option Particle :=
  match posCoords cfg.alg.factor cfg.params p.d.vec p.vel with
  | some r => some { p with d := { p.d with vec := r.1 }, vel := r.2 }
  | none => none

def positionPhase (cfg : Cfg) (ps : List Particle) : Option (List Particle) := mapOpt (posOne cfg) ps

/-! ## turbulence -/

def turbOne (cfg : Cfg) (i : Nat) (p : Particle) (dr : List MutDraw) : Option Particle :=
  if cfg.alg.mutates i then
    match Variation.mutate cfg.params p.d.vec dr with
    | some v => some { p with d := { p.d with vec := v } }
    | none => none
  else some p

/-- `for i in range(len(particles))`, one list of draws per particle (ignored when the particle
is not mutated). -/
def turbFrom (cfg : Cfg) : Nat → List Particle → List (List MutDraw) → Option (List Particle)
  | _, [], _ => some []
  | _, _ :: _, [] => none
  | i, p :: ps, dr :: drs =>
    match turbOne cfg i p dr, turbFrom cfg (i + 1) ps drs with
    | some q, some qs => some (q :: qs)
    | _, _ => none

def turbulencePhase (cfg : Cfg) (ps : List Particle) (drs : List (List MutDraw)) : Option (List Particle) :=
  turbFrom cfg 0 ps drs

/-! ## evaluate -/

def setDesign (p : Particle) (d : Design) : Particle := { p with d := d }

/-- `self.evaluate(offsprings)`; `none` = an exception leaves the evaluator. -/
def evalPhase (cfg : Cfg) (ps : List Particle) (w : World) : Option (List Particle × World) :=
  match (evalSerial cfg.env (ps.map (·.d)) w).1 with
  | some _ => none
  | none =>
    some (List.zipWith setDesign ps (evalSerial cfg.env (ps.map (·.d)) w).2.1,
          (evalSerial cfg.env (ps.map (·.d)) w).2.2)

/-! ## update_particle_best / init_pbest -/

/-- `flag = dominance.compare(particle.costs_signed, best_cost); if flag != 2: replace`.
`none`: the comparator raises on an empty `costs_signed` / a `best_cost` that is `None`. -/
def pbestOne (p : Particle) : Option Particle :=
  match p.d.marker, p.best with
  | some m, some b =>
    some { p with best := some (Swarm.updatePBest (p.d.signed, m) b),
                  bestVec := if Swarm.pbestReplaced (p.d.signed, m) b then p.d.vec else p.bestVec }
  | _, _ => none

def pbestPhase (ps : List Particle) : Option (List Particle) := mapOpt pbestOne ps

/-- `init_pbest`: `best_cost = costs_signed`, `best_vector = vector`. -/
def initPbest (p : Particle) : Particle :=
  { p with best := p.d.marker.map (fun m => (p.d.signed, m)), bestVec := p.d.vec }

/-! ## update_global_best -/

/-- comparator of an `Archive` of particles (`none` = it raises on an unevaluated member) -/
def leaderCmp (eps : List Rat) (a b : Particle) : Option Nat :=
  match a.d.marker, b.d.marker with
  | some ma, some mb => epsCompare eps a.d.signed b.d.signed ma mb
  | _, _ => none

/-- `individual.costs_signed == current_solution.costs_signed` -/
def sameP (a b : Particle) : Bool := decide (a.d.signed = b.d.signed ∧ a.d.marker = b.d.marker)

/-- `leaders += offered; leaders.truncate(N, 'crowding_distance')`.  The crowding distances that
occur are embedded into `Int` in their order (`Nsga2.encCrowd`; inf above all). -/
def leadersUpdate (cfg : Cfg) (leaders offered : List Particle) : Option (List Particle) :=
  match Swarm.generation (leaderCmp cfg.eps) sameP
      (fun p => Nsga2.encCrowd ((leaders ++ offered).map (·.crowd)) p.crowd) cfg.N leaders offered with
  | some r => some r.2.2
  | none => none

structure GlobalBest where
  marked : List Particle      -- the swarm in the order it came in, crowding distance / front number set
  ordered : List Particle     -- the same particles in the order `update_global_best` leaves the list in
  leaders : List Particle
  archive : List Particle

def setCrowd (p : Particle) (fc : Nat × Option Rat) : Particle := { p with front := fc.1, crowd := fc.2 }

def globalBest (cfg : Cfg) (swarm leaders archive : List Particle) : Option GlobalBest :=
  match cfg.alg with
  | .omopso =>
    -- self.selector.fast_nondominated_sorting(swarm)
    match Nsga2.sortCrowd (swarm.map (·.d)) with
    | none => none
    | some fc =>
      let marked := List.zipWith setCrowd swarm fc
      -- for particle in swarm: if front_number == 1: pareto.append; for item in pareto: leaders.append(item)
      match leadersUpdate cfg leaders (marked.filter (fun p => p.front == 1)) with
      | none => none
      | some l =>
        -- self.archive += swarm
        match Archive.addAll (leaderCmp cfg.epsA) sameP archive marked with
        | none => none
        | some a => some { marked := marked, ordered := marked, leaders := l, archive := a.1 }
  | .smpso =>
    -- crowding_distance(swarm): sorts `swarm` in place once per objective
    match crowding (swarm.map (·.d.signed)) with
    | none => none
    | some ents =>
      match mapOpt (fun e => (swarm[e.idx]?).map (fun p => { p with crowd := e.acc })) ents,
            mapOpt (fun (pi : Particle × Nat) =>
              (ents.find? (fun e => e.idx == pi.2)).map (fun e => { pi.1 with crowd := e.acc })) swarm.zipIdx with
      | some ordered, some marked =>
        -- self.leaders += swarm
        match leadersUpdate cfg leaders ordered with
        | none => none
        | some l => some { marked := marked, ordered := ordered, leaders := l, archive := archive }
      | _, _ => none

/-! ## one generation -/

/-- The oracles of one iteration. -/
structure StepOracle where
  vel : List VelDraw
  turb : List (List MutDraw)

/-- Every phase result of one generation (for generation `0`: `velAfter = posAfter = []`,
`handed` = the fresh particles, `pbest` = after `init_pbest`). -/
structure GenRecord where
  tag : Nat
  velAfter : List Particle      -- after `update_velocity`
  posAfter : List Particle      -- after `update_position`
  handed : List Particle        -- after `turbulence`: what the evaluator receives
  evaluated : List Particle     -- after `evaluate`
  pbest : List Particle         -- after `update_particle_best`
  swarm : List Particle         -- after `update_global_best`, in the order the list is left in
  leaders : List Particle       -- the leader archive after `update_global_best`

structure RunState where
  swarm : List Particle         -- `individuals`
  leaders : List Particle       -- `self.leaders._contents`
  archive : List Particle       -- `self.archive._contents` (OMOPSO)
  nextKey : Nat                 -- design objects created so far
  world : World
  recorded : List Particle      -- `problem.individuals`
  history : List GenRecord

/-- One iteration `it` of `while it < max_population_number`. -/
def swarmStep (cfg : Cfg) (it : Nat) (o : StepOracle) (s : RunState) : Option RunState :=
  -- offsprings = self.selector.select(individuals)
  let offs := copiesFrom s.nextKey (it + 1) s.swarm
  -- self.update_velocity(offsprings)
  match velocityPhase cfg s.leaders offs o.vel with
  | none => none
  | some vel =>
    -- self.update_position(offsprings)
    match positionPhase cfg vel with
    | none => none
    | some pos =>
      -- self.turbulence(offsprings, it)
      match turbulencePhase cfg pos o.turb with
      | none => none
      | some turb =>
        -- self.evaluate(offsprings)
        match evalPhase cfg turb s.world with
        | none => none
        | some ev =>
          -- self.update_particle_best(offsprings)
          match pbestPhase ev.1 with
          | none => none
          | some pb =>
            -- self.update_global_best(offsprings)
            match globalBest cfg pb s.leaders s.archive with
            | none => none
            | some gb =>
              -- individuals = offsprings; population_id = it + 1; problem.individuals.append(individual)
              some { swarm := gb.ordered, leaders := gb.leaders, archive := gb.archive,
                     nextKey := s.nextKey + s.swarm.length, world := ev.2,
                     recorded := s.recorded ++ gb.ordered,
                     history := s.history ++ [{ tag := it + 1, velAfter := vel, posAfter := pos, handed := turb,
                                                evaluated := ev.1, pbest := pb, swarm := gb.ordered,
                                                leaders := gb.leaders }] }

/-- `IndividualSwarm(vector)` / `Individual(vector)` + `init_pvelocity`, tag `0`. -/
def freshParticle (key prec : Nat) (v : Vec) : Particle :=
  { d := fresh key prec v, vel := List.replicate v.length 0, bestVec := [], best := none,
    crowd := some 0, front := 0, tag := 0 }

def freshParticles (start prec : Nat) : List Vec → List Particle
  | [] => []
  | v :: vs => freshParticle start prec v :: freshParticles (start + 1) prec vs

/-- Initial swarm: recording with tag `0`, evaluation, `init_pbest`, `update_global_best`.  The
designs are recorded (appended to `problem.individuals`) in the generator's order. -/
def swarmInit (cfg : Cfg) (init : List Vec) : Option RunState :=
  let ps := freshParticles 0 cfg.prec init
  match evalPhase cfg ps { log := [], failed := [] } with
  | none => none
  | some ev =>
    let pb := ev.1.map initPbest
    match globalBest cfg pb [] [] with
    | none => none
    | some gb =>
      some { swarm := gb.ordered, leaders := gb.leaders, archive := gb.archive, nextKey := init.length,
             world := ev.2, recorded := gb.marked,
             history := [{ tag := 0, velAfter := [], posAfter := [], handed := ps, evaluated := ev.1, pbest := pb,
                           swarm := gb.ordered, leaders := gb.leaders }] }

/-- The `while` loop; one oracle per iteration (`none` when they run out). -/
def swarmLoop (cfg : Cfg) : List Nat → List StepOracle → RunState → Option RunState
  | [], _, s => some s
  | _ :: _, [], _ => none
  | it :: its, o :: os, s =>
    match swarmStep cfg it o s with
    | none => none
    | some s' => swarmLoop cfg its os s'

structure RunResult where
  recorded : List Particle
  evals : Nat                   -- successful objective evaluations
  world : World
  swarm : List Particle
  leaders : List Particle
  archive : List Particle
  history : List GenRecord

/-- `run()` with `max_population_number = G`. -/
def swarmRun (cfg : Cfg) (G : Nat) (init : List Vec) (steps : List StepOracle) : Option RunResult :=
  match swarmInit cfg init with
  | none => none
  | some s0 =>
    match swarmLoop cfg (List.range G) steps s0 with
    | none => none
    | some s => some { recorded := s.recorded, evals := Nsga2.okCalls s.world, world := s.world, swarm := s.swarm,
                       leaders := s.leaders, archive := s.archive, history := s.history }

/-- `OMOPSO.run()` -/
def omopsoRun (cfg : Cfg) (G : Nat) (init : List Vec) (steps : List StepOracle) : Option RunResult :=
  swarmRun { cfg with alg := .omopso } G init steps

/-- `SMPSO.run()` -/
def smpsoRun (cfg : Cfg) (G : Nat) (init : List Vec) (steps : List StepOracle) : Option RunResult :=
  swarmRun { cfg with alg := .smpso } G init steps

/-! ## PSOGA: the particle-swarm half of an iteration

`PSOGA.run` moves copies of the swarm with its own `update_velocity` and with `update_position`
(velocity reversed at a violated bound), evaluates them, and then appends two children made by
tournament selection, SBX and polynomial mutation (modelled by `Model/Selection.lean` and
`Model/Variation.lean`; the swarm grows by two per generation and the children share their
feature dictionaries with the selected particles – not part of this model). -/

/-- PSOGA's `update_velocity`: `v = khi(c1, c2)·xᵢ + c1·r1·(bestᵢ − xᵢ) + c2·r2·(leaderᵢ − xᵢ)`,
then `speed_constriction` (no inertia draw; `d.w` is not used). -/
def velCoordsGA (d : VelDraw) : List Param → List Rat → List Rat → List Rat → Option (List Rat)
  | _, [], _, _ => some []
  | p :: ps, x :: xs, b :: bs, g :: gs =>
    match velCoordsGA d ps xs bs gs with
    | some r =>
      some (Swarm.speedConstriction (d.khi * x + d.c1 * d.r1 * (b - x) + d.c2 * d.r2 * (g - x)) p.ub p.lb :: r)
    | none => none
  | _, _ :: _, _, _ => none

def velOneGA (params : List Param) (leaders : List Particle) (p : Particle) (d : VelDraw) : Option Particle :=
  match leaders.find? (fun l => decide (l.d.signed = d.leader.1 ∧ l.d.marker = some d.leader.2)) with
  | none => none
  | some g =>
    match velCoordsGA d params p.d.vec p.bestVec g.d.vec with
    | some v => some { p with vel := v }
    | none => none

def posOneGA (params : List Param) (p : Particle) : Option Particle :=
  match posCoords (-1) params p.d.vec p.vel with
  | some r => some { p with d := { p.d with vec := r.1 }, vel := r.2 }
  | none => none

/-- `update_velocity(offsprings); update_position(offsprings)` of PSOGA: the swarm after each. -/
def psogaFlight (params : List Param) (leaders ps : List Particle) (ds : List VelDraw) :
    Option (List Particle × List Particle) :=
  match zipMapOpt (velOneGA params leaders) ps ds with
  | none => none
  | some vel =>
    match mapOpt (posOneGA params) vel with
    | none => none
    | some pos => some (vel, pos)

end Artap.SwarmRun

/-! ## Line protocol

Common fields: `ALG` (`OMOPSO`/`SMPSO`), `N`, `eps` / `epsA` (ε lists of the leader archive and of
OMOPSO's archive), `box` (`lb,ub,tol;…`), `signs`, `table` (entries `vec:costs:cons` joined by `#`:
the pure part of the objective, costs as the run stored them), `specs` (per design object, in
creation order, `prec:script:vecs` as in `c05.run`).

* `c18.step ALG|N|it|eps|epsA|box|signs|table|specs|swarm|leaders|veldraws|mutdraws`
  one iteration replayed from the recorded swarm and leader archive.  Particles are
  `vec:vel:signed:marker:feas:bestvec:bestsigned:bestmarker:crowd:front` joined by `#`
  (marker `N` = none, feas `d`/`n`/`y`, crowd `inf` or a rational); `veldraws` entries
  `leader signed costs:leader marker:r1,r2,c1,c2,khi:w,w,…` joined by `#`; `mutdraws` per particle `hit,a;hit,a;…` (or `-`)
  joined by `#`.  Answer `ok` followed by the phases, separated by `|`:
  velocities, positions after `update_position`, velocities after it, positions after `turbulence`,
  evaluated `vec:signed:marker` (`#`), personal bests `bestvec:bestsigned:bestmarker` (`#`),
  the final order (positions of the evaluated list), crowding distances and front numbers in that order,
  leaders `signed:marker:crowd` (`#`), successful calls, calls; or `raise <phase>`, or `uncovered`
  followed by the first four fields (the model evaluates a position the run never evaluated).
* `c18.psoga box|swarm|leaders|veldraws` → `ok velocities|positions|velocities after update_position`
  or `raise` (PSOGA's `update_velocity` + `update_position` on the given copies).
* `c18.run ALG|N|G|eps|epsA|box|signs|table|specs|init|step@step@…`, `step = veldraws!mutdraws`.
  Answer `ok evals|calls|tag:vec;…|leaders of generation 0~generation 1~…|archive` (leaders and
  archive as `signed:marker` joined by `#`) or `raise` / `uncovered`.

The objective of these handlers looks a vector up in `table` exactly, and otherwise within the
comparison band of the harness (1e-9 relative + 1e-12 absolute per coordinate; the closest such entry): the model computes
positions in exact arithmetic, the recorded run in doubles.  A vector that matches no entry makes
the answer `uncovered`, and so does an evaluated design without costs (a successful call whose
vector matches no entry with costs), so no junk value of the table oracle can reach an answer.
-/
namespace Artap.SwarmRun
open Artap Artap.Eval Artap.Proto
open Artap.Variation (Param MutDraw)

def nearR (a b : Rat) : Bool :=
  let m := if Nsga2.absR a < Nsga2.absR b then Nsga2.absR b else Nsga2.absR a
  decide (Nsga2.absR (a - b) ≤ 1 / 1000000000000 + m / 1000000000)

def nearVec : Vec → Vec → Bool
  | [], [] => true
  | a :: as, b :: bs => nearR a b && nearVec as bs
  | _, _ => false

/-- `Σ |aᵢ − bᵢ|` -/
def dist1 : Vec → Vec → Rat
  | a :: as, b :: bs => Nsga2.absR (a - b) + dist1 as bs
  | _, _ => 0

/-- the entry closest to `v` among those given (first one wins ties) -/
def closest (v : Vec) : List (Vec × List Rat × List Rat) → Option (Vec × List Rat × List Rat)
  | [] => none
  | e :: es =>
    match closest v es with
    | none => some e
    | some f => if dist1 f.1 v < dist1 e.1 v then some f else some e

def lookupNear (table : List (Vec × List Rat × List Rat)) (v : Vec) : Option (List Rat × List Rat) :=
  match table.find? (fun e => e.1 == v) with
  | some e => some e.2
  | none => (closest v (table.filter (fun e => nearVec e.1 v))).map (·.2)

/-- `Eval.mkEnv` with the tolerant lookup; costs are stored as the run stored them (`rnd` = identity).
A successful call takes its costs from the entries that have costs (a vector that was only ever the
argument of a failed call has none). -/
def mkEnvNear (signs : List Rat) (table : List (Vec × List Rat × List Rat)) (specs : List DesignSpec) : Env where
  obj := fun key n v =>
    match specs[key]? with
    | none => .fatal 0
    | some sp =>
      match sp.script[n]? with
      | some (.ok _) => .ok ((lookupNear (table.filter (fun e => !e.2.1.isEmpty)) v).map (·.1) |>.getD [])
      | some o => o
      | none => .fatal 0
  reroll := fun key n => (specs[key]?.bind (fun sp => sp.vecs[n + 1]?)).getD []
  cons := fun v => ((lookupNear table v).map (·.2)).getD []
  signs := signs
  rnd := fun _ y => y

def tableCoversNear (table : List (Vec × List Rat × List Rat)) (w : World) : Bool :=
  w.log.all (fun e => (lookupNear table e.2).isSome)

def parseAlg? (s : String) : Option Alg :=
  match tok s with
  | "OMOPSO" => some .omopso
  | "SMPSO" => some .smpso
  | _ => none

def parseCrowd? (s : String) : Option (Option Rat) :=
  if tok s == "inf" then some none else (parseRat? s).map some

def parseMarker? (s : String) : Option (Option Int) :=
  if tok s == "N" then some none else (parseInt? s).map some

def parseFeas? (s : String) : Option Feas :=
  match tok s with
  | "d" => some .dflt
  | "n" => some .no
  | "y" => some .yes
  | _ => none

/-- `vec:vel:signed:marker:feas:bestvec:bestsigned:bestmarker:crowd:front` -/
def parseParticle? (prec key : Nat) (s : String) : Option Particle :=
  match s.splitOn ":" with
  | [v, ve, sg, m, fe, bv, bs, bm, cr, fr] => do
    let v ← parseList? parseRat? v
    let ve ← parseList? parseRat? ve
    let sg ← parseList? parseRat? sg
    let m ← parseMarker? m
    let fe ← parseFeas? fe
    let bv ← parseList? parseRat? bv
    let bs ← parseList? parseRat? bs
    let bm ← parseMarker? bm
    let cr ← parseCrowd? cr
    let fr ← parseNat? fr
    some { d := { key := key, vec := v, state := if m.isSome then .evaluated else .empty, costs := sg, signed := sg,
                  marker := m, feasible := fe, prec := prec, ncalls := if m.isSome then 1 else 0 },
           vel := ve, bestVec := bv, best := bm.map (fun x => (bs, x)), crowd := cr, front := fr, tag := 0 }
  | _ => none

def parseParticles? (prec : Nat) : Nat → List String → Option (List Particle)
  | _, [] => some []
  | k, s :: r =>
    match parseParticle? prec k s, parseParticles? prec (k + 1) r with
    | some a, some b => some (a :: b)
    | _, _ => none

def parseVelDraw? (s : String) : Option VelDraw :=
  match s.splitOn ":" with
  | [g, m, f, w] => do
    let g ← parseList? parseRat? g
    let m ← parseInt? m
    let w ← parseList? parseRat? w
    match ← parseList? parseRat? f with
    | [r1, r2, c1, c2, khi] => some { leader := (g, m), r1 := r1, r2 := r2, c1 := c1, c2 := c2, khi := khi, w := w }
    | _ => none
  | _ => none

def parseMutDraws? (s : String) : Option (List MutDraw) :=
  if tok s == "-" then some [] else do
    let rows ← parseMat? parseRat? s
    allSome (rows.map (fun r => match r with
      | [h, a] => some { hit := decide (h ≠ 0), a := a }
      | _ => none))

def parseOracle? (vd md : String) : Option StepOracle := do
  let vel ← allSome ((splitNE vd "#").map parseVelDraw?)
  let tb ← allSome ((splitNE md "#").map parseMutDraws?)
  some { vel := vel, turb := tb }

def parseStepOracle? (s : String) : Option StepOracle :=
  match s.splitOn "!" with
  | [vd, md] => parseOracle? vd md
  | _ => none

def showCrowd : Option Rat → String
  | none => "inf"
  | some v => showRat v

def showMarker : Option Int → String
  | none => "N"
  | some m => toString m

def showLeaders (ls : List Particle) : String :=
  String.intercalate "#" (ls.map (fun p => s!"{showList showRat p.d.signed}:{showMarker p.d.marker}:{showCrowd p.crowd}"))

def showBest (p : Particle) : String :=
  match p.best with
  | some b => s!"{showList showRat p.bestVec}:{showList showRat b.1}:{b.2}"
  | none => s!"{showList showRat p.bestVec}::N"

/-- position of the particle with design key `k` in a list -/
def keyPos (ps : List Particle) (k : Nat) : Nat := ps.findIdx (fun p => p.d.key == k)

def handle (op : String) (arg : String) : Option String :=
  match op, arg.splitOn "|" with
  | "c18.step", [al, n, it, e, ea, bx, sg, tb, sp, sw, ld, vd, md] => do
    let alg ← parseAlg? al
    let n ← parseNat? n
    let it ← parseNat? it
    let eps ← parseList? parseRat? e
    let epsA ← parseList? parseRat? ea
    let box ← Variation.parseParams? bx
    let signs ← parseList? parseRat? sg
    let table ← allSome ((splitNE tb "#").map parseEntry?)
    let specs ← allSome ((splitNE sp "#").map parseSpec?)
    let env := mkEnvNear signs table specs
    let cfg : Cfg := { alg := alg, env := env, prec := 7, N := n, params := box, eps := eps, epsA := epsA }
    let swarm ← parseParticles? 7 specs.length (splitNE sw "#")
    let leaders ← parseParticles? 7 (specs.length + swarm.length) (splitNE ld "#")
    let o ← parseOracle? vd md
    let s0 : RunState := { swarm := swarm, leaders := leaders, archive := [], nextKey := 0,
                           world := { log := [], failed := [] }, recorded := [], history := [] }
    -- the phases are recomputed one by one to name the one that raises (same functions as `swarmStep`)
    let offs := copiesFrom 0 (it + 1) swarm
    match velocityPhase cfg leaders offs o.vel with
    | none => some "raise update_velocity"
    | some vel =>
      match positionPhase cfg vel with
      | none => some "raise update_position"
      | some pos =>
        match turbulencePhase cfg pos o.turb with
        | none => some "raise turbulence"
        | some turb =>
          let res := evalSerial env (turb.map (·.d)) s0.world
          if !(tableCoversNear table res.2.2) || res.2.1.any (fun d => d.state == .evaluated && d.costs.isEmpty) then
            some (String.intercalate "|" ["uncovered " ++ showMat showRat (vel.map (·.vel)),
              showMat showRat (pos.map (·.d.vec)), showMat showRat (pos.map (·.vel)),
              showMat showRat (turb.map (·.d.vec))]) else
          match evalPhase cfg turb s0.world with
          | none => some "raise evaluate"
          | some ev =>
            match pbestPhase ev.1 with
            | none => some "raise update_particle_best"
            | some _ =>
              match swarmStep cfg it o s0 with
              | none => some "raise update_global_best"
              | some s1 =>
                match s1.history.getLast? with
                | none => none
                | some h =>
                  some (String.intercalate "|" [
                    "ok " ++ showMat showRat (h.velAfter.map (·.vel)),
                    showMat showRat (h.posAfter.map (·.d.vec)),
                    showMat showRat (h.posAfter.map (·.vel)),
                    showMat showRat (h.handed.map (·.d.vec)),
                    String.intercalate "#" (h.evaluated.map (fun p =>
                      s!"{showList showRat p.d.vec}:{showList showRat p.d.signed}:{showMarker p.d.marker}")),
                    String.intercalate "#" (h.pbest.map showBest),
                    showList toString (h.swarm.map (fun p => keyPos h.evaluated p.d.key)),
                    showList showCrowd (h.swarm.map (·.crowd)),
                    showList toString (h.swarm.map (·.front)),
                    showLeaders h.leaders,
                    toString (Nsga2.okCalls s1.world), toString s1.world.log.length])
  | "c18.psoga", [bx, sw, ld, vd] => do
    let box ← Variation.parseParams? bx
    let swarm ← parseParticles? 7 0 (splitNE sw "#")
    let leaders ← parseParticles? 7 swarm.length (splitNE ld "#")
    let vel ← allSome ((splitNE vd "#").map parseVelDraw?)
    match psogaFlight box leaders swarm vel with
    | none => some "raise"
    | some r =>
      some (String.intercalate "|" ["ok " ++ showMat showRat (r.1.map (·.vel)),
        showMat showRat (r.2.map (·.d.vec)), showMat showRat (r.2.map (·.vel))])
  | "c18.run", [al, n, g, e, ea, bx, sg, tb, sp, ini, st] => do
    let alg ← parseAlg? al
    let n ← parseNat? n
    let g ← parseNat? g
    let eps ← parseList? parseRat? e
    let epsA ← parseList? parseRat? ea
    let box ← Variation.parseParams? bx
    let signs ← parseList? parseRat? sg
    let table ← allSome ((splitNE tb "#").map parseEntry?)
    let specs ← allSome ((splitNE sp "#").map parseSpec?)
    let env := mkEnvNear signs table specs
    let cfg : Cfg := { alg := alg, env := env, prec := 7, N := n, params := box, eps := eps, epsA := epsA }
    let ini ← parseMat? parseRat? ini
    let steps ← allSome ((splitNE st "@").map parseStepOracle?)
    match swarmRun cfg g ini steps with
    | none => some "raise"
    | some r =>
      if !(tableCoversNear table r.world) || r.recorded.any (fun p => p.d.costs.isEmpty) then some "uncovered" else
      some (String.intercalate "|" ["ok " ++ toString r.evals, toString r.world.log.length,
        String.intercalate ";" (r.recorded.map (fun p => s!"{p.tag}:{showList showRat p.d.vec}")),
        String.intercalate "~" (r.history.map (fun h => showLeaders h.leaders)),
        showLeaders r.archive])
  | _, _ => none

end Artap.SwarmRun
