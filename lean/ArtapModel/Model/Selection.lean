import ArtapModel.Model.Dominance
/-!
# Model of `crowding_distance`, `nondominated_truncate`/`nondominated_cmp` and
`TournamentSelector.select` (artap/operators.py)

* Crowding distance (regime R2, exact rationals; `none` = `math.inf`).  The code sorts the
  front list *in place* once per objective with a stable sort, so the order left by one
  objective is the input order of the next: the model carries the entries through successive
  `List.mergeSort`s.  Each entry keeps its original position `idx` and its full cost vector.
* Truncation (regime R1, only comparisons): `list(set(population))` keeps one representative
  of every class of equal designs in an unspecified order; the model receives that list as an
  oracle (indices into the population), checks that it *is* such a list and then mirrors the
  stable sort with `nondominated_cmp` and the slice.
* Tournament (regime R1): the two sampled positions and the coin of `random.choice` are inputs.

Front numbers are inputs (`Nat`), as are crowding distances for the truncation (φ-encoded,
`math.inf` above every finite value).
-/
namespace Artap

/-! ## Crowding distance -/

/-- One individual of the front while `crowding_distance` runs. -/
structure CEnt where
  idx : Nat                 -- position in the list handed to `crowding_distance`
  costs : List Rat          -- `costs_signed[:-1]`, never changed
  rest : List Rat           -- objectives not processed yet (`costs.drop dim`)
  acc : Option Rat          -- `features['crowding_distance']`, `none` = inf
deriving Repr, DecidableEq

/-- `inf + x = inf`. -/
def addOpt : Option Rat → Rat → Option Rat
  | none, _ => none
  | some a, x => some (a + x)

/-- The key function of `front.sort(key=lambda x: x.costs_signed[dim])` evaluated on every
member (`none` = `IndexError`: a cost vector shorter than that of `front[0]`). -/
def crowdPeel : List CEnt → Option (List (Rat × CEnt))
  | [] => some []
  | e :: l =>
    match e.rest, crowdPeel l with
    | k :: r, some t => some ((k, { e with rest := r }) :: t)
    | _, _ => none

/-- `for i in range(1, n - 1)` followed by `front[-1] = inf`: `prev` is the key of
`front[i-1]`, the list starts at `front[i]`; `mx` is `max_distance`. -/
def interior (mx : Rat) : Rat → List (Rat × CEnt) → List CEnt
  | prev, (k, e) :: (k2, e2) :: tl =>
    { e with acc := if 0 < mx then addOpt e.acc ((k2 - prev) / mx) else e.acc }
      :: interior mx k ((k2, e2) :: tl)
  | _, [(_, e)] => [{ e with acc := none }]
  | _, [] => []

/-- Body of the `for dim` loop after the sort: both ends inf, interior members accumulate. -/
def sweep (s : List (Rat × CEnt)) : List CEnt :=
  match s, s.getLast? with
  | (k0, e0) :: tl, some (kl, _) => { e0 with acc := none } :: interior (kl - k0) k0 tl
  | _, _ => []

def keyLe (a b : Rat × CEnt) : Bool := decide (a.1 ≤ b.1)

/-- `for dim in range(m)`. -/
def crowdLoop : Nat → List CEnt → Option (List CEnt)
  | 0, l => some l
  | m + 1, l =>
    match crowdPeel l with
    | none => none
    | some p => crowdLoop m (sweep (p.mergeSort keyLe))

def initEnts (front : List (List Rat)) (acc : Option Rat) : List CEnt :=
  front.zipIdx.map fun (c, i) => { idx := i, costs := c, rest := c, acc := acc }

/-- `crowding_distance(front)`: the members in the order the code leaves them in, each with
its original position and its distance.  `none` = the code raises `IndexError`. -/
def crowding (front : List (List Rat)) : Option (List CEnt) :=
  if front.length ≤ 2 then some (initEnts front none)
  else match front with
    | [] => some []
    | f0 :: _ => crowdLoop f0.length (initEnts front (some 0))

/-- Distance of the member that was at position `i` (protocol output). -/
def crowdAt (r : List CEnt) (i : Nat) : Option (Option Rat) :=
  (r.find? (fun e => e.idx == i)).map (·.acc)

/-! ### Specification predicates for fronts with tied values (evaluated by the driver on the
implementation's output, and the conclusions of `crowd_range` / `crowd_extremes`) -/

/-- Finite distances are `≥ 0` and `≤ m`. -/
def rangeOk (m : Nat) (d : Option Rat) : Bool :=
  match d with
  | none => true
  | some v => decide (0 ≤ v) && decide (v ≤ (m : Rat))

/-- Some member with distance inf holds a value `≤` (resp. `≥`) every other in column `d`. -/
def extremeOk (rows : List (List Rat × Option Rat)) (d : Nat) : Bool :=
  rows.any (fun r => r.2.isNone && rows.all (fun s =>
    match r.1[d]?, s.1[d]? with
    | some v, some w => decide (v ≤ w)
    | _, _ => false)) &&
  rows.any (fun r => r.2.isNone && rows.all (fun s =>
    match r.1[d]?, s.1[d]? with
    | some v, some w => decide (w ≤ v)
    | _, _ => false))

/-! ## Truncation -/

/-- What `nondominated_cmp` reads of an individual, plus the class of its design
(equal numbers ⇔ equal `vector`s, i.e. equal under `__eq__`/`__hash__`). -/
structure Ind where
  design : Nat
  front : Nat
  crowd : Int               -- φ-encoded crowding distance, inf ↦ above all finite values
deriving Repr, DecidableEq

/-- `nondominated_cmp(p, q)` (smaller front first, then larger crowding distance). -/
def cmpND (p q : Ind) : Int :=
  if p.front = q.front then
    if -p.crowd < -q.crowd then -1
    else if -q.crowd < -p.crowd then 1
    else 0
  else
    if p.front < q.front then -1
    else if q.front < p.front then 1
    else 0

/-- The order `sorted(..., key=cmp_to_key(nondominated_cmp))` sorts by: the sort only asks
`K(b) < K(a)`, i.e. `cmp(b, a) < 0`; `a` stays in front of `b` unless that holds. -/
def ndLe (a b : Nat × Ind) : Bool := !decide (cmpND b.2 a.2 < 0)

/-- Look the oracle's indices up in the population (`none` = index out of range). -/
def pick (pop : List Ind) : List Nat → Option (List (Nat × Ind))
  | [] => some []
  | j :: o =>
    match pop[j]?, pick pop o with
    | some x, some t => some ((j, x) :: t)
    | _, _ => none

def nodupB : List Nat → Bool
  | [] => true
  | a :: l => !l.contains a && nodupB l

/-- `picked` is a possible value of `list(set(pop))`: one representative of every design,
no design twice. -/
def isDedup (pop : List Ind) (picked : List (Nat × Ind)) : Bool :=
  nodupB (picked.map (·.2.design)) &&
  pop.all (fun x => picked.any (fun p => p.2.design == x.design))

/-- `nondominated_truncate(pop, k)` when `list(set(pop))` is `oracle` (indices into `pop`);
returns the survivors' indices in result order.  `none` = `oracle` is not a de-duplication of
the population. -/
def truncate (pop : List Ind) (k : Nat) (oracle : List Nat) : Option (List Nat) :=
  match pick pop oracle with
  | none => none
  | some picked =>
    if isDedup pop picked then some (((picked.mergeSort ndLe).take k).map (·.1)) else none

/-- One copy of every value. -/
def dedupNat : List Nat → List Nat
  | [] => []
  | a :: l => if l.contains a then dedupNat l else a :: dedupNat l

/-- Number of distinct designs of a population. -/
def distinctDesigns (pop : List Ind) : Nat := (dedupNat (pop.map (·.design))).length

/-! ## Binary tournament -/

/-- What `TournamentSelector.select` reads of a candidate. -/
structure Cand where
  front : Nat
  costs : List Int          -- φ-encoded `costs_signed[:-1]`
  marker : Int              -- φ-encoded `costs_signed[-1]`
deriving Repr, DecidableEq

/-- The comparison of the two sampled candidates; `coin = true` ⇔ `random.choice` returns
`candidates[0]`. -/
def tournament (a b : Cand) (coin : Bool) : Cand :=
  if a.front < b.front then a
  else if b.front < a.front then b
  else match paretoCompare a.costs b.costs a.marker b.marker with
    | 1 => a
    | 2 => b
    | _ => if coin then a else b

/-- `TournamentSelector.select(pop)` when `random.sample` draws positions `i ≠ j`.
`none` = the code raises (`random.sample` on an empty population). -/
def select (pop : List Cand) (i j : Nat) (coin : Bool) : Option Cand :=
  match pop with
  | [x] => some x
  | _ =>
    if i = j then none else
    match pop[i]?, pop[j]? with
    | some a, some b => some (tournament a b coin)
    | _, _ => none

end Artap

namespace Artap.Selection
open Artap Artap.Proto

def showDist : Option Rat → String
  | none => "inf"
  | some v => showRat v

def parseDist? (s : String) : Option (Option Rat) :=
  if tok s == "inf" then some none else (parseRat? s).map some

/-- `n|row;row;…`: the member count is sent separately because `n` members without objectives
are written as an empty matrix. -/
def parseFront? (n f : String) : Option (List (List Rat)) := do
  let n ← parseNat? n
  let f ← parseMat? parseRat? f
  let f := if f.isEmpty then List.replicate n [] else f
  if f.length = n then some f else none

/-- protocol
* `c03.crowd n|row;row;…` (rationals) → distances by original position (`inf` or `n/d`), or `raise`
* `c03.crowdspec n|row;…|d0,d1,…` → `1`/`0`: the tie clauses (range, an infinite holder of every
  objective's minimum and maximum) hold of the given distances
* `c03.trunc designs|fronts|crowds|k|oracle` → survivor indices, or `bad-oracle`
* `c03.select fronts|costs;costs;…|markers|i,j,coin` → index-free description of the winner:
  `0` = first sampled candidate, `1` = second, for a one-member population `only`; `raise`
-/
def handle (op : String) (arg : String) : Option String :=
  match op, arg.splitOn "|" with
  | "c03.crowd", [n, f] => do
    let f ← parseFront? n f
    match crowding f with
    | none => some "raise"
    | some r =>
      let ds ← allSome ((List.range f.length).map (crowdAt r))
      some (showList showDist ds)
  | "c03.crowdspec", [n, f, ds] => do
    let f ← parseFront? n f
    let ds ← parseList? parseDist? ds
    if f.length ≠ ds.length then none else
    match f with
    | [] => some "1"
    | f0 :: _ =>
      let m := f0.length
      let rows := f.zip ds
      if f.length ≤ 2 then some (showBool (ds.all (·.isNone)))
      else some (showBool (ds.all (rangeOk m) && (List.range m).all (extremeOk rows)))
  | "c03.trunc", [ds, fs, cs, k, o] => do
    let ds ← parseList? parseNat? ds
    let fs ← parseList? parseNat? fs
    let cs ← parseList? parseInt? cs
    let k ← parseNat? k
    let o ← parseList? parseNat? o
    if ds.length ≠ fs.length ∨ ds.length ≠ cs.length then none else
    let pop := (ds.zip (fs.zip cs)).map fun (d, f, c) => ({ design := d, front := f, crowd := c } : Ind)
    match truncate pop k o with
    | none => some "bad-oracle"
    | some r => some ("ok " ++ showList toString r)
  | "c03.select", [fs, cs, ms, ij] => do
    let fs ← parseList? parseNat? fs
    let cs ← parseMat? parseInt? cs
    let ms ← parseList? parseInt? ms
    if fs.length ≠ cs.length ∨ fs.length ≠ ms.length then none else
    let pop := (fs.zip (cs.zip ms)).map fun (f, c, m) => ({ front := f, costs := c, marker := m } : Cand)
    match ← parseList? parseNat? ij with
    | [i, j, coin] =>
      match select pop i j (coin == 1) with
      | none => some "raise"
      | some w =>
        if pop.length == 1 then some "only"
        else match pop[i]?, pop[j]? with
          | some a, some b =>
            -- which of the two candidates (they may be equal as values: then both names fit)
            some ((if w == a then "0" else "") ++ (if w == b then "1" else ""))
          | _, _ => none
    | _ => none
  | _, _ => none

end Artap.Selection
