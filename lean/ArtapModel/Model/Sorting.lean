import ArtapModel.Model.Dominance
/-!
# Model of `Selector.fast_nondominated_sorting` (artap/operators.py)

The code keeps three per-individual features: `domination_counter`, `dominate` (ids of the
individuals it dominates) and `front_number`.  The model keeps them in three lists indexed
by position in the population (`Individual.__init__` hands out distinct ids, so "look the
individual up by id, first match" is "take the position"; populations containing the same
object twice or colliding ids are outside the property).

* `phase1` – the reset loop and the two nested `for` loops (`i < j` comparisons, then the
  test `domination_counter == 0` directly after `p`'s own inner loop);
* `level`  – one pass of the body of the `while` loop (`for p in front: for id in p.dominate`);
* `peel`   – the `while` loop.  Python's loop has no bound; the model has fuel and answers
  `none` when it runs out, so that termination is a theorem (`peel_fuel`) and not a default.

Counters are `Int` as in Python (that they never become negative is a lemma).
All indices that reach `getD`/`set` come from `List.range n` or from `dominate` entries,
which are such indices (`Proofs/Sorting.lean`: `Phase1Spec.mem`, `Inv2.td`); the defaults are never used.
-/
namespace Artap

structure SortState where
  counter : List Int
  dominate : List (List Nat)
  front : List (Option Nat)

/-- `x.features['domination_counter'] += d` for the individual at position `i`. -/
def bump (l : List Int) (i : Nat) (d : Int) : List Int := l.set i (l.getD i 0 + d)

/-- `p.features['dominate'].append(x)` for the individual at position `i`. -/
def push (l : List (List Nat)) (i x : Nat) : List (List Nat) := l.set i (l.getD i [] ++ [x])

/-- The reset loop. -/
def SortState.init (n : Nat) : SortState :=
  { counter := List.replicate n 0, dominate := List.replicate n [], front := List.replicate n none }

/-- Body of the inner loop of phase 1 for the pair `(i, j)`, `i < j`. -/
def cmpStep (cmp : Nat → Nat → Nat) (i : Nat) (s : SortState) (j : Nat) : SortState :=
  match cmp i j with
  | 1 => { s with dominate := push s.dominate i j, counter := bump s.counter j 1 }
  | 2 => { s with counter := bump s.counter i 1, dominate := push s.dominate j i }
  | _ => s

/-- Body of the outer loop of phase 1: inner loop over `j = i+1 … n-1`, then "selects the
pareto values".  The second component is `pareto_front[0]`. -/
def outerStep (cmp : Nat → Nat → Nat) (n : Nat) (acc : SortState × List Nat) (i : Nat) :
    SortState × List Nat :=
  let s := (List.range' (i + 1) (n - (i + 1))).foldl (cmpStep cmp i) acc.1
  if s.counter.getD i 0 == 0 then
    ({ s with front := s.front.set i (some 1) }, acc.2 ++ [i])
  else (s, acc.2)

def phase1 (cmp : Nat → Nat → Nat) (n : Nat) : SortState × List Nat :=
  (List.range n).foldl (outerStep cmp n) (SortState.init n, [])

/-- Body of `for individual_id in p.features['dominate']` with `front_number = k`:
decrement, and when the counter reaches `0` and `q` is still unranked, rank it `k` and
append it to the next front (second component). -/
def decStep (k : Nat) (acc : SortState × List Nat) (q : Nat) : SortState × List Nat :=
  let s : SortState := { acc.1 with counter := bump acc.1.counter q (-1) }
  if s.counter.getD q 0 == 0 && (s.front.getD q none).isNone then
    ({ s with front := s.front.set q (some k) }, acc.2 ++ [q])
  else (s, acc.2)

/-- Body of `for p in pareto_front[front_number - 2]`. -/
def procStep (k : Nat) (acc : SortState × List Nat) (p : Nat) : SortState × List Nat :=
  (acc.1.dominate.getD p []).foldl (decStep k) acc

/-- One iteration of the `while` loop: the front `cur` assigns front number `k`. -/
def level (s : SortState) (cur : List Nat) (k : Nat) : SortState × List Nat :=
  cur.foldl (procStep k) (s, [])

/-- The `while len(pareto_front[front_number - 1]) > 0` loop; `k` is `front_number`.
`none` = fuel exhausted (never happens from `fndsCmp`, theorem `peel_fuel`). -/
def peel : Nat → SortState → List Nat → Nat → Option SortState
  | fuel, s, cur, k =>
    if cur.isEmpty then some s else
    match fuel with
    | 0 => none
    | fuel + 1 => peel fuel (level s cur (k + 1)).1 (level s cur (k + 1)).2 (k + 1)

/-- Sorting of `n` individuals whose pairwise verdicts are given by `cmp`. -/
def fndsCmp (n : Nat) (cmp : Nat → Nat → Nat) : Option (List (Option Nat)) :=
  (peel (n + 1) (phase1 cmp n).1 (phase1 cmp n).2 1).map (·.front)

/-- `self.comparator.compare(individuals[i].costs_signed, individuals[j].costs_signed)`;
a population member is `(costs, marker)`. -/
def popCmp {α} [LT α] [DecidableLT α] (pop : List (List α × Int)) (i j : Nat) : Nat :=
  match pop[i]?, pop[j]? with
  | some a, some b => paretoCompare a.1 b.1 a.2 b.2
  | _, _ => 0

/-- Front numbers after `fast_nondominated_sorting(pop)`, by position; `none` only if the
fuel of `peel` ran out (excluded by `peel_fuel`). -/
def fnds? {α} [LT α] [DecidableLT α] (pop : List (List α × Int)) : Option (List (Option Nat)) :=
  fndsCmp pop.length (popCmp pop)

/-- Front numbers by position (`none` entry = `front_number is None`).  If the fuel ran
out the answer is `[]`, which falsifies `fnds_rank` for every non-empty population, so no
statement about `fnds` can hold because of this default. -/
def fnds {α} [LT α] [DecidableLT α] (pop : List (List α × Int)) : List (Option Nat) :=
  match fnds? pop with
  | some l => l
  | none => []

/-- Front number of the individual at position `q` (`none` = unranked or no such position). -/
def rankOf {α} [LT α] [DecidableLT α] (pop : List (List α × Int)) (q : Nat) : Option Nat :=
  (fnds pop)[q]?.join

/-! ## The property as a decidable check on arbitrary front numbers

`isTrueRank pop f` decides the property's recurrence for the assignment `f` (used by the
driver on the *implementation's* numbers; `Proofs/Sorting.lean` shows it is the `RecAt`
predicate of the theorems). -/

def recAtB (n : Nat) (cmp : Nat → Nat → Nat) (f : List (Option Nat)) (q : Nat) : Bool :=
  match f[q]?.join with
  | none => false
  | some r =>
    decide (1 ≤ r) &&
    (List.range n).all (fun p => cmp p q != 1 ||
      (match f[p]?.join with | some r' => decide (r' < r) | none => false)) &&
    (r == 1 || (List.range n).any (fun p => cmp p q == 1 && f[p]?.join == some (r - 1)))

def isTrueRank {α} [LT α] [DecidableLT α] (pop : List (List α × Int)) (f : List (Option Nat)) : Bool :=
  f.length == pop.length && (List.range pop.length).all (recAtB pop.length (popCmp pop) f)

end Artap

namespace Artap.Sorting
open Artap.Proto

def parseOptNat? (s : String) : Option (Option Nat) :=
  if tok s == "N" then some none else (parseNat? s).map some

def parsePop? (c m : String) : Option (List (List Int × Int)) := do
  let ms ← parseList? parseInt? m
  -- zero objectives: the cost matrix is sent as `-` (every row empty)
  let cs ← if tok c == "-" then some (ms.map fun _ => []) else parseMat? parseInt? c
  if cs.length ≠ ms.length then none else some (cs.zip ms)

/-- protocol: `c02.fnds costs|markers` (φ-encoded ints, `;` between individuals, `-` for zero
objectives) answers the front numbers `1,2,N,…` or `fuel`;
`c02.spec costs|markers|ranks` answers `1`/`0` (`isTrueRank`). -/
def handle (op : String) (arg : String) : Option String :=
  match op, arg.splitOn "|" with
  | "c02.fnds", [c, m] => do
    let pop ← parsePop? c m
    some (match fnds? pop with
      | some l => showList showOptNat l
      | none => "fuel")
  | "c02.spec", [c, m, r] => do
    let pop ← parsePop? c m
    let f ← parseList? parseOptNat? r
    some (showBool (isTrueRank pop f))
  | _, _ => none

end Artap.Sorting
