import ArtapModel.Model.Swarm
import ArtapModel.Model.SwarmRun
/-!
# Combined protocol handler of property C18

`Artap.Swarm.handle` (personal best, clamp, position update, leader generation) first, then
`Artap.SwarmRun.handle` (the composed OMOPSO / SMPSO run model: `c18.step`, `c18.run`).
-/
namespace Artap.SwarmAll

def handle (op : String) (arg : String) : Option String :=
  match Artap.Swarm.handle op arg with
  | some r => some r
  | none => Artap.SwarmRun.handle op arg

end Artap.SwarmAll
