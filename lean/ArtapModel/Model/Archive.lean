import ArtapModel.Model.Dominance
/-!
# Model of `Archive.add` / `Archive.truncate` (artap/archive.py)

`add` is generic in the element type `α`, in the comparator `cmp : α → α → Option Nat`
(`self._dominance.compare(individual.costs_signed, current.costs_signed)`; `none` = the
comparator raised) and in `same : α → α → Bool` (`individual.costs_signed ==
current.costs_signed`, Python list equality).  The loop is the loop of the code: it runs over
a *snapshot* of the contents with a running `index`, deletes `contents[index − deleted]` from
the live list, and stops at the first member that dominates or equals the newcomer (whatever
has been deleted before stays deleted).  `none` is an exception escaping `add` (comparator
error, or the `IndexError` a wrong deletion index would raise) – nothing is defaulted.
-/
namespace Artap.Archive

/-- The `for index, current_solution in enumerate(list(self._contents))` loop.
Arguments: rest of the snapshot, `index`, live `contents`, `number_of_deleted_solutions`.
Result: live contents, `is_dominated`, `is_contained`. -/
def addLoop {α} (cmp : α → α → Option Nat) (same : α → α → Bool) (x : α) :
    List α → Nat → List α → Nat → Option (List α × Bool × Bool)
  | [], _, cont, _ => some (cont, false, false)
  | c :: rest, i, cont, d =>
    match cmp x c with
    | none => none
    | some flag =>
      if flag == 1 then
        -- `del self._contents[index - number_of_deleted_solutions]`
        if d ≤ i ∧ i - d < cont.length then
          addLoop cmp same x rest (i + 1) (cont.eraseIdx (i - d)) (d + 1)
        else none
      else if flag == 2 then some (cont, true, false)
      else if flag == 0 then
        if same x c then some (cont, false, true)
        else addLoop cmp same x rest (i + 1) cont d
      else addLoop cmp same x rest (i + 1) cont d

/-- `Archive.add(individual)`: new contents and the returned boolean. -/
def add {α} (cmp : α → α → Option Nat) (same : α → α → Bool) (contents : List α) (x : α) :
    Option (List α × Bool) :=
  if contents.isEmpty then some (contents ++ [x], true)
  else
    match addLoop cmp same x contents 0 contents 0 with
    | none => none
    | some (cont, dominated, contained) =>
      if !dominated && !contained then some (cont ++ [x], true) else some (cont, false)

/-- A history of additions: final contents and the list of returned booleans. -/
def addAll {α} (cmp : α → α → Option Nat) (same : α → α → Bool) :
    List α → List α → Option (List α × List Bool)
  | contents, [] => some (contents, [])
  | contents, x :: xs =>
    match add cmp same contents x with
    | none => none
    | some (c', b) => (addAll cmp same c' xs).map (fun r => (r.1, b :: r.2))

/-- Same history, reporting contents and boolean after every step (what the driver prints;
`Proofs/Archive.lean: trace_addAll` ties it to `addAll`). -/
def trace {α} (cmp : α → α → Option Nat) (same : α → α → Bool) :
    List α → List α → Option (List (List α × Bool))
  | _, [] => some []
  | contents, x :: xs =>
    match add cmp same contents x with
    | none => none
    | some (c', b) => (trace cmp same c' xs).map (fun t => (c', b) :: t)

/-- `Archive.truncate(size, getter, larger_preferred)`: stable sort by the feature,
reverse when larger is preferred, slice `[:size]`. -/
def truncate {α} (feat : α → Int) (contents : List α) (size : Nat) (larger : Bool) : List α :=
  let sorted := contents.mergeSort (fun a b => decide (feat a ≤ feat b))
  (if larger then sorted.reverse else sorted).take size

/-- An archived solution: identity, signed costs without the marker, the feasibility marker
(last entry of `costs_signed`), and the feature `truncate` sorts by. -/
structure Ind (κ : Type) where
  id : Nat
  costs : List κ
  marker : Int
  feat : Int

/-- `individual.costs_signed == current_solution.costs_signed` -/
def sameCosts {κ} [DecidableEq κ] (a b : Ind κ) : Bool :=
  decide (a.costs = b.costs ∧ a.marker = b.marker)

def paretoCmp {κ} [LT κ] [DecidableLT κ] (a b : Ind κ) : Option Nat :=
  some (paretoCompare a.costs b.costs a.marker b.marker)

def epsCmp (eps : List Rat) (a b : Ind Rat) : Option Nat :=
  epsCompare eps a.costs b.costs a.marker b.marker

end Artap.Archive

namespace Artap.Archive
open Artap.Proto

def mkInds {κ} : Nat → List (List κ) → List Int → List Int → Option (List (Ind κ))
  | _, [], [], [] => some []
  | i, c :: cs, m :: ms, f :: fs => (mkInds (i + 1) cs ms fs).map (fun r => ⟨i, c, m, f⟩ :: r)
  | _, _, _, _ => none

def showIds {κ} (l : List (Ind κ)) : String := showList (fun a => toString a.id) l

def showRun {κ} (feat : Ind κ → Int) (inds : List (Ind κ)) (size : Nat) (larger : Bool) :
    Option (List (List (Ind κ) × Bool)) → String
  | none => "raise"
  | some t =>
    let final := match t.getLast? with
      | some (c, _) => c
      | none => []
    showList (fun s => showBool s.2) t ++ "|" ++
      String.intercalate ";" (t.map (fun s => showIds s.1)) ++ "|" ++
      showIds (truncate feat final size larger) ++ "|" ++ toString inds.length

/-- protocol (ids are positions in the history):
`c04.pareto costs;costs;…|markers|feats|size,larger` (φ-encoded ints) and
`c04.eps eps|costs;…|markers|feats|size,larger` (exact rationals, int markers and feats);
answer `flags|ids after step 1;ids after step 2;…|ids after truncate|n` or `raise`. -/
def handle (op : String) (arg : String) : Option String :=
  match op, arg.splitOn "|" with
  | "c04.pareto", [cs, ms, fs, sl] => do
    let cs ← parseMat? parseInt? cs
    let ms ← parseList? parseInt? ms
    let fs ← parseList? parseInt? fs
    let inds ← mkInds 0 cs ms fs
    match ← parseList? parseNat? sl with
    | [size, larger] =>
      some (showRun Ind.feat inds size (larger != 0) (trace paretoCmp sameCosts [] inds))
    | _ => none
  | "c04.eps", [e, cs, ms, fs, sl] => do
    let e ← parseList? parseRat? e
    let cs ← parseMat? parseRat? cs
    let ms ← parseList? parseInt? ms
    let fs ← parseList? parseInt? fs
    let inds ← mkInds 0 cs ms fs
    match ← parseList? parseNat? sl with
    | [size, larger] =>
      some (showRun Ind.feat inds size (larger != 0) (trace (epsCmp e) sameCosts [] inds))
    | _ => none
  | _, _ => none

end Artap.Archive
