import ArtapModel.Model.Num
import ArtapModel.Model.Proto
/-!
# C16 — multi-objective benchmarks of `artap/benchmark_pareto.py`

Regime R3 (DESIGN.md 3.1): every formula is written **once**, over `Num α`.  `Num Float`
executes it for the correspondence check (`handle` below), `Num ℝ` is what the theorems in
`Props/C16.lean` are about.

The definitions mirror the loops of `DTLZI/II/III/IV.evaluate`, `ZDT1.evaluate` and
`BiObjectiveTestProblem.evaluate`: same index arithmetic (`x[j]` for `j < m-i-1`, then
`x[m-i-1]` if `i > 0`; the distance variables are read as `x[len(x)-i-1]`), same operation
order.  `none` = the Python code raises (`IndexError`, `ZeroDivisionError` for `len = 1` in
ZDT1) **or** the input is outside the modelled domain: a negative index `len(x)-i-1 < 0`
(Python would wrap around; only possible for fewer than 10 variables in DTLZ2–4, outside the
property's quantifier).  Two Python exceptions cannot be expressed over a carrier without a
zero test and are excluded by guards *in the theorems* instead (never by totalisation):
`ZeroDivisionError` at `x₁ = 0` in the bi-objective problem (box: `x₁ ≥ 0.1`) and
`ValueError` of `math.sqrt` for a negative argument in ZDT1 (box: `f₁/g ≥ 0`).
-/
namespace Artap.BenchMO
open Artap
open scoped Artap.NumOps

section Formulas
variable {α : Type} [Num α]

/-- the literal `0.5` -/
def half : α := Num.ofRat (1 / 2)
/-- an integer literal / `float(k)` -/
def nat (n : Nat) : α := Num.ofNat n

/-- `for j in range(0, n): acc *= c(x[j])`; `none` = `IndexError`. -/
def mulLoop (c : α → α) (x : List α) (n : Nat) (init : α) : Option α :=
  (List.range n).foldlM (fun acc j => (x[j]?).map (fun y => acc * c y)) init

/-- Body of `for i in range(0, m)` shared by DTLZ1–4:
`fi = init; for j in range(0, m-i-1): fi *= c(x[j]); if i > 0: fi *= s(x[m-i-1])`. -/
def dtlzObj (c s : α → α) (m : Nat) (x : List α) (init : α) (i : Nat) : Option α :=
  match mulLoop c x (m - i - 1) init with
  | none => none
  | some p =>
    if 0 < i then
      match x[m - i - 1]? with
      | none => none
      | some y => some (p * s y)
    else some p

/-- `for i in range(0, k): acc += h(x[len(x) - i - 1])`.  `none`: the index would be negative
(Python wraps around – outside the modelled domain). -/
def distLoop (h : α → α) (x : List α) (k : Nat) (init : α) : Option α :=
  (List.range k).foldlM (fun acc i =>
    if i + 1 ≤ x.length then (x[x.length - i - 1]?).map (fun y => acc + h y) else none) init

/-- the summand of the DTLZ1/DTLZ3 distance function (written `(y-0.5)*(y-0.5)` in DTLZ1). -/
def rastTerm1 (y : α) : α :=
  (y - half) * (y - half) - Num.cos (nat 20 * Num.pi * (y - half))
/-- … and as DTLZ3 writes it: `(y - 0.5) ** 2. - cos(20. * pi * (y - 0.5))`. -/
def rastTerm3 (y : α) : α :=
  Num.pow (y - half) (nat 2) - Num.cos (nat 20 * Num.pi * (y - half))
/-- `(y - 0.5) ** 2.` -/
def sqTerm (y : α) : α := Num.pow (y - half) (nat 2)

/-- `sum([...])` / a `+=` loop from 0, left to right. -/
def sumL (l : List α) : α := l.foldl (fun acc y => acc + y) (nat 0)

/-- DTLZ1: `k = nvar - m + 1; g = sum([... for y in x[nvar-k:]]); g = 100 * (k + g)`.
Only called with `m ≤ nvar + 1`, so `k ≥ 0` and `nvar - k = m - 1`. -/
def dtlz1G (m : Nat) (x : List α) : α :=
  let nvar := x.length
  let k := nvar + 1 - m
  let g := sumL ((x.drop (nvar - k)).map rastTerm1)
  nat 100 * (nat k + g)

/-- `DTLZI.evaluate`.  For `nvar + 1 < m` the product loop of `i = 0` raises `IndexError`. -/
def dtlz1 (m : Nat) (x : List α) : Option (List α) :=
  if x.length + 1 < m then none
  else
    let g := dtlz1G m x
    let factor := half * (nat 1 + g)
    (List.range m).mapM (dtlzObj (fun y => y) (fun y => nat 1 - y) m x factor)

/-- The number of distance variables hard-wired in DTLZ2–4 (`k = 10`). -/
def kDist : Nat := 10

/-- `DTLZII.evaluate`: `fi = 1.0; … cos(0.5*x[j]*pi) …; sin(x[m-i-1]*pi/2.)`;
`gm = 0.; gm += (x[len(x)-i-1]-0.5)**2.`; `fi *= (1. + gm)`. -/
def dtlz2 (m : Nat) (x : List α) : Option (List α) :=
  (List.range m).mapM (fun i =>
    match dtlzObj (fun y => Num.cos (half * y * Num.pi)) (fun y => Num.sin (y * Num.pi / nat 2))
        m x (nat 1) i, distLoop sqTerm x kDist (nat 0) with
    | some fi, some gm => some (fi * (nat 1 + gm))
    | _, _ => none)

/-- `DTLZIII.evaluate`: as DTLZ2 with `gm = float(k); gm += (..)**2. - cos(20.*pi*(..))`;
`fi = fi * (1 + 100. * gm)`. -/
def dtlz3 (m : Nat) (x : List α) : Option (List α) :=
  (List.range m).mapM (fun i =>
    match dtlzObj (fun y => Num.cos (half * y * Num.pi)) (fun y => Num.sin (y * Num.pi / nat 2))
        m x (nat 1) i, distLoop rastTerm3 x kDist (nat kDist) with
    | some fi, some gm => some (fi * (nat 1 + nat 100 * gm))
    | _, _ => none)

/-- `alpha = 100` -/
def alpha : Nat := 100

/-- `DTLZIV.evaluate`: as DTLZ2 with `cos(0.5 * x[j]**alpha * pi)`, `sin(x[m-i-1]**alpha * pi / 2.)`. -/
def dtlz4 (m : Nat) (x : List α) : Option (List α) :=
  (List.range m).mapM (fun i =>
    match dtlzObj (fun y => Num.cos (half * Num.pow y (nat alpha) * Num.pi))
        (fun y => Num.sin (Num.pow y (nat alpha) * Num.pi / nat 2))
        m x (nat 1) i, distLoop sqTerm x kDist (nat 0) with
    | some fi, some gm => some (fi * (nat 1 + gm))
    | _, _ => none)

/-- `ZDT1.evaluate` with `eval_g` (`g = sum(x) - x[0]; 9.0/(len(x)-1) * g + 1.0`) and `eval_h`
(`1.0 - sqrt(f/g)`); result `[x[0], h*g]`.  `[]`: `IndexError`; one variable: `ZeroDivisionError`. -/
def zdt1 (x : List α) : Option (List α) :=
  match x with
  | [] => none
  | x0 :: _ =>
    if x.length = 1 then none
    else
      let g0 := sumL x - x0
      let constant := nat 9 / nat (x.length - 1)
      let g := constant * g0 + nat 1
      let h := nat 1 - Num.sqrt (x0 / g)
      some [x0, h * g]

/-- `BiObjectiveTestProblem.evaluate`: `[x[0], (1 + x[1]) / x[0]]`. -/
def biobj (x : List α) : Option (List α) :=
  match x[0]?, x[1]? with
  | some x0, some x1 => some [x0, (nat 1 + x1) / x0]
  | _, _ => none

/-! ### The right-hand sides of the identities (specification side)

Written over `Num α` as well, so that the driver can evaluate them in `Float` on the
**implementation's** outputs; `Proofs/BenchMO.lean` proves that at `α = ℝ` they are the plain
real expressions the theorems are stated with (`g1Spec_real`, …). -/

/-- the last `k` variables `x_M` -/
def lastK (k : Nat) (x : List α) : List α := x.drop (x.length - k)

/-- DTLZ1/DTLZ3 distance function `100·(|x_M| + Σ ((y-½)² − cos(20π(y-½))))`. -/
def g1Spec (xm : List α) : α := nat 100 * (nat xm.length + sumL (xm.map rastTerm1))
/-- DTLZ2/DTLZ4 distance function `Σ (y-½)²`. -/
def g2Spec (xm : List α) : α := sumL (xm.map (fun y => (y - half) * (y - half)))
/-- `Σ f_i²` -/
def sumSq (f : List α) : α := sumL (f.map (fun y => y * y))
/-- ZDT1: `g = 1 + 9·mean(x₂..xₙ)` -/
def zdt1GSpec (x : List α) : α := nat 1 + nat 9 * (sumL x.tail / nat (x.length - 1))

/-- (lhs, rhs) of `Σ f_i = (1+g)/2` with `g` over the last `n-m+1` variables. -/
def idDtlz1 (m : Nat) (x f : List α) : α × α :=
  (sumL f, (nat 1 + g1Spec (lastK (x.length + 1 - m) x)) / nat 2)
/-- (lhs, rhs) of `‖f‖ = 1+g`, `g` = `g2Spec` (DTLZ2, DTLZ4) or `g1Spec` (DTLZ3) of the last 10 variables. -/
def idDtlzNorm (rast : Bool) (x f : List α) : α × α :=
  (Num.sqrt (sumSq f), nat 1 + (if rast then g1Spec (lastK kDist x) else g2Spec (lastK kDist x)))
/-- (lhs, rhs) of `f₂ = g·(1 − sqrt(f₁/g))`. -/
def idZdt1 (x f : List α) : Option (α × α) :=
  match f with
  | [f1, f2] => let g := zdt1GSpec x; some (f2, g * (nat 1 - Num.sqrt (f1 / g)))
  | _ => none
/-- (lhs, rhs) of `f₁·f₂ = 1 + x₂`. -/
def idBiobj (x f : List α) : Option (α × α) :=
  match x, f with
  | [_, x2], [f1, f2] => some (f1 * f2, nat 1 + x2)
  | _, _ => none

end Formulas

/-! ### Line protocol (Float interpretation) -/
open Artap.Proto

def showVec (r : Option (List Float)) : String :=
  match r with
  | some fs => showList showFloat fs
  | none => "raise"

def showPair (p : Float × Float) : String := showFloat p.1 ++ "," ++ showFloat p.2

/-- `c16.dtlz1 m|x`, `c16.dtlz2 m|x`, `c16.dtlz3 m|x`, `c16.dtlz4 m|x`, `c16.zdt1 x`, `c16.biobj x`
(doubles as 16 hex digits) answer the model's objective vector or `raise`;
`c16.id.dtlz1 m|x|f`, `c16.id.dtlz2 x|f`, `c16.id.dtlz3 x|f`, `c16.id.dtlz4 x|f`, `c16.id.zdt1 x|f`,
`c16.id.biobj x|f` answer `lhs,rhs` of the family's identity evaluated on the given objective vector. -/
def handle (op : String) (arg : String) : Option String :=
  match op, arg.splitOn "|" with
  | "c16.dtlz1", [m, x] => do
    let m ← parseNat? m; let x ← parseList? parseFloat? x
    some (showVec (dtlz1 m x))
  | "c16.dtlz2", [m, x] => do
    let m ← parseNat? m; let x ← parseList? parseFloat? x
    some (showVec (dtlz2 m x))
  | "c16.dtlz3", [m, x] => do
    let m ← parseNat? m; let x ← parseList? parseFloat? x
    some (showVec (dtlz3 m x))
  | "c16.dtlz4", [m, x] => do
    let m ← parseNat? m; let x ← parseList? parseFloat? x
    some (showVec (dtlz4 m x))
  | "c16.zdt1", [x] => do
    let x ← parseList? parseFloat? x
    some (showVec (zdt1 x))
  | "c16.biobj", [x] => do
    let x ← parseList? parseFloat? x
    some (showVec (biobj x))
  | "c16.id.dtlz1", [m, x, f] => do
    let m ← parseNat? m; let x ← parseList? parseFloat? x; let f ← parseList? parseFloat? f
    some (showPair (idDtlz1 m x f))
  | "c16.id.dtlz2", [x, f] => do
    let x ← parseList? parseFloat? x; let f ← parseList? parseFloat? f
    some (showPair (idDtlzNorm false x f))
  | "c16.id.dtlz3", [x, f] => do
    let x ← parseList? parseFloat? x; let f ← parseList? parseFloat? f
    some (showPair (idDtlzNorm true x f))
  | "c16.id.dtlz4", [x, f] => do
    let x ← parseList? parseFloat? x; let f ← parseList? parseFloat? f
    some (showPair (idDtlzNorm false x f))
  | "c16.id.zdt1", [x, f] => do
    let x ← parseList? parseFloat? x; let f ← parseList? parseFloat? f
    (idZdt1 x f).map showPair
  | "c16.id.biobj", [x, f] => do
    let x ← parseList? parseFloat? x; let f ← parseList? parseFloat? f
    (idBiobj x f).map showPair
  | _, _ => none

end Artap.BenchMO
