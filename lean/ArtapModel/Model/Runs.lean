import ArtapModel.Model.Proto
/-!
# Generation bookkeeping of the population algorithms (artap/algorithm_genetic.py,
algorithm_NSGAII.py, algorithm_swarm.py) and `Selector.pop_acceptance` (operators.py)

* `genStep` / `generate` mirror the `while` loop of `GeneticAlgorithm.generate`: children come
  from an oracle (any pair the variation operators may return), `eq` is `Individual.__eq__`.
* `popAccept` mirrors `pop_acceptance`; the two `random.choice` draws are inputs.
* `nsga2Log` / `steadyLog` are the recording / evaluation counters of the run loops.
-/
namespace Artap.Runs

variable {D : Type}

/-- One pass through the body of the `while` loop with children `c1`, `c2`. -/
def genStep (eq : D → D → Bool) (N : Nat) (offs : List D) (c1 c2 : D) : List D :=
  -- `if len(offsprings) == 0: offsprings.append(child1)`
  let o1 := if offs.length == 0 then offs ++ [c1] else offs
  -- `if any(child1 == o …) and len < N: pass  else: append(child1)`
  let o2 := if o1.any (fun o => eq c1 o) && decide (o1.length < N) then o1 else o1 ++ [c1]
  -- `if any(child2 == o …) and len < N: pass  elif len < N: append(child2)`
  let o3 := if o2.any (fun o => eq c2 o) && decide (o2.length < N) then o2
            else if o2.length < N then o2 ++ [c2] else o2
  o3

/-- `GeneticAlgorithm.generate`: consumes oracle pairs until `N` offspring exist.
`none` = the oracle ran dry first (the real loop would go on drawing). -/
def generate (eq : D → D → Bool) (N : Nat) : List (D × D) → List D → Option (List D)
  | [], offs => if offs.length < N then none else some offs
  | (c1, c2) :: ps, offs =>
    if offs.length < N then generate eq N ps (genStep eq N offs c1 c2) else some offs

/-- `Selector.pop_acceptance(individuals, individual)`.
`flags[i] = dominance.compare(offspring, individuals[i])`; `pick1` indexes the list of dominated
members (`random.choice(dominates)`), `pick2` the population (`random.choice(individuals)`,
removed by `list.remove`, i.e. the first member equal to it). -/
def popAccept (eq : D → D → Bool) (pop : List D) (flags : List Nat) (x : D) (pick1 pick2 : Nat) : List D :=
  let dominates := (List.range pop.length).filter (fun i => flags.getD i 0 == 1)
  let dominated := (List.range pop.length).any (fun i => flags.getD i 0 == 2)
  if dominates.length > 0 then
    (pop.eraseIdx (dominates.getD (pick1 % dominates.length) 0)) ++ [x]
  else if !dominated then
    match pop[pick2 % pop.length]? with
    | none => pop ++ [x]           -- empty population: `random.choice([])` raises; not reachable for N ≥ 1
    | some v =>
      match pop.findIdx? (fun o => eq o v) with
      | some j => pop.eraseIdx j ++ [x]
      | none => pop ++ [x]
  else pop

/-- Counters of a run: successful evaluations and the generation tag of every recorded design. -/
structure Log where
  evals : Nat
  tags : List Nat
deriving Repr, DecidableEq

/-- NSGA-II: generation 1 = the evaluated initial population; each further iteration evaluates
exactly `N` offspring (`generate_size`) and records the `N` survivors of the truncation with tag
`it + 2`. -/
def nsga2Log (N G : Nat) : Log :=
  (List.range (G - 1)).foldl
    (fun l it => { evals := l.evals + N, tags := l.tags ++ List.replicate N (it + 2) })
    { evals := N, tags := List.replicate N 1 }

/-- ε-MOEA / OMOPSO / SMPSO: generation 0 = initial population, then `G` iterations each
evaluating and recording `N` designs with tag `it + 1`. -/
def steadyLog (N G : Nat) : Log :=
  (List.range G).foldl
    (fun l it => { evals := l.evals + N, tags := l.tags ++ List.replicate N (it + 1) })
    { evals := N, tags := List.replicate N 0 }

/-! ## protocol -/
open Artap.Proto

def showLog (l : Log) (maxTag : Nat) : String :=
  s!"{l.evals}|" ++ showList toString ((List.range (maxTag + 1)).map (fun t => l.tags.count t))

/-- designs are vectors of φ-encoded ints; `eq` here is exact equality of the encodings (the
harness only sends designs that are bit-identical or clearly different). -/
def handle (op : String) (arg : String) : Option String :=
  match op, arg.splitOn "|" with
  | "c09.nsga2", [n, g] => do
    let n ← parseNat? n; let g ← parseNat? g
    some (showLog (nsga2Log n g) g)
  | "c09.steady", [n, g] => do
    let n ← parseNat? n; let g ← parseNat? g
    some (showLog (steadyLog n g) g)
  | "c09.generate", [n, pairs] => do
    let n ← parseNat? n
    let vs ← parseMat? parseInt? pairs
    let rec mk : List (List Int) → List (List Int × List Int)
      | a :: b :: r => (a, b) :: mk r
      | _ => []
    match generate (fun a b => a == b) n (mk vs) [] with
    | some offs => some (showMat toString offs)
    | none => some "dry"
  | "c09.accept", [pop, flags, x, picks] => do
    let pop ← parseMat? parseInt? pop
    let flags ← parseList? parseNat? flags
    let x ← parseList? parseInt? x
    match ← parseList? parseNat? picks with
    | [p1, p2] => some (showMat toString (popAccept (fun a b => a == b) pop flags x p1 p2))
    | _ => none
  | _, _ => none

end Artap.Runs
