import ArtapModel.Model.Archive
/-!
# Model of the swarm helpers (artap/algorithm_swarm.py)

* `update_particle_best`: the personal best is replaced unless the comparator's verdict on
  (new position, old best) is `2` (regime R1: φ-encoded costs, exact).
* `speed_constriction`, `update_position` of OMOPSO / PSOGA (reverse) and SMPSO (damp by
  1/1000): regime R2, exact rationals.
* the leader archive: `leaders += swarm` (the C04 archive with its default ε comparator)
  followed by `truncate(max_population_size, 'crowding_distance')`.
-/
namespace Artap.Swarm
open Artap.Archive

/-- `flag = dominance.compare(particle.costs_signed, best_cost); if flag != 2: replace`.
`cur`/`best` are (costs, marker); the result says whether the best was replaced. -/
def pbestReplaced {κ} [LT κ] [DecidableLT κ] (cur best : List κ × Int) : Bool :=
  paretoCompare cur.1 best.1 cur.2 best.2 != 2

/-- new personal best -/
def updatePBest {κ} [LT κ] [DecidableLT κ] (cur best : List κ × Int) : List κ × Int :=
  if pbestReplaced cur best then cur else best

/-- Python's `min(a, b)` / `max(a, b)` (first argument wins ties). -/
def pyMin (a b : Rat) : Rat := if b < a then b else a
def pyMax (a b : Rat) : Rat := if a < b then b else a

/-- `speed_constriction(velocity, u_bound, l_bound)` -/
def speedConstriction (v ub lb : Rat) : Rat :=
  let delta := (ub - lb) / 2
  let v1 := pyMin v delta
  pyMax v1 (-delta)

/-- One coordinate of `update_position`; `f` is the factor applied to the velocity at a
violated bound (`-1` for OMOPSO and PSOGA, `1/1000` for SMPSO).  Both `if`s of the code, in
the code's order. -/
def updatePosition (f : Rat) (x v lb ub : Rat) : Rat × Rat :=
  let x1 := x + v
  let s1 : Rat × Rat := if ub < x1 then (ub, v * f) else (x1, v)
  if s1.1 < lb then (lb, s1.2 * f) else s1

def factorOf : String → Option Rat
  | "OMOPSO" => some (-1)
  | "PSOGA" => some (-1)
  | "SMPSO" => some (1 / 1000)
  | _ => none

/-- `update_global_best` seen from the leader archive: add the offered particles in order,
then truncate to `n` by the feature, larger preferred.  Result: the booleans of the adds,
the contents before the truncation, the leaders afterwards. -/
def generation {α} (cmp : α → α → Option Nat) (same : α → α → Bool) (feat : α → Int) (n : Nat)
    (leaders offered : List α) : Option (List Bool × List α × List α) :=
  match addAll cmp same leaders offered with
  | none => none
  | some (c, bs) => some (bs, c, truncate feat c n true)

/-- any number of generations from given leaders: the leader archive after each one -/
def generations {α} (cmp : α → α → Option Nat) (same : α → α → Bool) (feat : α → Int) (n : Nat) :
    List α → List (List α) → Option (List (List α))
  | _, [] => some []
  | leaders, sw :: rest =>
    match generation cmp same feat n leaders sw with
    | none => none
    | some (_, _, l') => (generations cmp same feat n l' rest).map (fun t => l' :: t)

end Artap.Swarm

namespace Artap.Swarm
open Artap.Proto Artap.Archive

def zip4 : List Rat → List Rat → List Rat → List Rat → Option (List (Rat × Rat × Rat × Rat))
  | [], [], [], [] => some []
  | a :: as, b :: bs, c :: cs, d :: ds => (zip4 as bs cs ds).map (fun r => (a, b, c, d) :: r)
  | _, _, _, _ => none

/-- protocol
* `c18.pbest cur|best|mcur,mbest` (φ ints) → `1` replaced / `0` kept
* `c18.clamp v,ub,lb` (rationals) → rational
* `c18.pos ALG|xs|vs|lbs|ubs` → `xs'|vs'`
* `c18.gen eps|leader costs|leader markers|leader feats|offered costs|markers|feats|n`
  (ids: leaders first, then offered) → `flags|ids before truncate|ids after` or `raise` -/
def handle (op : String) (arg : String) : Option String :=
  match op, arg.splitOn "|" with
  | "c18.pbest", [c, b, m] => do
    let c ← parseList? parseInt? c
    let b ← parseList? parseInt? b
    match ← parseList? parseInt? m with
    | [mc, mb] => some (showBool (pbestReplaced (c, mc) (b, mb)))
    | _ => none
  | "c18.clamp", [a] => do
    match ← parseList? parseRat? a with
    | [v, ub, lb] => some (showRat (speedConstriction v ub lb))
    | _ => none
  | "c18.pos", [alg, xs, vs, lbs, ubs] => do
    let f ← factorOf (tok alg)
    let xs ← parseList? parseRat? xs
    let vs ← parseList? parseRat? vs
    let lbs ← parseList? parseRat? lbs
    let ubs ← parseList? parseRat? ubs
    let q ← zip4 xs vs lbs ubs
    let r := q.map (fun t => updatePosition f t.1 t.2.1 t.2.2.1 t.2.2.2)
    some (showList showRat (r.map Prod.fst) ++ "|" ++ showList showRat (r.map Prod.snd))
  | "c18.gen", [e, lc, lm, lf, oc, om, ofe, n] => do
    let e ← parseList? parseRat? e
    let lc ← parseMat? parseRat? lc
    let lm ← parseList? parseInt? lm
    let lf ← parseList? parseInt? lf
    let oc ← parseMat? parseRat? oc
    let om ← parseList? parseInt? om
    let ofe ← parseList? parseInt? ofe
    let n ← parseNat? n
    let leaders ← mkInds 0 lc lm lf
    let offered ← mkInds leaders.length oc om ofe
    match generation (epsCmp e) sameCosts Ind.feat n leaders offered with
    | none => some "raise"
    | some (bs, c, l) => some (showList showBool bs ++ "|" ++ showIds c ++ "|" ++ showIds l)
  | _, _ => none

end Artap.Swarm
