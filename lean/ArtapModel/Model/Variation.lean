import ArtapModel.Model.Proto
import ArtapModel.Model.Num
/-!
# Model of the box-preserving operators (C08)

`Operator.clip`, `SimulatedBinaryCrossover.cross`, `PmMutator / UniformMutator /
NonUniformMutation.mutate` (artap/operators.py), `VectorAndNumbers.gen_number` (artap/utils.py),
`OMOPSO / SMPSO / PSOGA.update_position` (artap/algorithm_swarm.py), the affine maps of the
DoE generators (artap/doe.py, `UniformGenerator`) and the run-level envelope.

Regime R2 (exact rationals).  The random draws and the values of the `pow` formulas are
*inputs* of the model (`SbxDraw`, `MutDraw`): the theorems quantify over all of them, so
they hold whatever the random generator and the formulas produce.  What the model keeps
from the code is the control flow: which coordinates are copied from a parent, which are
overwritten, and that every overwritten coordinate goes through `clip`.

The formulas themselves (regime R3, `Num α`) are at the end of the file; over `ℝ` they are
used to show that no `pow` base is negative (no complex child), over `Float` they run in the driver.
-/
namespace Artap.Variation

/-- One declared parameter: bounds and the tolerance `tol` within which a *generated*
design may lie outside (half the declared `precision`; `1e-12` when none is declared). -/
structure Param where
  lb : Rat
  ub : Rat
  tol : Rat

/-- Python `min(a, b)`: `b` only when `b < a`. -/
def pmin (a b : Rat) : Rat := if b < a then b else a
/-- Python `max(a, b)`: `b` only when `b > a`. -/
def pmax (a b : Rat) : Rat := if a < b then b else a

/-- `Operator.clip(value, min_value, max_value) = max(min_value, min(value, max_value))`. -/
def clip (v lo hi : Rat) : Rat := pmax lo (pmin v hi)

/-- exactly inside `[lb, ub]` -/
def within (p : Param) (x : Rat) : Bool := decide (p.lb ≤ x) && decide (x ≤ p.ub)
/-- inside `[lb − tol, ub + tol]` -/
def withinTol (p : Param) (x : Rat) : Bool := decide (p.lb - p.tol ≤ x) && decide (x ≤ p.ub + p.tol)

/-- The property predicate: same dimension as the box and every coordinate within the
tolerance of its parameter. -/
def inBox : List Param → List Rat → Bool
  | [], [] => true
  | p :: ps, x :: xs => withinTol p x && inBox ps xs
  | _, _ => false

/-- Same with tolerance zero (children of the operators for parents exactly in the box). -/
def inBoxExact : List Param → List Rat → Bool
  | [], [] => true
  | p :: ps, x :: xs => within p x && inBoxExact ps xs
  | _, _ => false

/-! ## Simulated binary crossover -/

/-- `EPSILON = sys.float_info.epsilon = 2⁻⁵²`. -/
def epsilon : Rat := 1 / 4503599627370496

/-- What is drawn / computed for one coordinate of `cross`: `cross` = `random.random() <= 0.5`,
`a`, `b` = the values `c1`, `c2` of the β-formulas *before* clipping (arbitrary),
`swap` = the last `random.random() <= 0.5`. -/
structure SbxDraw where
  cross : Bool
  a : Rat
  b : Rat
  swap : Bool

/-- `abs(x2 - x1) > EPSILON` -/
def apart (x1 x2 : Rat) : Bool :=
  if x1 < x2 then decide (epsilon < x2 - x1) else decide (epsilon < x1 - x2)

def sbxCoord (p : Param) (x1 x2 : Rat) (d : SbxDraw) : Rat × Rat :=
  if d.cross then
    if apart x1 x2 then
      let c1 := clip d.a p.lb p.ub
      let c2 := clip d.b p.lb p.ub
      if d.swap then (c2, c1) else (c1, c2)
    else (x1, x2)
  else (x1, x2)

/-- The `for i, param in enumerate(self.parameters)` loop on the copies `x1`, `x2`.
Coordinates beyond `len(parameters)` are copied; a parent shorter than the parameter list
is Python's `IndexError` (`none`). -/
def sbxLoop : List Param → List Rat → List Rat → List SbxDraw → Option (List Rat × List Rat)
  | [], x1, x2, _ => some (x1, x2)
  | p :: ps, a :: x1, b :: x2, d :: ds =>
    match sbxLoop ps x1 x2 ds with
    | some (r1, r2) => some ((sbxCoord p a b d).1 :: r1, (sbxCoord p a b d).2 :: r2)
    | none => none
  | _ :: _, _, _, _ => none

/-- `SimulatedBinaryCrossover.cross(p1, p2)`; `go` = `random.random() <= self.probability`. -/
def sbx (ps : List Param) (go : Bool) (x1 x2 : List Rat) (ds : List SbxDraw) :
    Option (List Rat × List Rat) :=
  if go then sbxLoop ps x1 x2 ds else some (x1, x2)

/-- Envelope of one coordinate: both children copied, or both overwritten by clipped values
(a value is a clipped value iff it lies in `[lb, ub]`, `clip_of_mem` / `clip_mem`). -/
def admitsSbxCoord (p : Param) (x1 x2 c1 c2 : Rat) : Bool :=
  (c1 == x1 && c2 == x2) || (within p c1 && within p c2)

/-- `admitsSBX box p1 p2 c1 c2` of DESIGN.md: same dimension everywhere, every coordinate admitted. -/
def admitsSbx : List Param → List Rat → List Rat → List Rat → List Rat → Bool
  | [], [], [], [], [] => true
  | p :: ps, a :: x1, b :: x2, c :: c1, d :: c2 => admitsSbxCoord p a b c d && admitsSbx ps x1 x2 c1 c2
  | _, _, _, _, _ => false

/-! ## Mutation (polynomial, uniform, non-uniform share the control flow) -/

/-- `hit` = `random.uniform(0, 1) < probability`; `a` = value handed to `clip`. -/
structure MutDraw where
  hit : Bool
  a : Rat

def mutCoord (p : Param) (x : Rat) (d : MutDraw) : Rat :=
  if d.hit then clip d.a p.lb p.ub else x

/-- `mutate(parent)`: the child has exactly `len(parameters)` entries (a longer parent is
truncated, a shorter one raises `IndexError`). -/
def mutate : List Param → List Rat → List MutDraw → Option (List Rat)
  | [], _, _ => some []
  | p :: ps, x :: xs, d :: ds =>
    match mutate ps xs ds with
    | some r => some (mutCoord p x d :: r)
    | none => none
  | _ :: _, _, _ => none

def admitsMutCoord (p : Param) (x c : Rat) : Bool := c == x || within p c

/-- `admitsMut box p c` of DESIGN.md. -/
def admitsMut : List Param → List Rat → List Rat → Bool
  | [], [], [] => true
  | p :: ps, x :: xs, c :: cs => admitsMutCoord p x c && admitsMut ps xs cs
  | _, _, _ => false

/-! ## `gen_number` -/

/-- Python's `round(x)` on a float: nearest integer, ties to even. -/
def roundHalfEven (q : Rat) : Int :=
  let f := q.floor
  let r := q - f
  if r < 1 / 2 then f
  else if 1 / 2 < r then f + 1
  else if f % 2 == 0 then f else f + 1

/-- the double `1e-12` -/
def defaultPrecision : Rat := 4951760157141521 / 4951760157141521099596496896

/-- `if precision == 0: precision = 1e-12` -/
def effPrecision (prec : Rat) : Rat := if prec == 0 then defaultPrecision else prec

/-- `gen_number(bounds=[lb, ub], precision=prec)` for the uniform distribution and a real
parameter, `u = random()`. -/
def genNumber (lb ub prec u : Rat) : Rat :=
  let number := u * (ub - lb) + lb
  (roundHalfEven (number / effPrecision prec) : Rat) * effPrecision prec

/-- distance of `number / prec` from the nearest rounding tie (`k + 1/2`); the harness skips the
value comparison (not the bounds check) when the double computation cannot resolve it -/
def genTieDist (lb ub prec u : Rat) : Rat :=
  let z := (u * (ub - lb) + lb) / effPrecision prec
  let r := z - z.floor
  if r < 1 / 2 then 1 / 2 - r else r - 1 / 2

/-! ## Swarm `update_position` -/

/-- One coordinate of `update_position`; `factor` is `-1` (OMOPSO, PSOGA) or `0.001` (SMPSO).
Returns the new position and the new velocity.  Two consecutive `if`s, as in the code. -/
def updatePos (factor : Rat) (p : Param) (x v : Rat) : Rat × Rat :=
  let x1 := x + v
  let s1 : Rat × Rat := if p.ub < x1 then (p.ub, v * factor) else (x1, v)
  if s1.1 < p.lb then (p.lb, s1.2 * factor) else s1

/-- `for parameter, i in zip(self.parameters, range(len(individual.vector)))`: `zip` stops
at the shorter of the two; coordinates beyond stay as they are.  A velocity list shorter
than that is `IndexError`. -/
def updatePosition (factor : Rat) : List Param → List Rat → List Rat → Option (List Rat)
  | p :: ps, x :: xs, v :: vs =>
    match updatePosition factor ps xs vs with
    | some r => some ((updatePos factor p x v).1 :: r)
    | none => none
  | _ :: _, _ :: _, [] => none
  | _, xs, _ => some xs

/-! ## Generators -/

def absR (x : Rat) : Rat := if x < 0 then -x else x

/-- `construct_df_from_random_matrix` (LHS, Halton): `lb + w * fabs(ub − lb)`, `w ∈ [0, 1]`. -/
def scaleUnit (lb ub w : Rat) : Rat := lb + w * absR (ub - lb)

/-- `UniformGenerator`: `lb + i * ((ub − lb) / (number − 1))`; `number = 1` divides by zero. -/
def gridPoint (lb ub : Rat) (n i : Nat) : Option Rat :=
  if n = 1 then none else some (lb + (i : Rat) * ((ub - lb) / ((n : Rat) - 1)))

/-- centre level of `FullFactorGenerator(center=True)` and of the Box–Behnken builder -/
def midPoint (lb ub : Rat) : Rat := (lb + ub) / 2

/-! ## Run-level envelope

Every coordinate of a design handed to the objective is either exactly inside `[lb, ub]`
(it went through `clip` / the bound reset of `update_position`) or is the same coordinate
of a design evaluated earlier (copied by crossover / mutation / `CopySelector`). -/

def admitsDesign : List Param → List (List Rat) → List Rat → Bool
  | [], _, [] => true
  | p :: ps, pool, c :: cs =>
    (within p c || pool.any (fun d => d.head? == some c)) && admitsDesign ps (pool.map List.tail) cs
  | _, _, _ => false

/-- `pool` = designs evaluated so far, `rest` = the designs evaluated next, in order. -/
def admitsTrace (ps : List Param) : List (List Rat) → List (List Rat) → Bool
  | _, [] => true
  | pool, d :: rest => admitsDesign ps pool d && admitsTrace ps (d :: pool) rest

/-- index (in `rest`) of the first design that is not admitted -/
def firstBad (ps : List Param) : List (List Rat) → List (List Rat) → Nat → Option Nat
  | _, [], _ => none
  | pool, d :: rest, k => if admitsDesign ps pool d then firstBad ps (d :: pool) rest (k + 1) else some k

def allInBox (ps : List Param) (ds : List (List Rat)) : Bool := ds.all (inBox ps)

/-! ## The formulas (regime R3) — written once over `Num α` -/
section formulas
open scoped Artap.NumOps
variable {α : Type} [Num α]

/-- `beta = 1.0 + (2.0 * (y1 - lb) / (y2 - y1))` (first child; the second uses `ub - y2`). -/
def sbxBeta (gap dy : α) : α := Num.ofNat 1 + (Num.ofNat 2 * gap / dy)
/-- `alpha = 2.0 - pow(beta, -(eta + 1.0))` -/
def sbxAlpha (beta eta : α) : α := Num.ofNat 2 - Num.pow beta (-(eta + Num.ofNat 1))
/-- first branch: `pow(rand * alpha, 1.0 / (eta + 1.0))` -/
def sbxBetaqLow (rand alpha eta : α) : α := Num.pow (rand * alpha) (Num.ofNat 1 / (eta + Num.ofNat 1))
/-- second branch: `pow(1.0 / (2.0 - rand * alpha), 1.0 / (eta + 1.0))` -/
def sbxBetaqHigh (rand alpha eta : α) : α :=
  Num.pow (Num.ofNat 1 / (Num.ofNat 2 - rand * alpha)) (Num.ofNat 1 / (eta + Num.ofNat 1))
/-- `c1 = 0.5 * (y1 + y2 - betaq * (y2 - y1))` -/
def sbxChild1 (y1 y2 betaq : α) : α := Num.ofRat (1 / 2) * (y1 + y2 - betaq * (y2 - y1))
/-- `c2 = 0.5 * (y1 + y2 + betaq * (y2 - y1))` -/
def sbxChild2 (y1 y2 betaq : α) : α := Num.ofRat (1 / 2) * (y1 + y2 + betaq * (y2 - y1))

/-- polynomial mutation, `rnd < 0.5`: `val = 2 rnd + (1 − 2 rnd) · pow(1 − δ₁, η + 1)` -/
def pmValLow (rnd delta1 eta : α) : α :=
  Num.ofNat 2 * rnd + (Num.ofNat 1 - Num.ofNat 2 * rnd) * Num.pow (Num.ofNat 1 - delta1) (eta + Num.ofNat 1)
/-- `rnd ≥ 0.5`: `val = 2 (1 − rnd) + 2 (rnd − 0.5) · pow(1 − δ₂, η + 1)` -/
def pmValHigh (rnd delta2 eta : α) : α :=
  Num.ofNat 2 * (Num.ofNat 1 - rnd)
    + Num.ofNat 2 * (rnd - Num.ofRat (1 / 2)) * Num.pow (Num.ofNat 1 - delta2) (eta + Num.ofNat 1)
/-- `x + (pow(val, 1/(η+1)) − 1) · dx` -/
def pmChildLow (x dx val eta : α) : α :=
  x + (Num.pow val (Num.ofNat 1 / (eta + Num.ofNat 1)) - Num.ofNat 1) * dx
/-- `x + (1 − pow(val, 1/(η+1))) · dx` -/
def pmChildHigh (x dx val eta : α) : α :=
  x + (Num.ofNat 1 - Num.pow val (Num.ofNat 1 / (eta + Num.ofNat 1))) * dx

/-- inner base of `NonUniformMutation.__delta`: `1.0 − 1.0 * it / max_it` -/
def nuInner (it maxIt : α) : α := Num.ofNat 1 - Num.ofNat 1 * it / maxIt
/-- `y * (1.0 − pow(r, pow(1 − it/max_it, b)))` -/
def nuDelta (y r it maxIt b : α) : α :=
  y * (Num.ofNat 1 - Num.pow r (Num.pow (nuInner it maxIt) b))

end formulas

/-- Float execution of one SBX coordinate with all draws given (both children before the
swap, after `clip`): the reference the harness compares `cross` with when it forces the draws. -/
def sbxFloat (lb ub x1 x2 eta rand : Float) : Float × Float :=
  let (y1, y2) := if x2 > x1 then (x1, x2) else (x2, x1)
  let bq (gap : Float) : Float :=
    let beta : Float := sbxBeta gap (y2 - y1)
    let alpha : Float := sbxAlpha beta eta
    if rand <= 1.0 / alpha then sbxBetaqLow rand alpha eta else sbxBetaqHigh rand alpha eta
  let c1 : Float := sbxChild1 y1 y2 (bq (y1 - lb))
  let c2 : Float := sbxChild2 y1 y2 (bq (ub - y2))
  let cl (v : Float) : Float := if lb < (if ub < v then ub else v) then (if ub < v then ub else v) else lb
  (cl c1, cl c2)

/-- Float execution of `pm_mutation(x, lb, ub)` with `rnd` given. -/
def pmFloat (lb ub x eta rnd : Float) : Float :=
  let dx := ub - lb
  let c : Float :=
    if rnd < 0.5 then pmChildLow x dx (pmValLow rnd ((x - lb) / dx) eta) eta
    else pmChildHigh x dx (pmValHigh rnd ((ub - x) / dx) eta) eta
  if lb < (if ub < c then ub else c) then (if ub < c then ub else c) else lb

/-- Float execution of `non_uniform_mutation` with both draws given. -/
def nuFloat (lb ub x b it maxIt rand r : Float) : Float :=
  let c : Float := if rand <= 0.5 then nuDelta (ub - x) r it maxIt b else nuDelta (lb - x) r it maxIt b
  if lb < (if ub < c then ub else c) then (if ub < c then ub else c) else lb

end Artap.Variation

namespace Artap.Variation
open Artap.Proto

def parseParams? (s : String) : Option (List Param) := do
  let rows ← parseMat? parseRat? s
  allSome (rows.map fun r => match r with
    | [lb, ub, tol] => some ⟨lb, ub, tol⟩
    | _ => none)

def showOptNat' : Option Nat → String
  | some k => toString k
  | none => "ok"

/-- protocol (all numbers exact rationals unless stated):
* `c08.sbx box|p1|p2|c1|c2` → `admits,inbox1,inbox2` (box = `lb,ub,tol;…`)
* `c08.mut box|p|c` → `admits,inbox`
* `c08.inbox box|rows` → index of the first row outside the box, or `ok`
* `c08.gen lb|ub|prec|u` → `value tieDist`
* `c08.pos factor|box|x|v` → new position vector or `raise`
* `c08.scale lb|ub|w`, `c08.grid lb|ub|n|i`, `c08.mid lb|ub` → value
* `c08.trace box|init|rest` → `ok` / index of the first design of `rest` not admitted; init must be in the box
* `c08.sbxf lb,ub,x1,x2,eta,rand` / `c08.pmf lb,ub,x,eta,rnd` / `c08.nuf lb,ub,x,b,it,maxit,rand,r` (IEEE bits) -/
def handle (op : String) (arg : String) : Option String :=
  match op, arg.splitOn "|" with
  | "c08.sbx", [b, p1, p2, c1, c2] => do
    let ps ← parseParams? b
    let p1 ← parseList? parseRat? p1
    let p2 ← parseList? parseRat? p2
    let c1 ← parseList? parseRat? c1
    let c2 ← parseList? parseRat? c2
    some (showList showBool [admitsSbx ps p1 p2 c1 c2, inBox ps c1, inBox ps c2])
  | "c08.mut", [b, p, c] => do
    let ps ← parseParams? b
    let p ← parseList? parseRat? p
    let c ← parseList? parseRat? c
    some (showList showBool [admitsMut ps p c, inBox ps c])
  | "c08.inbox", [b, rows] => do
    let ps ← parseParams? b
    let rows ← parseMat? parseRat? rows
    some (showOptNat' (rows.findIdx? (fun r => !inBox ps r)))
  | "c08.gen", [lb, ub, prec, u] => do
    let lb ← parseRat? lb
    let ub ← parseRat? ub
    let prec ← parseRat? prec
    let u ← parseRat? u
    some (showRat (genNumber lb ub prec u) ++ " " ++ showRat (genTieDist lb ub prec u))
  | "c08.pos", [f, b, x, v] => do
    let f ← parseRat? f
    let ps ← parseParams? b
    let x ← parseList? parseRat? x
    let v ← parseList? parseRat? v
    some (match updatePosition f ps x v with
      | some r => showList showRat r
      | none => "raise")
  | "c08.scale", [lb, ub, w] => do
    some (showRat (scaleUnit (← parseRat? lb) (← parseRat? ub) (← parseRat? w)))
  | "c08.grid", [lb, ub, n, i] => do
    some (match gridPoint (← parseRat? lb) (← parseRat? ub) (← parseNat? n) (← parseNat? i) with
      | some r => showRat r
      | none => "raise")
  | "c08.mid", [lb, ub] => do
    some (showRat (midPoint (← parseRat? lb) (← parseRat? ub)))
  | "c08.trace", [b, init, rest] => do
    let ps ← parseParams? b
    let init ← parseMat? parseRat? init
    let rest ← parseMat? parseRat? rest
    match init.findIdx? (fun r => !inBox ps r) with
    | some k => some ("init " ++ toString k)
    | none => some (showOptNat' (firstBad ps init.reverse rest 0))
  | "c08.sbxf", [a] => do
    match ← parseList? parseFloat? a with
    | [lb, ub, x1, x2, eta, rand] =>
      let r := sbxFloat lb ub x1 x2 eta rand
      some (showFloat r.1 ++ "," ++ showFloat r.2)
    | _ => none
  | "c08.pmf", [a] => do
    match ← parseList? parseFloat? a with
    | [lb, ub, x, eta, rnd] => some (showFloat (pmFloat lb ub x eta rnd))
    | _ => none
  | "c08.nuf", [a] => do
    match ← parseList? parseFloat? a with
    | [lb, ub, x, b, it, maxIt, rand, r] => some (showFloat (nuFloat lb ub x b it maxIt rand r))
    | _ => none
  | _, _ => none

end Artap.Variation
