import ArtapModel.Model.Proto
/-!
# Crash model of the SQLite store (`SqliteDataStore`, thread-safe mode)

Durable state = committed rows of table `individuals` (primary key `id`).  Every
synchronisation opens its own connection, executes one upsert (`sync_individual`) or many
(`sync_all`) inside that connection's transaction and commits.  A process death loses every
uncommitted statement; what SQLite guarantees (atomic commit with the rollback journal, which
stays on: `PRAGMA journal_mode = ON` is not a valid mode and is ignored) is *assumed* here and
monitored by the harness.  `crashAt k tr` is what a reader finds after the process died right
after the `k`-th event of trace `tr`.
-/
namespace Artap.Crash

inductive Ev (B : Type) where
  /-- objective call (or anything else that does not touch the file) -/
  | other
  /-- successful `INSERT … ON CONFLICT(id) DO UPDATE` on connection `conn` -/
  | upsert (conn : Nat) (id : Nat) (b : B)
  /-- successful `commit()` of connection `conn` -/
  | commit (conn : Nat)

structure DB (B : Type) where
  /-- committed rows, in table order -/
  durable : List (Nat × B)
  /-- statements executed but not yet committed: (connection, id, blob), oldest first -/
  pending : List (Nat × Nat × B)

variable {B : Type}

/-- The upsert statement on a table with primary key `id`. -/
def upsertRow (rows : List (Nat × B)) (id : Nat) (b : B) : List (Nat × B) :=
  if rows.any (fun r => r.1 == id) then rows.map (fun r => if r.1 == id then (id, b) else r)
  else rows ++ [(id, b)]

def applyAll (rows : List (Nat × B)) (ps : List (Nat × Nat × B)) : List (Nat × B) :=
  ps.foldl (fun rows p => upsertRow rows p.2.1 p.2.2) rows

def apply (db : DB B) : Ev B → DB B
  | .other => db
  | .upsert c id b => { db with pending := db.pending ++ [(c, id, b)] }
  | .commit c =>
    { durable := applyAll db.durable (db.pending.filter (fun p => p.1 == c)),
      pending := db.pending.filter (fun p => !(p.1 == c)) }

def empty : DB B := { durable := [], pending := [] }

def state (tr : List (Ev B)) : DB B := tr.foldl apply empty

/-- Rows a reader finds after the process died right after the first `k` events. -/
def crashAt (k : Nat) (tr : List (Ev B)) : List (Nat × B) := (state (tr.take k)).durable

/-! ## protocol -/
open Artap.Proto

def parseEv (s : String) : Option (Ev Nat) :=
  match (tok s).splitOn ":" with
  | ["o"] => some .other
  | ["u", c, i, b] => do some (.upsert (← parseNat? c) (← parseNat? i) (← parseNat? b))
  | ["c", c] => do some (.commit (← parseNat? c))
  | _ => none

/-- `c11.crash k|ev,ev,…` with events `o`, `u:conn:id:blob`, `c:conn`; answers the durable rows
`id:blob,…` in table order. -/
def handle (op : String) (arg : String) : Option String :=
  match op, arg.splitOn "|" with
  | "c11.crash", [k, evs] => do
    let k ← parseNat? k
    let tr ← parseList? parseEv evs
    some (showList (fun (r : Nat × Nat) => s!"{r.1}:{r.2}") (crashAt k tr))
  | _, _ => none

end Artap.Crash
