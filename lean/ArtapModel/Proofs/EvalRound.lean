import ArtapModel.Model.Eval
import Mathlib.Algebra.Order.Field.Basic
import Mathlib.Algebra.Order.Field.Rat
import Mathlib.Tactic.Linarith
import Mathlib.Tactic.FieldSimp
import Mathlib.Tactic.Ring
/-!
# `np.round(y, p)` in exact arithmetic: error bound of `roundDec`
-/
namespace Artap.Eval

theorem rintHalfEven_close (q : Rat) :
    -(1 / 2 : Rat) ≤ (rintHalfEven q : Rat) - q ∧ (rintHalfEven q : Rat) - q ≤ 1 / 2 := by
  have h1 : (q.floor : Rat) ≤ q := Rat.floor_le q
  have h2 : q < ((q.floor + 1 : Int) : Rat) := Rat.lt_floor_add_one q
  have h2' : q < (q.floor : Rat) + 1 := by push_cast at h2; exact h2
  unfold rintHalfEven
  simp only
  by_cases ha : q - (q.floor : Rat) < 1 / 2
  · simp only [ha, if_true]
    constructor <;> linarith
  · simp only [ha, if_false]
    by_cases hb : 1 / 2 < q - (q.floor : Rat)
    · simp only [hb, if_true]
      push_cast
      constructor <;> linarith
    · simp only [hb, if_false]
      have he : q - (q.floor : Rat) = 1 / 2 := le_antisymm (not_lt.1 hb) (not_lt.1 ha)
      by_cases hc : q.floor % 2 = 0
      · simp only [hc, if_true]
        constructor <;> linarith
      · simp only [hc, if_false]
        push_cast
        constructor <;> linarith

theorem pow10_pos (p : Nat) : (0 : Rat) < (10 : Rat) ^ p := by positivity

/-- `roundDec p y` is within half a unit of the `p`-th decimal of `y`. -/
theorem roundDec_close (p : Nat) (y : Rat) :
    -(1 / (2 * (10 : Rat) ^ p)) ≤ roundDec p y - y ∧ roundDec p y - y ≤ 1 / (2 * (10 : Rat) ^ p) := by
  have hp := pow10_pos p
  have hc := rintHalfEven_close (y * (10 : Rat) ^ p)
  unfold roundDec
  have key : (rintHalfEven (y * (10 : Rat) ^ p) : Rat) / (10 : Rat) ^ p - y =
      ((rintHalfEven (y * (10 : Rat) ^ p) : Rat) - y * (10 : Rat) ^ p) / (10 : Rat) ^ p := by
    field_simp
  rw [key]
  constructor
  · rw [neg_le_iff_add_nonneg, ← sub_nonneg]
    have : (0 : Rat) ≤ (((rintHalfEven (y * (10 : Rat) ^ p) : Rat) - y * (10 : Rat) ^ p) + 1 / 2) / (10 : Rat) ^ p :=
      div_nonneg (by linarith [hc.1]) hp.le
    have e : (((rintHalfEven (y * (10 : Rat) ^ p) : Rat) - y * (10 : Rat) ^ p) + 1 / 2) / (10 : Rat) ^ p =
        1 / (2 * (10 : Rat) ^ p) + ((rintHalfEven (y * (10 : Rat) ^ p) : Rat) - y * (10 : Rat) ^ p) / (10 : Rat) ^ p := by
      field_simp; ring
    rw [e] at this
    linarith
  · rw [div_le_div_iff₀ hp (by positivity)]
    nlinarith [hc.2, hp]

/-- Values already on the grid are left alone. -/
theorem roundDec_of_grid (p : Nat) (n : Int) : roundDec p ((n : Rat) / (10 : Rat) ^ p) = (n : Rat) / (10 : Rat) ^ p := by
  have hp := pow10_pos p
  unfold roundDec
  have : (n : Rat) / (10 : Rat) ^ p * (10 : Rat) ^ p = (n : Rat) := by field_simp
  rw [this]
  have hf : ((n : Rat)).floor = n := Rat.floor_intCast n
  have : rintHalfEven (n : Rat) = n := by
    unfold rintHalfEven
    simp [hf]
  rw [this]

end Artap.Eval
