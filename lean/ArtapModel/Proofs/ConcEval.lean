import ArtapModel.Proofs.Concurrency
import ArtapModel.Model.Eval
/-!
# Refinement: the per-design program of the schedule model (C07) against the sequential model of `Job.evaluate` (C05/C06)

`Conc.jobProg P` (Model/Concurrency.lean) is a hand-written list of five actions, `Eval.jobEvaluate`
(Model/Eval.lean) is the sequential model of the same method, which is tied to the current source by
translation (Tie/Eval.lean).  This file connects the two: an abstraction map from the records of the
sequential model to those of the schedule model, and the theorem that five steps of `jobProg P` on the
abstraction of a design give the abstraction of what `jobEvaluate` returns when the objective succeeds at
the first attempt (record, store row, number of objective calls), and the serial loop `Eval.evalSerial` on
the success path.  Core Lean only.

Neither model is changed; the parameters of the two models are related by explicit hypotheses
(`Agree`).
-/
namespace Artap.ConcEval
open Artap Artap.Conc

/-! ## The abstraction map `Eval → Conc` -/

def absSt : Eval.State → St
  | .empty => .empty
  | .inProgress => .inProgress
  | .evaluated => .evaluated
  | .failed => .failed

/-- `features["feasible"]`: the float default `0.0` is "no value yet" in the schedule model. -/
def absFeas : Eval.Feas → Option Bool
  | .dflt => none
  | .no => some false
  | .yes => some true

/-- Truth value of `costs_signed[-1]`; the schedule model has no "`costs_signed` is empty" and its
harness supplies `false` for such a design. -/
def absMarker : Option Int → Bool
  | some m => m != 0
  | none => false

/-- The 0/1 value of a marker. -/
def b2i (b : Bool) : Int := if b then 1 else 0

/-- The record of the schedule model that stands for a design of the sequential model (object identity,
precision and the ghost call counter are forgotten; `skip` is an output of the program, `false` before). -/
def absDesign (e : Eval.Design) : Design :=
  { vec := e.vec, state := absSt e.state, costs := e.costs, signed := e.signed,
    marker := absMarker e.marker, feasible := absFeas e.feasible, skip := false }

/-- The row `sync_individual` writes for a design of the sequential model. -/
def absRow (e : Eval.Design) : Row :=
  { vec := e.vec, costs := e.costs, signed := e.signed, marker := absMarker e.marker, state := absSt e.state }

/-- `c` stands for `e`: equal to `absDesign e` up to the incoming value of the output field `skip`. -/
def Abs (c : Design) (e : Eval.Design) : Prop := { c with skip := false } = absDesign e

theorem abs_absDesign (e : Eval.Design) : Abs (absDesign e) e := rfl

/-- Every record of the schedule model stands for some design of the sequential model
(with any identity, precision and call counter). -/
theorem abs_surjective (c : Design) (key prec ncalls : Nat) :
    ∃ e : Eval.Design, Abs c e ∧ e.key = key ∧ e.prec = prec ∧ e.ncalls = ncalls := by
  refine ⟨{ key := key, vec := c.vec,
            state := (match c.state with
              | .empty => .empty | .inProgress => .inProgress | .evaluated => .evaluated | .failed => .failed),
            costs := c.costs, signed := c.signed, marker := some (b2i c.marker),
            feasible := (match c.feasible with | none => .dflt | some false => .no | some true => .yes),
            prec := prec, ncalls := ncalls }, ?_, rfl, rfl, rfl⟩
  obtain ⟨v, s, co, sg, m, f, sk⟩ := c
  simp only [Abs, absDesign, Design.mk.injEq, true_and, and_true]
  refine ⟨?_, ?_, ?_⟩
  · cases s <;> rfl
  · cases m <;> rfl
  · cases f with
    | none => rfl
    | some b => cases b <;> rfl

theorem absSt_evaluated (s : Eval.State) : absSt s = St.evaluated ↔ s = .evaluated := by
  cases s <;> simp [absSt]

/-- The parameters of the two models describe the same problem as far as the evaluation of `e` is
concerned: same constraint values, same signs, the rounding table of the schedule model is
`np.round(·, precision)` for this design's precision on the objective's values, and the first objective
call on this design object succeeds with the costs `P.obj` gives (the success path: no transient
failure, no other exception). -/
structure Agree (P : Prob) (env : Eval.Env) (e : Eval.Design) : Prop where
  cons : env.cons e.vec = P.cons e.vec
  signs : env.signs = P.signs
  rnd : ∀ y, y ∈ P.obj e.vec → env.rnd e.prec y = P.rnd y
  obj : env.obj e.key e.ncalls e.vec = .ok (P.obj e.vec)

/-! ## Helper lemmas -/

theorem zipMul_map (f : Rat → Rat) (g : Rat → Rat) :
    ∀ (a b : List Rat), (∀ y, y ∈ b → g y = f y) →
      zipMul a (b.map f) = List.zipWith (fun s c => s * g c) a b
  | [], _, _ => by simp [zipMul]
  | _ :: _, [], _ => by simp [zipMul]
  | x :: a, y :: b, h => by
    simp only [List.map_cons, zipMul, List.zipWith_cons_cons]
    rw [zipMul_map f g a b (fun z hz => h z (List.mem_cons_of_mem _ hz)), h y (List.mem_cons_self ..)]

theorem signed_agree {P : Prob} {env : Eval.Env} {e : Eval.Design} (h : Agree P env e) :
    zipMul P.signs ((P.obj e.vec).map P.rnd) = Eval.signedCosts env e.prec (P.obj e.vec) := by
  unfold Eval.signedCosts
  rw [h.signs]
  exact zipMul_map P.rnd (env.rnd e.prec) P.signs (P.obj e.vec) h.rnd

/-- marker and feasibility after the constraint step agree -/
theorem feas_agree (g : List Rat) (f : Eval.Feas) :
    absFeas (Eval.feasAfter g f) = (if g.isEmpty then absFeas f else some (g.all (fun v => decide (v < 0)))) := by
  unfold Eval.feasAfter
  by_cases hg : g.isEmpty = true
  · simp [hg]
  · simp only [hg, if_false, Bool.false_eq_true]
    by_cases ha : (g.all fun v => decide (v < 0)) = true
    · simp [ha, absFeas]
    · simp only [ha, if_false, Bool.false_eq_true]
      simp only [Bool.not_eq_true] at ha
      simp [absFeas]

theorem marker_agree (f : Eval.Feas) :
    absMarker (some (Eval.markerOf f)) = (match absFeas f with | some b => !b | none => true) := by
  cases f <;> simp [absMarker, Eval.markerOf, Eval.Feas.truthy, absFeas]

theorem marker_exact (f : Eval.Feas) :
    some (Eval.markerOf f) = some (b2i (absMarker (some (Eval.markerOf f)))) := by
  cases f <;> simp [absMarker, Eval.markerOf, Eval.Feas.truthy, b2i]

/-! ## The two paths -/

/-- `jobEvaluate` on the success path. -/
theorem jobEvaluate_success {P : Prob} {env : Eval.Env} {e : Eval.Design} (w : Eval.World)
    (hs : e.state ≠ .evaluated) (h : Agree P env e) :
    Eval.jobEvaluate env e w = (none, Eval.succeed env e (P.obj e.vec), Eval.logCall e w) := by
  unfold Eval.jobEvaluate
  rw [if_neg hs]
  simp only [Eval.attempts, h.obj]

theorem jobEvaluate_skip (env : Eval.Env) (e : Eval.Design) (w : Eval.World) (hs : e.state = .evaluated) :
    Eval.jobEvaluate env e w = (none, e, w) := by
  unfold Eval.jobEvaluate
  rw [if_pos hs]

/-- Five steps of `jobProg P` on any record of the schedule model that is not in state `evaluated`. -/
theorem conc_alone_success (P : Prob) (c : Design) (hs : c.state ≠ St.evaluated) :
    iter (tstep (jobProg P)) 5 (c, none, 0) =
      (let feas := if (P.cons c.vec).isEmpty then c.feasible else some ((P.cons c.vec).all (fun v => decide (v < 0)))
       let sg := zipMul P.signs ((P.obj c.vec).map P.rnd)
       let m := (match feas with | some f => !f | none => true)
       ({ vec := c.vec, state := St.evaluated, costs := P.obj c.vec, signed := sg, marker := m,
          feasible := feas, skip := false },
        some { vec := c.vec, costs := P.obj c.vec, signed := sg, marker := m, state := St.evaluated }, 5)) ∧
    tcalls (jobProg P) 5 (c, none, 0) = 1 := by
  constructor
  · simp only [iter, tstep, jobProg]
    cases hc : P.cons c.vec <;> simp [hc, hs]
    cases c.feasible <;> rfl
  · cases hc : P.cons c.vec <;> simp [tcalls, tcall, tstep, jobProg, hs, hc]

/-- Five steps of `jobProg P` on a record that stands for a not yet evaluated design. -/
theorem jobProg_success {P : Prob} {env : Eval.Env} {c : Design} {e : Eval.Design}
    (hc : Abs c e) (hs : e.state ≠ .evaluated) (h : Agree P env e) :
    iter (tstep (jobProg P)) 5 (c, none, 0) =
      (absDesign (Eval.succeed env e (P.obj e.vec)), some (absRow (Eval.succeed env e (P.obj e.vec))), 5) ∧
    tcalls (jobProg P) 5 (c, none, 0) = 1 := by
  obtain ⟨v, s, co, sg, m, f, sk⟩ := c
  simp only [Abs, absDesign, Design.mk.injEq, and_true] at hc
  obtain ⟨rfl, rfl, rfl, rfl, rfl, rfl⟩ := hc
  have hs' : ¬ absSt e.state = St.evaluated := fun x => hs ((absSt_evaluated _).1 x)
  have hsg := signed_agree h
  have hf := feas_agree (env.cons e.vec) e.feasible
  have hm := marker_agree (Eval.feasAfter (env.cons e.vec) e.feasible)
  rw [hf] at hm
  rw [h.cons] at hf hm
  refine ⟨?_, (conc_alone_success P _ hs').2⟩
  rw [(conc_alone_success P _ hs').1]
  simp only [absDesign, absRow, Eval.succeed, h.cons, hf, hm, ← hsg]
  rfl

/-- Five steps of `jobProg P` on a record that stands for an evaluated design. -/
theorem jobProg_skip (P : Prob) {c : Design} {e : Eval.Design} (hc : Abs c e) (hs : e.state = .evaluated) :
    iter (tstep (jobProg P)) 5 (c, none, 0) = ({ absDesign e with skip := true }, none, 5) ∧
    tcalls (jobProg P) 5 (c, none, 0) = 0 := by
  obtain ⟨v, s, co, sg, m, f, sk⟩ := c
  simp only [Abs, absDesign, Design.mk.injEq, and_true] at hc
  obtain ⟨rfl, rfl, rfl, rfl, rfl, rfl⟩ := hc
  have hs' : absSt e.state = St.evaluated := (absSt_evaluated _).2 hs
  constructor
  · simp [iter, tstep, jobProg, hs', absDesign]
  · simp [tcalls, tcall, tstep, jobProg, hs']

/-! ## The serial loop `Evaluator.evaluate_serial` on the success path -/

/-- What `Job.evaluate` leaves in a design on the success path (independent of the world). -/
def serialResult (P : Prob) (env : Eval.Env) (e : Eval.Design) : Eval.Design :=
  if e.state = .evaluated then e else Eval.succeed env e (P.obj e.vec)

/-- The calls a serial pass makes: one per not yet evaluated design, in batch order. -/
def serialCalls (es : List Eval.Design) : List (Nat × Eval.Vec) :=
  (es.filter (fun e => decide (e.state ≠ .evaluated))).map (fun e => (e.key, e.vec))

theorem jobEvaluate_serialResult {P : Prob} {env : Eval.Env} {e : Eval.Design} (w : Eval.World)
    (hA : e.state ≠ .evaluated → Agree P env e) :
    (Eval.jobEvaluate env e w).2.1 = serialResult P env e := by
  unfold serialResult
  by_cases hs : e.state = .evaluated
  · rw [jobEvaluate_skip env e w hs, if_pos hs]
  · rw [jobEvaluate_success w hs (hA hs), if_neg hs]

/-- `Eval.evalSerial` (the model of `evaluate_serial`, which evaluates the `EMPTY` designs only) on a batch
of `EMPTY` / `EVALUATED` designs on the success path. -/
theorem evalSerial_success {P : Prob} {env : Eval.Env} :
    ∀ (es : List Eval.Design) (w : Eval.World),
      (∀ e, e ∈ es → e.state ≠ .evaluated → Agree P env e) →
      (∀ e, e ∈ es → e.state = .empty ∨ e.state = .evaluated) →
      Eval.evalSerial env es w =
        (none, es.map (serialResult P env), { log := w.log ++ serialCalls es, failed := w.failed })
  | [], w, _, _ => by simp [Eval.evalSerial, serialCalls]
  | e :: es, w, hA, hst => by
    have hA' : ∀ x, x ∈ es → x.state ≠ .evaluated → Agree P env x :=
      fun x hx => hA x (List.mem_cons_of_mem _ hx)
    have hst' : ∀ x, x ∈ es → x.state = .empty ∨ x.state = .evaluated :=
      fun x hx => hst x (List.mem_cons_of_mem _ hx)
    unfold Eval.evalSerial
    rcases hst e (List.mem_cons_self ..) with he | he
    · have hne : e.state ≠ .evaluated := by rw [he]; decide
      rw [if_pos he, jobEvaluate_success w hne (hA e (List.mem_cons_self ..) hne)]
      simp only
      rw [evalSerial_success es (Eval.logCall e w) hA' hst']
      simp [serialResult, serialCalls, hne, Eval.logCall]
    · have hne : ¬ e.state = .empty := by rw [he]; decide
      rw [if_neg hne]
      simp only
      rw [evalSerial_success es w hA' hst']
      simp [serialResult, serialCalls, he]

end Artap.ConcEval
