import ArtapModel.Model.Crash
/-! # Lemmas about the crash model (helper file for `Props/C11.lean`, core Lean only) -/
namespace Artap.Crash

variable {B : Type}

def ids (rows : List (Nat × B)) : List Nat := rows.map (·.1)

theorem any_iff_mem_ids (rows : List (Nat × B)) (id : Nat) :
    rows.any (fun r => r.1 == id) = true ↔ id ∈ ids rows := by
  induction rows with
  | nil => simp [ids]
  | cons r rows ih =>
    simp only [List.any_cons, Bool.or_eq_true, ih, ids, List.map_cons, List.mem_cons, beq_iff_eq]
    constructor
    · rintro (h | h)
      · exact Or.inl h.symm
      · exact Or.inr h
    · rintro (h | h)
      · exact Or.inl h.symm
      · exact Or.inr h

theorem ids_map_replace (rows : List (Nat × B)) (id : Nat) (b : B) :
    ids (rows.map (fun r => if r.1 == id then (id, b) else r)) = ids rows := by
  induction rows with
  | nil => rfl
  | cons r rows ih =>
    simp only [ids, List.map_cons, List.cons.injEq] at ih ⊢
    refine ⟨?_, ih⟩
    by_cases h : r.1 = id
    · simp [h]
    · simp [h]

theorem ids_upsertRow (rows : List (Nat × B)) (id : Nat) (b : B) :
    ids (upsertRow rows id b) = if id ∈ ids rows then ids rows else ids rows ++ [id] := by
  unfold upsertRow
  by_cases h : id ∈ ids rows
  · have := (any_iff_mem_ids rows id).mpr h
    simp only [this, h, if_true]
    exact ids_map_replace rows id b
  · have : rows.any (fun r => r.1 == id) = false := by
      cases hh : rows.any (fun r => r.1 == id)
      · rfl
      · exact absurd ((any_iff_mem_ids rows id).mp hh) h
    simp only [this, h, if_false, Bool.false_eq_true]
    simp [ids]

theorem nodup_upsertRow {rows : List (Nat × B)} (h : (ids rows).Nodup) (id : Nat) (b : B) :
    (ids (upsertRow rows id b)).Nodup := by
  rw [ids_upsertRow]
  by_cases hm : id ∈ ids rows
  · simp [hm, h]
  · simp only [hm, if_false]
    rw [List.nodup_append]
    refine ⟨h, by simp, ?_⟩
    intro a ha c hc
    simp at hc
    subst hc
    intro e; subst e; exact hm ha

theorem mem_ids_upsertRow_of_mem {rows : List (Nat × B)} {j : Nat} (h : j ∈ ids rows) (id : Nat) (b : B) :
    j ∈ ids (upsertRow rows id b) := by
  rw [ids_upsertRow]
  split
  · exact h
  · exact List.mem_append_left _ h

theorem self_mem_ids_upsertRow (rows : List (Nat × B)) (id : Nat) (b : B) :
    id ∈ ids (upsertRow rows id b) := by
  rw [ids_upsertRow]
  split
  · assumption
  · simp

theorem mem_upsertRow {rows : List (Nat × B)} {id : Nat} {b : B} {r : Nat × B}
    (h : r ∈ upsertRow rows id b) : r = (id, b) ∨ r ∈ rows := by
  unfold upsertRow at h
  split at h
  · rw [List.mem_map] at h
    obtain ⟨x, hx, e⟩ := h
    split at e
    · exact Or.inl e.symm
    · exact Or.inr (e ▸ hx)
  · rw [List.mem_append] at h
    rcases h with h | h
    · exact Or.inr h
    · simp at h; exact Or.inl h

theorem self_mem_upsertRow (rows : List (Nat × B)) (id : Nat) (b : B) :
    (id, b) ∈ upsertRow rows id b := by
  unfold upsertRow
  split
  · rename_i h
    rw [List.any_eq_true] at h
    obtain ⟨x, hx, e⟩ := h
    rw [List.mem_map]
    exact ⟨x, hx, by simp [e]⟩
  · simp

theorem nodup_applyAll {rows : List (Nat × B)} (h : (ids rows).Nodup) (ps : List (Nat × Nat × B)) :
    (ids (applyAll rows ps)).Nodup := by
  induction ps generalizing rows with
  | nil => exact h
  | cons p ps ih => exact ih (nodup_upsertRow h _ _)

theorem mem_ids_applyAll_of_mem {rows : List (Nat × B)} {j : Nat} (h : j ∈ ids rows)
    (ps : List (Nat × Nat × B)) : j ∈ ids (applyAll rows ps) := by
  induction ps generalizing rows with
  | nil => exact h
  | cons p ps ih => exact ih (mem_ids_upsertRow_of_mem h _ _)

theorem mem_ids_applyAll_of_pending (rows : List (Nat × B)) (ps : List (Nat × Nat × B))
    {p : Nat × Nat × B} (hp : p ∈ ps) : p.2.1 ∈ ids (applyAll rows ps) := by
  induction ps generalizing rows with
  | nil => simp at hp
  | cons q ps ih =>
    simp only [List.mem_cons] at hp
    rcases hp with e | hp
    · subst e
      exact mem_ids_applyAll_of_mem (self_mem_ids_upsertRow rows _ _) ps
    · exact ih _ hp

theorem mem_applyAll {rows : List (Nat × B)} {ps : List (Nat × Nat × B)} {r : Nat × B}
    (h : r ∈ applyAll rows ps) : r ∈ rows ∨ ∃ p ∈ ps, r = (p.2.1, p.2.2) := by
  induction ps generalizing rows with
  | nil => exact Or.inl h
  | cons q ps ih =>
    rcases ih (rows := upsertRow rows q.2.1 q.2.2) h with h1 | ⟨p, hp, e⟩
    · rcases mem_upsertRow h1 with e | h2
      · exact Or.inr ⟨q, by simp, e⟩
      · exact Or.inl h2
    · exact Or.inr ⟨p, List.mem_cons_of_mem _ hp, e⟩

/-- a single statement: the row of `id` afterwards is exactly `(id, b)` -/
theorem applyAll_single (rows : List (Nat × B)) (c id : Nat) (b : B) :
    (id, b) ∈ applyAll rows [(c, id, b)] := self_mem_upsertRow rows id b

theorem state_append (tr : List (Ev B)) (e : Ev B) : state (tr ++ [e]) = apply (state tr) e := by
  simp [state, List.foldl_append]

end Artap.Crash
