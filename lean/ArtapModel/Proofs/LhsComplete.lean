import ArtapModel.Proofs.Sampling
import Mathlib.Data.List.Perm.Subperm
/-!
# Completeness of the Latin-hypercube model (helper file; property theorems are in `Props/C12.lean`)

Given a Latin design `X` the permutations (`permsOf`: strata of the columns) and the uniform draws (`uOf`:
position inside the stratum) are recovered and the model reproduces `X` – so "the model admits the observed
design" is exactly the Latin check.  The pigeonhole step (N strata, each hit once, N samples ⇒ the strata list is
a permutation) uses `List.subperm_of_subset` / `List.Subperm.perm_of_length_le`.
-/
namespace Artap.Sampling

/-- The plain Latin property (conclusion of `lhs_latin`). -/
def IsLatin (N : Nat) (bounds : List (Rat × Rat)) (X : List (List Rat)) : Prop :=
  X.length = N ∧ (∀ row ∈ X, row.length = bounds.length) ∧
  ∀ (j : Nat) (b : Rat × Rat), bounds[j]? = some b → ∀ s : Nat, s < N →
    ∃! i : Nat, ∃ x, entry X i j = some x ∧ InStratum N b.1 b.2 s x

def xval (X : List (List Rat)) (i j : Nat) : Rat := (entry X i j).getD 0

/-- stratum (as a natural number) of sample `i` in column `j` -/
def strat (N : Nat) (bounds : List (Rat × Rat)) (X : List (List Rat)) (j i : Nat) : Nat :=
  match bounds[j]? with
  | some b => (stratum N b.1 b.2 (xval X i j)).toNat
  | none => 0

def permOf (N : Nat) (bounds : List (Rat × Rat)) (X : List (List Rat)) (j : Nat) : List Nat :=
  (List.range N).map (strat N bounds X j)

def uval (N : Nat) (bounds : List (Rat × Rat)) (X : List (List Rat)) (s j : Nat) : Rat :=
  match bounds[j]? with
  | some b => (N : Rat) * ((xval X ((permOf N bounds X j).idxOf s) j - b.1) / (b.2 - b.1)) - s
  | none => 0

def uOf (N : Nat) (bounds : List (Rat × Rat)) (X : List (List Rat)) : List (List Rat) :=
  (List.range N).map fun s => (List.range bounds.length).map fun j => uval N bounds X s j

def permsOf (N : Nat) (bounds : List (Rat × Rat)) (X : List (List Rat)) : List (List Nat) :=
  (List.range bounds.length).map (permOf N bounds X)

section
variable {N : Nat} {bounds : List (Rat × Rat)} {X : List (List Rat)}

theorem entry_lt_of_some {i j : Nat} {x : Rat} (h : entry X i j = some x) : i < X.length := by
  unfold entry at h
  by_contra hi
  rw [List.getElem?_eq_none (Nat.le_of_not_lt hi)] at h
  simp at h

theorem entry_xval (hL : IsLatin N bounds X) {i j : Nat} (hi : i < N) (hj : j < bounds.length) :
    entry X i j = some (xval X i j) := by
  obtain ⟨h1, h2, _⟩ := hL
  have hi' : i < X.length := h1 ▸ hi
  have hj' : j < X[i].length := by rw [h2 _ (List.getElem_mem hi')]; exact hj
  unfold xval entry
  rw [List.getElem?_eq_getElem hi']
  simp [List.getElem?_eq_getElem hj']

theorem strat_eq {j : Nat} {b : Rat × Rat} (hjb : bounds[j]? = some b) (i : Nat) :
    strat N bounds X j i = (stratum N b.1 b.2 (xval X i j)).toNat := by
  unfold strat; rw [hjb]

theorem permOf_perm (hN : 0 < N) (hb : ∀ b ∈ bounds, b.1 < b.2) (hL : IsLatin N bounds X) {j : Nat}
    {b : Rat × Rat} (hjb : bounds[j]? = some b) : (permOf N bounds X j).Perm (List.range N) := by
  have hj : j < bounds.length := (List.getElem?_eq_some_iff.mp hjb).1
  have hblt := hb b (List.mem_of_getElem? hjb)
  have hsub : List.range N ⊆ permOf N bounds X j := by
    intro s hs
    have hs' : s < N := List.mem_range.mp hs
    obtain ⟨i, ⟨x, hx, hin⟩, _⟩ := hL.2.2 j b hjb s hs'
    have hi : i < N := hL.1 ▸ entry_lt_of_some hx
    have hxv : xval X i j = x := by unfold xval; rw [hx]; rfl
    refine List.mem_map.mpr ⟨i, List.mem_range.mpr hi, ?_⟩
    rw [strat_eq hjb, hxv, (stratum_eq_iff hN hblt).mpr hin]
    simp
  have := (List.subperm_of_subset List.nodup_range hsub).perm_of_length_le (by simp [permOf])
  exact this.symm

theorem permOf_get {j i : Nat} (hi : i < N) :
    (permOf N bounds X j)[i]? = some (strat N bounds X j i) := by
  simp [permOf, hi]

theorem strat_inStratum (hN : 0 < N) (hb : ∀ b ∈ bounds, b.1 < b.2) (hL : IsLatin N bounds X) {j i : Nat}
    {b : Rat × Rat} (hjb : bounds[j]? = some b) (hi : i < N) :
    strat N bounds X j i < N ∧ InStratum N b.1 b.2 (strat N bounds X j i) (xval X i j) := by
  have hblt := hb b (List.mem_of_getElem? hjb)
  have hperm := permOf_perm hN hb hL hjb
  have hmem : strat N bounds X j i ∈ permOf N bounds X j :=
    List.mem_map.mpr ⟨i, List.mem_range.mpr hi, rfl⟩
  have ht : strat N bounds X j i < N := List.mem_range.mp (hperm.mem_iff.mp hmem)
  refine ⟨ht, ?_⟩
  obtain ⟨i', ⟨x, hx, hin⟩, _⟩ := hL.2.2 j b hjb _ ht
  have hi' : i' < N := hL.1 ▸ entry_lt_of_some hx
  have hxv : xval X i' j = x := by unfold xval; rw [hx]; rfl
  have hs' : strat N bounds X j i' = strat N bounds X j i := by
    rw [strat_eq hjb i', hxv, (stratum_eq_iff hN hblt).mpr hin]; simp
  have hnd : (permOf N bounds X j).Nodup := hperm.nodup_iff.mpr List.nodup_range
  have hlen : i' < (permOf N bounds X j).length := by simp [permOf, hi']
  have : i' = i := (List.getElem?_inj hlen hnd).mp (by rw [permOf_get hi', permOf_get hi, hs'])
  subst this
  rw [hxv]; exact hin

theorem idxOf_strat (hN : 0 < N) (hb : ∀ b ∈ bounds, b.1 < b.2) (hL : IsLatin N bounds X) {j i : Nat}
    {b : Rat × Rat} (hjb : bounds[j]? = some b) (hi : i < N) :
    (permOf N bounds X j).idxOf (strat N bounds X j i) = i := by
  have hperm := permOf_perm hN hb hL hjb
  have hnd : (permOf N bounds X j).Nodup := hperm.nodup_iff.mpr List.nodup_range
  have hlen : i < (permOf N bounds X j).length := by simp [permOf, hi]
  have := hnd.idxOf_getElem i hlen
  have e : (permOf N bounds X j)[i] = strat N bounds X j i := by
    have := permOf_get (bounds := bounds) (X := X) (j := j) hi
    rw [List.getElem?_eq_getElem hlen] at this
    exact Option.some.inj this
  rwa [e] at this

theorem uval_unit (hN : 0 < N) (hb : ∀ b ∈ bounds, b.1 < b.2) (hL : IsLatin N bounds X) {s j : Nat}
    (hs : s < N) (hj : j < bounds.length) : 0 ≤ uval N bounds X s j ∧ uval N bounds X s j < 1 := by
  have hjb : bounds[j]? = some bounds[j] := List.getElem?_eq_getElem hj
  have hblt := hb _ (List.getElem_mem hj)
  have hperm := permOf_perm hN hb hL hjb
  have hmem : s ∈ permOf N bounds X j := hperm.mem_iff.mpr (List.mem_range.mpr hs)
  have hidx : (permOf N bounds X j).idxOf s < (permOf N bounds X j).length := List.idxOf_lt_length_of_mem hmem
  have hi : (permOf N bounds X j).idxOf s < N := by simpa [permOf] using hidx
  have hget := List.getElem_idxOf hidx
  have hst : strat N bounds X j ((permOf N bounds X j).idxOf s) = s := by
    have := permOf_get (bounds := bounds) (X := X) (j := j) hi
    rw [List.getElem?_eq_getElem hidx, hget] at this
    exact (Option.some.inj this).symm
  have hin := (strat_inStratum hN hb hL hjb hi).2
  rw [hst] at hin
  have hN' : (N : Rat) ≠ 0 := by exact_mod_cast hN.ne'
  have hd : bounds[j].2 - bounds[j].1 ≠ 0 := by intro h; linarith
  set x := xval X ((permOf N bounds X j).idxOf s) j with hxdef
  have hx : x = bounds[j].1 + ((N : Rat) * ((x - bounds[j].1) / (bounds[j].2 - bounds[j].1))) *
      ((bounds[j].2 - bounds[j].1) / N) := by
    field_simp; ring
  have := (inStratum_of_scaled hN hblt hx).mp hin
  unfold uval
  rw [hjb]
  simp only []
  rw [← hxdef]
  constructor <;> linarith [this.1, this.2]

theorem lhsEntry_recovered (hN : 0 < N) (hb : ∀ b ∈ bounds, b.1 < b.2) (hL : IsLatin N bounds X) {i j : Nat}
    (hi : i < N) (hj : j < bounds.length) :
    lhsEntry N (uOf N bounds X) (permsOf N bounds X) i j =
      some (rdpoint N (strat N bounds X j i) (uval N bounds X (strat N bounds X j i) j)) := by
  have hjb : bounds[j]? = some bounds[j] := List.getElem?_eq_getElem hj
  have hs := (strat_inStratum hN hb hL hjb hi).1
  unfold lhsEntry
  have h1 : (permsOf N bounds X)[j]? = some (permOf N bounds X j) := by simp [permsOf, hj]
  have h2 : (uOf N bounds X)[strat N bounds X j i]? =
      some ((List.range bounds.length).map fun j' => uval N bounds X (strat N bounds X j i) j') := by
    simp [uOf, hs]
  simp [h1, permOf_get hi, h2, hj]

theorem affine_recovered (hN : 0 < N) (hb : ∀ b ∈ bounds, b.1 < b.2) (hL : IsLatin N bounds X) {i j : Nat}
    (hi : i < N) (hj : j < bounds.length) :
    affine bounds[j].1 bounds[j].2
      (rdpoint N (strat N bounds X j i) (uval N bounds X (strat N bounds X j i) j)) = xval X i j := by
  have hjb : bounds[j]? = some bounds[j] := List.getElem?_eq_getElem hj
  have hblt := hb _ (List.getElem_mem hj)
  have hN' : (N : Rat) ≠ 0 := by exact_mod_cast hN.ne'
  have hd : bounds[j].2 - bounds[j].1 ≠ 0 := by intro h; linarith
  rw [affine_rdpoint hN hblt]
  unfold uval
  rw [hjb]
  simp only []
  rw [idxOf_strat hN hb hL hjb hi]
  field_simp
  ring

theorem mapRow_zipWith : ∀ {ws : List Rat} {bs : List (Rat × Rat)}, ws.length ≤ bs.length →
    mapRow ws bs = some (List.zipWith (fun w b => affine b.1 b.2 w) ws bs)
  | [], _, _ => by simp [mapRow]
  | _ :: _, [], h => by simp at h
  | w :: ws, b :: bs, h => by
    simp only [mapRow, List.zipWith_cons_cons]
    rw [mapRow_zipWith (by simpa using h)]
    rfl

/-- **LHS completeness**: every Latin design is produced by the model for suitable draws. -/
theorem lhs_complete_aux (hN : 0 < N) (hb : ∀ b ∈ bounds, b.1 < b.2) (hL : IsLatin N bounds X) :
    (∀ row ∈ uOf N bounds X, ∀ x ∈ row, 0 ≤ x ∧ x < 1) ∧
    (∀ p ∈ permsOf N bounds X, p.Perm (List.range N)) ∧
    buildLhs N bounds (uOf N bounds X) (permsOf N bounds X) = some X := by
  refine ⟨?_, ?_, ?_⟩
  · intro row hrow x hx
    obtain ⟨s, hs, rfl⟩ := List.mem_map.mp hrow
    obtain ⟨j, hj, rfl⟩ := List.mem_map.mp hx
    exact uval_unit hN hb hL (List.mem_range.mp hs) (List.mem_range.mp hj)
  · intro p hp
    obtain ⟨j, hj, rfl⟩ := List.mem_map.mp hp
    exact permOf_perm hN hb hL (List.getElem?_eq_getElem (List.mem_range.mp hj))
  · have hunit : lhsUnit N bounds.length (uOf N bounds X) (permsOf N bounds X) =
        some ((List.range N).map fun i => (List.range bounds.length).map fun j =>
          rdpoint N (strat N bounds X j i) (uval N bounds X (strat N bounds X j i) j)) := by
      unfold lhsUnit
      rw [← allSome_map_some]
      congr 1
      apply List.map_congr_left
      intro i hi
      rw [← allSome_map_some]
      congr 1
      apply List.map_congr_left
      intro j hj
      exact lhsEntry_recovered hN hb hL (List.mem_range.mp hi) (List.mem_range.mp hj)
    simp only [buildLhs, hunit, Option.bind_eq_bind, Option.bind_some]
    unfold constructDf
    rw [List.map_map]
    have hX : X = (List.range N).map fun i => (List.range bounds.length).map fun j => xval X i j := by
      apply List.ext_getElem
      · simp [hL.1]
      · intro i h1 h2
        have hi : i < N := hL.1 ▸ h1
        simp only [List.getElem_map, List.getElem_range]
        apply List.ext_getElem
        · simp [hL.2.1 _ (List.getElem_mem h1)]
        · intro j h3 h4
          have hj : j < bounds.length := by simpa using h4
          simp only [List.getElem_map, List.getElem_range]
          have := entry_xval hL hi hj
          unfold entry at this
          rw [List.getElem?_eq_getElem h1] at this
          simp only [Option.bind_some, List.getElem?_eq_getElem h3] at this
          exact Option.some.inj this
    conv_rhs => rw [hX]
    rw [← allSome_map_some]
    congr 1
    apply List.map_congr_left
    intro i hi
    have hi' : i < N := List.mem_range.mp hi
    simp only [Function.comp]
    rw [mapRow_zipWith (by simp)]
    congr 1
    apply List.ext_getElem
    · simp
    · intro j h1 h2
      have hj : j < bounds.length := by simpa using h2
      simp only [List.getElem_zipWith, List.getElem_map, List.getElem_range]
      exact affine_recovered hN hb hL hi' hj

end
end Artap.Sampling
