import ArtapModel.Model.Store
/-!
# Helper lemmas for the store model (C10; reusable for C11/C07)
-/
namespace Artap.Store

/-! ## Python dict -/

theorem dictGet_dictSet_same {β} (d : List (String × β)) (k : String) (v : β) :
    dictGet (dictSet d k v) k = some v := by
  induction d with
  | nil => simp [dictSet, dictGet]
  | cons kv r ih =>
    obtain ⟨k', v'⟩ := kv
    by_cases h : k' = k
    · simp [dictSet, dictGet, h]
    · simp [dictSet, dictGet, h, ih]

theorem dictGet_dictSet_other {β} (d : List (String × β)) (k k2 : String) (v : β) (h : k ≠ k2) :
    dictGet (dictSet d k v) k2 = dictGet d k2 := by
  induction d with
  | nil => simp [dictSet, dictGet, h]
  | cons kv r ih =>
    obtain ⟨k', v'⟩ := kv
    by_cases h1 : k' = k
    · subst h1
      simp [dictSet, dictGet, h]
    · by_cases h2 : k' = k2
      · subst h2
        simp [dictSet, dictGet, h1]
      · simp [dictSet, dictGet, h1, h2, ih]

/-! ## upsert / lookup -/

def ids (s : Store) : List Int := s.map (·.1)

theorem lookup_upsert_same (s : Store) (id : Int) (b : J) : lookup (upsert s id b) id = some b := by
  induction s with
  | nil => simp [upsert, lookup]
  | cons r t ih =>
    obtain ⟨k, b'⟩ := r
    by_cases h : k = id
    · simp [upsert, lookup, h]
    · simp [upsert, lookup, h, ih]

theorem lookup_upsert_other (s : Store) (id id2 : Int) (b : J) (h : id ≠ id2) :
    lookup (upsert s id b) id2 = lookup s id2 := by
  induction s with
  | nil => simp [upsert, lookup, h]
  | cons r t ih =>
    obtain ⟨k, b'⟩ := r
    by_cases h1 : k = id
    · subst h1
      simp [upsert, lookup, h]
    · by_cases h2 : k = id2
      · subst h2
        simp [upsert, lookup, h1]
      · simp [upsert, lookup, h1, h2, ih]

theorem mem_ids_upsert (s : Store) (id k : Int) (b : J) :
    k ∈ ids (upsert s id b) ↔ k = id ∨ k ∈ ids s := by
  induction s with
  | nil => simp [upsert, ids]
  | cons r t ih =>
    obtain ⟨k', b'⟩ := r
    by_cases h1 : k' = id
    · subst h1
      simp [upsert, ids]
    · simp only [ids] at ih
      simp [upsert, ids, h1, ih]
      constructor
      · rintro (h | h | h) <;> simp [h]
      · rintro (h | h | h) <;> simp [h]

theorem nodup_ids_upsert (s : Store) (id : Int) (b : J) (h : (ids s).Nodup) :
    (ids (upsert s id b)).Nodup := by
  induction s with
  | nil => simp [upsert, ids]
  | cons r t ih =>
    obtain ⟨k', b'⟩ := r
    simp only [ids, List.map_cons, List.nodup_cons] at h
    by_cases h1 : k' = id
    · subst h1
      simpa [upsert, ids] using h
    · have ih' := ih h.2
      have hm := mem_ids_upsert t id k' b
      simp only [ids] at ih' hm
      simp [upsert, ids, h1, ih', hm, h.1]

theorem length_upsert (s : Store) (id : Int) (b : J) :
    (upsert s id b).length = if id ∈ ids s then s.length else s.length + 1 := by
  induction s with
  | nil => simp [upsert, ids]
  | cons r t ih =>
    obtain ⟨k', b'⟩ := r
    by_cases h1 : k' = id
    · subst h1
      simp [upsert, ids]
    · have : ¬ id = k' := fun h => h1 h.symm
      simp only [ids] at ih
      simp only [upsert, h1, if_false, List.length_cons, ih, ids, List.map_cons, List.mem_cons, this, false_or]
      by_cases hm : id ∈ List.map (fun x => x.fst) t <;> simp [hm]

theorem lookup_isSome_iff (s : Store) (id : Int) : (lookup s id).isSome ↔ id ∈ ids s := by
  induction s with
  | nil => simp [lookup, ids]
  | cons r t ih =>
    obtain ⟨k', b'⟩ := r
    by_cases h1 : k' = id
    · simp [lookup, ids, h1]
    · have : ¬ id = k' := fun h => h1 h.symm
      simp only [ids] at ih
      simp [lookup, ids, h1, ih, this]

end Artap.Store

namespace Artap.Store

/-! ## `_replace_individual_id` on the values the framework writes -/

mutual
/-- numbers, `None`, booleans, references to individuals and (nested) lists of those:
what the framework's algorithms put into `features`, `parents` and `children`. -/
def J.plain : J → Bool
  | .str _ => false
  | .obj _ => false
  | .arr xs => plainL xs
  | _ => true
def plainL : List J → Bool
  | [] => true
  | x :: xs => x.plain && plainL xs
end

mutual
/-- the value with every individual replaced by its id -/
def J.subst : J → J
  | .ind id => .int id
  | .arr xs => .arr (substL xs)
  | j => j
def substL : List J → List J
  | [] => []
  | x :: xs => x.subst :: substL xs
end

theorem substL_eq_map (xs : List J) : substL xs = xs.map J.subst := by
  induction xs with
  | nil => simp [substL]
  | cons x xs ih => simp [substL, ih]

theorem plainL_eq_all (xs : List J) : plainL xs = xs.all J.plain := by
  induction xs with
  | nil => simp [plainL]
  | cons x xs ih => simp [plainL, ih]

theorem jsonableL_eq_all (xs : List J) : jsonableL xs = xs.all J.jsonable := by
  induction xs with
  | nil => simp [jsonableL]
  | cons x xs ih => simp [jsonableL, ih]

theorem jsonableK_eq_all (kvs : List (String × J)) : jsonableK kvs = kvs.all (fun kv => kv.2.jsonable) := by
  induction kvs with
  | nil => simp [jsonableK]
  | cons kv r ih => obtain ⟨k, v⟩ := kv; simp [jsonableK, ih]

mutual
theorem replaceIds_plain : ∀ j : J, j.plain = true → replaceIds j = some j.subst
  | .null, _ => by simp [replaceIds, J.subst]
  | .bool _, _ => by simp [replaceIds, J.subst]
  | .int _, _ => by simp [replaceIds, J.subst]
  | .flt _, _ => by simp [replaceIds, J.subst]
  | .ind _, _ => by simp [replaceIds, J.subst]
  | .str _, h => by simp [J.plain] at h
  | .obj _, h => by simp [J.plain] at h
  | .arr xs, h => by
    have h' : plainL xs = true := by simpa [J.plain] using h
    simp [replaceIds, J.subst, replaceIdsL_plain xs h']
theorem replaceIdsL_plain : ∀ xs : List J, plainL xs = true → replaceIdsL xs = some (substL xs)
  | [], _ => by simp [replaceIdsL, substL]
  | x :: xs, h => by
    have h' : x.plain = true ∧ plainL xs = true := by simpa [plainL] using h
    simp [replaceIdsL, substL, replaceIds_plain x h'.1, replaceIdsL_plain xs h'.2]
end

mutual
/-- Whatever `_replace_individual_id` returns is JSON-able (no individual is left). -/
theorem replaceIds_jsonable : ∀ (j r : J), replaceIds j = some r → r.jsonable = true
  | .null, r, h => by simp [replaceIds] at h; subst h; simp [J.jsonable]
  | .bool _, r, h => by simp [replaceIds] at h; subst h; simp [J.jsonable]
  | .int _, r, h => by simp [replaceIds] at h; subst h; simp [J.jsonable]
  | .flt _, r, h => by simp [replaceIds] at h; subst h; simp [J.jsonable]
  | .ind _, r, h => by simp [replaceIds] at h; subst h; simp [J.jsonable]
  | .str s, r, h => by
    by_cases hs : s = ""
    · simp [replaceIds, hs] at h; subst h; simp [J.jsonable, jsonableL]
    · simp [replaceIds, hs] at h
  | .obj kvs, r, h => by
    by_cases hk : (kvs.all fun kv => kv.1 = "") = true
    · simp only [replaceIds, hk, if_true, Option.some.injEq] at h
      subst h
      simp [J.jsonable, jsonableL_eq_all, jsonableL]
    · simp [replaceIds, hk] at h
  | .arr xs, r, h => by
    cases hx : replaceIdsL xs with
    | none => simp [replaceIds, hx] at h
    | some ys =>
      simp [replaceIds, hx] at h
      subst h
      simpa [J.jsonable] using replaceIdsL_jsonable xs ys hx
theorem replaceIdsL_jsonable : ∀ (xs ys : List J), replaceIdsL xs = some ys → jsonableL ys = true
  | [], ys, h => by simp [replaceIdsL] at h; subst h; simp [jsonableL]
  | x :: xs, ys, h => by
    cases hx : replaceIds x with
    | none => simp [replaceIdsL, hx] at h
    | some y =>
      cases hxs : replaceIdsL xs with
      | none => simp [replaceIdsL, hx, hxs] at h
      | some ys' =>
        simp [replaceIdsL, hx, hxs] at h
        subst h
        simp [jsonableL, replaceIds_jsonable x y hx, replaceIdsL_jsonable xs ys' hxs]
end

theorem replaceFeatures_jsonable (fs fs' : List (String × J)) (h : replaceFeatures fs = some fs') :
    jsonableK fs' = true := by
  induction fs generalizing fs' with
  | nil => simp [replaceFeatures] at h; subst h; simp [jsonableK]
  | cons kv r ih =>
    obtain ⟨k, v⟩ := kv
    cases hv : replaceIds v with
    | none => simp [replaceFeatures, hv] at h
    | some v' =>
      cases hr : replaceFeatures r with
      | none => simp [replaceFeatures, hv, hr] at h
      | some r' =>
        simp [replaceFeatures, hv, hr] at h
        subst h
        simp [jsonableK, replaceIds_jsonable v v' hv, ih r' hr]

/-- All feature values plain ⇒ the `features` loop succeeds and substitutes ids key by key. -/
theorem replaceFeatures_plain (fs : List (String × J)) (h : ∀ kv ∈ fs, kv.2.plain = true) :
    replaceFeatures fs = some (fs.map fun kv => (kv.1, kv.2.subst)) := by
  induction fs with
  | nil => simp [replaceFeatures]
  | cons kv r ih =>
    obtain ⟨k, v⟩ := kv
    have hv : v.plain = true := h (k, v) (by simp)
    have hr := ih (fun kv hkv => h kv (by simp [hkv]))
    simp [replaceFeatures, replaceIds_plain v hv, hr]

end Artap.Store

namespace Artap.Store

/-! ## encode / decode -/

/-- The view a read-mode store must expose of a snapshot whose features became `fs`. -/
def viewOf (i : Ind) (fs : List (String × J)) : View :=
  ⟨.int i.id, .arr i.vector, .arr i.costs, stateJ i.state, i.costsSigned, i.populationId,
   i.algorithmId, i.custom, .obj fs⟩

/-- The document `to_dict` builds, written out. -/
def blobOf (i : Ind) (ps cs : List J) (fs : List (String × J)) : J :=
  .obj [("id", .int i.id), ("vector", .arr i.vector), ("costs", .arr i.costs),
        ("costs_signed", i.costsSigned), ("state", stateJ i.state),
        ("population_id", i.populationId), ("algorithm_id", i.algorithmId),
        ("custom", i.custom), ("features", .obj fs), ("parents", .arr ps), ("children", .arr cs)]

theorem toDict_eq (i : Ind) (d : J) (h : toDict i = some d) :
    ∃ ps cs fs, replaceIdsL i.parents = some ps ∧ replaceIdsL i.children = some cs ∧
      replaceFeatures i.features = some fs ∧ d = blobOf i ps cs fs := by
  unfold toDict at h
  cases hp : replaceIdsL i.parents with
  | none => simp [hp] at h
  | some ps =>
    cases hc : replaceIdsL i.children with
    | none => simp [hp, hc] at h
    | some cs =>
      cases hf : replaceFeatures i.features with
      | none => simp [hp, hc, hf] at h
      | some fs =>
        simp only [hp, hc, hf, Option.some.injEq] at h
        refine ⟨ps, cs, fs, rfl, rfl, rfl, ?_⟩
        rw [← h]
        simp [blobOf, dictSet]

theorem encode_eq (i : Ind) (b : J) (h : encode i = some b) :
    ∃ ps cs fs, replaceIdsL i.parents = some ps ∧ replaceIdsL i.children = some cs ∧
      replaceFeatures i.features = some fs ∧ b = blobOf i ps cs fs ∧ b.jsonable = true := by
  unfold encode at h
  cases hd : toDict i with
  | none => simp [hd] at h
  | some d =>
    simp only [hd, jsonRoundTrip] at h
    by_cases hj : d.jsonable = true
    · simp only [hj, if_true, Option.some.injEq] at h
      subst h
      obtain ⟨ps, cs, fs, h1, h2, h3, h4⟩ := toDict_eq i d hd
      exact ⟨ps, cs, fs, h1, h2, h3, h4, hj⟩
    · simp [hj] at h

theorem decode_blobOf (i : Ind) (ps cs : List J) (fs : List (String × J)) :
    decode (blobOf i ps cs fs) = some (viewOf i fs) := by
  simp [decode, blobOf, dictGet, viewOf]

/-- Inside the quantifier `to_dict` and `json.dumps` succeed. -/
theorem encode_of_wf (i : Ind)
    (hv : jsonableL i.vector = true) (hc : jsonableL i.costs = true)
    (hs : i.costsSigned.jsonable = true) (hp : i.populationId.jsonable = true)
    (ha : i.algorithmId.jsonable = true) (hcu : i.custom.jsonable = true)
    (hf : ∀ kv ∈ i.features, kv.2.plain = true)
    (hpa : plainL i.parents = true) (hch : plainL i.children = true) :
    encode i = some (blobOf i (substL i.parents) (substL i.children)
      (i.features.map fun kv => (kv.1, kv.2.subst))) := by
  have h1 := replaceIdsL_plain i.parents hpa
  have h2 := replaceIdsL_plain i.children hch
  have h3 := replaceFeatures_plain i.features hf
  have hd : toDict i = some (blobOf i (substL i.parents) (substL i.children)
      (i.features.map fun kv => (kv.1, kv.2.subst))) := by
    unfold toDict
    simp only [h1, h2, h3]
    simp [blobOf, dictSet]
  have hst : (stateJ i.state).jsonable = true := by
    cases i.state with
    | none => simp [stateJ, J.jsonable]
    | some st => cases st <;> simp [stateJ, J.jsonable]
  have hj : (blobOf i (substL i.parents) (substL i.children)
      (i.features.map fun kv => (kv.1, kv.2.subst))).jsonable = true := by
    simp [blobOf, J.jsonable, jsonableK, hv, hc, hs, hp, ha, hcu, hst,
      replaceFeatures_jsonable _ _ h3, replaceIdsL_jsonable _ _ h1, replaceIdsL_jsonable _ _ h2]
  simp [encode, hd, jsonRoundTrip, hj]

end Artap.Store

namespace Artap.Store

/-! ## Histories as lists of writes -/

/-- the `(id, document)` pairs a list of individuals writes; `none` if one of them raises -/
def indWrites : List Ind → Option (List Row)
  | [] => some []
  | i :: r =>
    match encode i, indWrites r with
    | some b, some ws => some ((i.id, b) :: ws)
    | _, _ => none

def opInds : Op → List Ind
  | .syncInd i => [i]
  | .syncAll inds => inds

/-- every individual snapshot of a history, in the order it is written -/
def historyInds : List Op → List Ind
  | [] => []
  | o :: r => opInds o ++ historyInds r

def applyWrites (s : Store) : List Row → Store
  | [] => s
  | (k, b) :: r => applyWrites (upsert s k b) r

/-- the document of the last write to `id` in a list of writes -/
def lastWrite : List Row → Int → Option J
  | [], _ => none
  | (k, b) :: r, id =>
    match lastWrite r id with
    | some b' => some b'
    | none => if k = id then some b else none

theorem applyWrites_append (s : Store) (a b : List Row) :
    applyWrites s (a ++ b) = applyWrites (applyWrites s a) b := by
  induction a generalizing s with
  | nil => simp [applyWrites]
  | cons w r ih => obtain ⟨k, x⟩ := w; simp [applyWrites, ih]

theorem indWrites_append (a b : List Ind) :
    indWrites (a ++ b) = match indWrites a, indWrites b with
      | some x, some y => some (x ++ y)
      | _, _ => none := by
  induction a with
  | nil => cases hb : indWrites b <;> simp [indWrites, hb]
  | cons i r ih =>
    simp only [List.cons_append, indWrites, ih]
    cases encode i <;> cases indWrites r <;> cases indWrites b <;> simp

theorem syncAll_eq (s : Store) (inds : List Ind) :
    syncAll s inds = (indWrites inds).map (applyWrites s) := by
  induction inds generalizing s with
  | nil => simp [syncAll, indWrites, applyWrites]
  | cons i r ih =>
    cases he : encode i with
    | none => simp [syncAll, syncIndividual, indWrites, he]
    | some b =>
      simp only [syncAll, syncIndividual, he, ih, indWrites]
      cases indWrites r <;> simp [applyWrites]

theorem step_eq (s : Store) (o : Op) : step s o = (indWrites (opInds o)).map (applyWrites s) := by
  cases o with
  | syncInd i =>
    cases he : encode i <;> simp [step, syncIndividual, opInds, indWrites, he, applyWrites]
  | syncAll inds => simp [step, opInds, syncAll_eq]

/-- A history is the sequence of its writes: it succeeds iff every snapshot can be encoded and
then the table is the initial one with the writes applied in order. -/
theorem run_eq (s : Store) (ops : List Op) :
    run s ops = (indWrites (historyInds ops)).map (applyWrites s) := by
  induction ops generalizing s with
  | nil => simp [run, historyInds, indWrites, applyWrites]
  | cons o r ih =>
    simp only [run, step_eq, historyInds, indWrites_append]
    cases h1 : indWrites (opInds o) with
    | none => simp
    | some w1 =>
      simp only [Option.map_some, ih]
      cases h2 : indWrites (historyInds r) <;> simp [applyWrites_append]

theorem lookup_applyWrites (s : Store) (ws : List Row) (id : Int) :
    lookup (applyWrites s ws) id = match lastWrite ws id with
      | some b => some b
      | none => lookup s id := by
  induction ws generalizing s with
  | nil => simp [applyWrites, lastWrite]
  | cons w r ih =>
    obtain ⟨k, b⟩ := w
    simp only [applyWrites, ih, lastWrite]
    cases lastWrite r id with
    | some b' => simp
    | none =>
      by_cases hk : k = id
      · subst hk; simp [lookup_upsert_same]
      · simp [hk, lookup_upsert_other s k id b hk]

theorem nodup_applyWrites (s : Store) (ws : List Row) (h : (ids s).Nodup) :
    (ids (applyWrites s ws)).Nodup := by
  induction ws generalizing s with
  | nil => simpa [applyWrites] using h
  | cons w r ih => obtain ⟨k, b⟩ := w; exact ih _ (nodup_ids_upsert s k b h)

theorem mem_ids_applyWrites (s : Store) (ws : List Row) (k : Int) :
    k ∈ ids (applyWrites s ws) ↔ k ∈ ids s ∨ k ∈ ws.map (·.1) := by
  induction ws generalizing s with
  | nil => simp [applyWrites]
  | cons w r ih =>
    obtain ⟨k', b⟩ := w
    simp only [applyWrites, ih, mem_ids_upsert, List.map_cons, List.mem_cons]
    constructor
    · rintro ((h | h) | h) <;> simp [h]
    · rintro (h | h | h) <;> simp [h]

theorem indWrites_ids (inds : List Ind) (ws : List Row) (h : indWrites inds = some ws) :
    ws.map (·.1) = inds.map (·.id) := by
  induction inds generalizing ws with
  | nil => simp [indWrites] at h; subst h; simp
  | cons i r ih =>
    cases he : encode i with
    | none => simp [indWrites, he] at h
    | some b =>
      cases hr : indWrites r with
      | none => simp [indWrites, he, hr] at h
      | some ws' =>
        simp [indWrites, he, hr] at h
        subst h
        simp [ih ws' hr]

/-- The last write to an id stems from a snapshot in the list with that id. -/
theorem lastWrite_indWrites (inds : List Ind) (ws : List Row) (h : indWrites inds = some ws)
    (id : Int) (b : J) (hl : lastWrite ws id = some b) :
    ∃ j ∈ inds, j.id = id ∧ encode j = some b := by
  induction inds generalizing ws with
  | nil => simp [indWrites] at h; subst h; simp [lastWrite] at hl
  | cons i r ih =>
    cases he : encode i with
    | none => simp [indWrites, he] at h
    | some bi =>
      cases hr : indWrites r with
      | none => simp [indWrites, he, hr] at h
      | some ws' =>
        simp [indWrites, he, hr] at h
        subst h
        simp only [lastWrite] at hl
        cases hl' : lastWrite ws' id with
        | some b' =>
          simp only [hl', Option.some.injEq] at hl
          subst hl
          obtain ⟨j, hj, h1, h2⟩ := ih ws' hr hl'
          exact ⟨j, by simp [hj], h1, h2⟩
        | none =>
          simp only [hl'] at hl
          by_cases hk : i.id = id
          · simp only [hk, if_true, Option.some.injEq] at hl
            subst hl
            exact ⟨i, by simp, hk, he⟩
          · simp [hk] at hl

theorem lastWrite_isSome (ws : List Row) (id : Int) (h : id ∈ ws.map (·.1)) :
    (lastWrite ws id).isSome = true := by
  induction ws with
  | nil => simp at h
  | cons w r ih =>
    obtain ⟨k, b⟩ := w
    simp only [lastWrite]
    cases hl : lastWrite r id with
    | some b' => simp
    | none =>
      by_cases hk : k = id
      · simp [hk]
      · have : id ∈ r.map (·.1) := by
          simp only [List.map_cons, List.mem_cons] at h
          rcases h with h | h
          · exact absurd h.symm hk
          · exact h
        have := ih this
        simp [hl] at this

end Artap.Store

namespace Artap.Store

/-! ## The last snapshot of an id -/

def lastInd : List Ind → Int → Option Ind
  | [], _ => none
  | i :: r, id =>
    match lastInd r id with
    | some j => some j
    | none => if i.id = id then some i else none

theorem lastInd_mem (inds : List Ind) (id : Int) (j : Ind) (h : lastInd inds id = some j) :
    j ∈ inds ∧ j.id = id := by
  induction inds with
  | nil => simp [lastInd] at h
  | cons i r ih =>
    simp only [lastInd] at h
    cases hl : lastInd r id with
    | some j' =>
      simp only [hl, Option.some.injEq] at h
      subst h
      exact ⟨by simp [(ih hl).1], (ih hl).2⟩
    | none =>
      simp only [hl] at h
      by_cases hk : i.id = id
      · simp only [hk, if_true, Option.some.injEq] at h
        subst h
        exact ⟨by simp, hk⟩
      · simp [hk] at h

theorem lastInd_isSome (inds : List Ind) (id : Int) (h : id ∈ inds.map (·.id)) :
    (lastInd inds id).isSome = true := by
  induction inds with
  | nil => simp at h
  | cons i r ih =>
    simp only [lastInd]
    cases hl : lastInd r id with
    | some j => simp
    | none =>
      by_cases hk : i.id = id
      · simp [hk]
      · have : id ∈ r.map (·.id) := by
          simp only [List.map_cons, List.mem_cons] at h
          rcases h with h | h
          · exact absurd h.symm hk
          · exact h
        have := ih this
        simp [hl] at this

/-- a snapshot that is the only one with its id, or the last of several, is `lastInd` -/
theorem lastInd_of_all_equal (inds : List Ind) (i : Ind) (hi : i ∈ inds)
    (h : ∀ j ∈ inds, j.id = i.id → j = i) : lastInd inds i.id = some i := by
  have hs := lastInd_isSome inds i.id (by simp only [List.mem_map]; exact ⟨i, hi, rfl⟩)
  cases hl : lastInd inds i.id with
  | none => simp [hl] at hs
  | some j =>
    have := lastInd_mem inds i.id j hl
    rw [h j this.1 this.2]

theorem indWrites_encode_isSome (inds : List Ind) (ws : List Row) (h : indWrites inds = some ws) :
    ∀ j ∈ inds, ∃ b, encode j = some b := by
  induction inds generalizing ws with
  | nil => simp
  | cons i r ih =>
    cases he : encode i with
    | none => simp [indWrites, he] at h
    | some b =>
      cases hr : indWrites r with
      | none => simp [indWrites, he, hr] at h
      | some ws' =>
        intro j hj
        simp only [List.mem_cons] at hj
        rcases hj with hj | hj
        · subst hj; exact ⟨b, he⟩
        · exact ih ws' hr j hj

theorem lastWrite_eq_lastInd (inds : List Ind) (ws : List Row) (h : indWrites inds = some ws)
    (id : Int) : lastWrite ws id = (lastInd inds id).bind encode := by
  induction inds generalizing ws with
  | nil => simp [indWrites] at h; subst h; simp [lastWrite, lastInd]
  | cons i r ih =>
    cases he : encode i with
    | none => simp [indWrites, he] at h
    | some b =>
      cases hr : indWrites r with
      | none => simp [indWrites, he, hr] at h
      | some ws' =>
        simp [indWrites, he, hr] at h
        subst h
        simp only [lastWrite, lastInd, ih ws' hr]
        cases hl : lastInd r id with
        | some j =>
          obtain ⟨bj, hbj⟩ := indWrites_encode_isSome r ws' hr j (lastInd_mem r id j hl).1
          simp [hbj]
        | none =>
          by_cases hk : i.id = id <;> simp [hk, he]

/-! ## Rows of a table with distinct ids -/

theorem lookup_of_mem (s : Store) (k : Int) (b : J) (hn : (ids s).Nodup) (hm : (k, b) ∈ s) :
    lookup s k = some b := by
  induction s with
  | nil => simp at hm
  | cons r t ih =>
    obtain ⟨k', b'⟩ := r
    simp only [ids, List.map_cons, List.nodup_cons] at hn
    simp only [List.mem_cons, Prod.mk.injEq] at hm
    rcases hm with ⟨h1, h2⟩ | hm
    · subst h1; subst h2; simp [lookup]
    · have hk : k' ≠ k := by
        intro hkk
        subst hkk
        exact hn.1 (by simp only [List.mem_map]; exact ⟨(k', b), hm, rfl⟩)
      simp only [lookup, hk, if_false]
      exact ih hn.2 hm

theorem mem_of_lookup (s : Store) (k : Int) (b : J) (h : lookup s k = some b) : (k, b) ∈ s := by
  induction s with
  | nil => simp [lookup] at h
  | cons r t ih =>
    obtain ⟨k', b'⟩ := r
    by_cases hk : k' = k
    · simp only [lookup, hk, if_true, Option.some.injEq] at h
      subst h; subst hk; simp
    · simp only [lookup, hk, if_false] at h
      simp [ih h]

/-! ## Problem tables -/

theorem dictGet_isSome_iff {β} (d : List (String × β)) (k : String) :
    (dictGet d k).isSome = true ↔ k ∈ d.map (·.1) := by
  induction d with
  | nil => simp [dictGet]
  | cons kv r ih =>
    obtain ⟨k', v⟩ := kv
    by_cases h : k' = k
    · simp [dictGet, h]
    · have : ¬ k = k' := fun e => h e.symm
      simp [dictGet, h, ih, this]

theorem insertDefs_spec (t : List (String × J)) (ps : List J) (t' : List (String × J))
    (h : insertDefs t ps = some t') :
    t'.map (·.2) = t.map (·.2) ++ ps ∧
    ((t.map (·.1)).Nodup → (t'.map (·.1)).Nodup) ∧
    (∀ p ∈ ps, p.jsonable = true ∧ ∃ n, nameOf p = some n ∧ n ∈ t'.map (·.1)) ∧
    (∀ n ∈ t.map (·.1), n ∈ t'.map (·.1)) := by
  induction ps generalizing t with
  | nil =>
    simp only [insertDefs, Option.some.injEq] at h
    subst h
    simp
  | cons p r ih =>
    simp only [insertDefs] at h
    cases hn : nameOf p with
    | none => simp [hn] at h
    | some n =>
      by_cases hj : p.jsonable = true
      · simp only [hn, jsonRoundTrip, hj, if_true] at h
        by_cases hd : (dictGet t n).isSome = true
        · simp [hd] at h
        · simp only [hd] at h
          have hnot : n ∉ t.map (·.1) := fun hm => hd ((dictGet_isSome_iff t n).2 hm)
          obtain ⟨h1, h2, h3, h4⟩ := ih (t ++ [(n, p)]) h
          refine ⟨by simpa using h1, ?_, ?_, ?_⟩
          · intro hnd
            apply h2
            simp only [List.map_append, List.map_cons, List.map_nil]
            rw [List.nodup_append]
            refine ⟨hnd, by simp, ?_⟩
            intro a ha b hb
            simp only [List.mem_cons, List.not_mem_nil, or_false] at hb
            subst hb
            intro hab
            subst hab
            exact hnot ha
          · intro q hq
            simp only [List.mem_cons] at hq
            rcases hq with hq | hq
            · subst hq
              exact ⟨hj, n, hn, h4 n (by simp)⟩
            · exact h3 q hq
          · intro m hm
            exact h4 m (by simp only [List.map_append, List.mem_append]; exact Or.inl hm)
      · simp [hn, jsonRoundTrip, hj] at h

theorem createStructure_spec (p : ProblemDef) (f : File) (h : createStructure p = some f) :
    f.main = [(p.name, p.description)] ∧ f.parameters.map (·.2) = p.parameters ∧
    f.costs.map (·.2) = p.costs ∧ f.individuals = [] ∧
    (f.parameters.map (·.1)).Nodup ∧ (f.costs.map (·.1)).Nodup := by
  unfold createStructure at h
  cases hp : insertDefs [] p.parameters with
  | none => simp [hp] at h
  | some ps =>
    cases hc : insertDefs [] p.costs with
    | none => simp [hp, hc] at h
    | some cs =>
      simp only [hp, hc, Option.some.injEq] at h
      subst h
      have a := insertDefs_spec [] p.parameters ps hp
      have b := insertDefs_spec [] p.costs cs hc
      exact ⟨rfl, by simpa using a.1, by simpa using b.1, rfl, a.2.1 (by simp), b.2.1 (by simp)⟩

/-! ## Reading all rows -/

theorem decodeAll_spec (s : Store) (vs : List View) (h : decodeAll s = some vs) :
    s.map (fun r => decode r.2) = vs.map some := by
  induction s generalizing vs with
  | nil => simp [decodeAll] at h; subst h; simp
  | cons r t ih =>
    obtain ⟨k, b⟩ := r
    cases hd : decode b with
    | none => simp [decodeAll, hd] at h
    | some v =>
      cases ht : decodeAll t with
      | none => simp [decodeAll, hd, ht] at h
      | some vt =>
        simp [decodeAll, hd, ht] at h
        subst h
        simp [hd, ih vt ht]

theorem decodeAll_of_forall (s : Store) (f : Row → View) (h : ∀ r ∈ s, decode r.2 = some (f r)) :
    decodeAll s = some (s.map f) := by
  induction s with
  | nil => simp [decodeAll]
  | cons r t ih =>
    obtain ⟨k, b⟩ := r
    have h1 := h (k, b) (by simp)
    have h2 := ih (fun r hr => h r (by simp [hr]))
    simp only at h1
    simp [decodeAll, h1, h2]

end Artap.Store

namespace Artap.Store

/-! ## A whole session: create, synchronise, read back -/

theorem ids_of_decodeAll (s : Store) (vs : List View) (h : decodeAll s = some vs)
    (hrow : ∀ r ∈ s, ∀ v, decode r.2 = some v → v.id = .int r.1) :
    vs.map (·.id) = s.map (fun r => J.int r.1) := by
  induction s generalizing vs with
  | nil => simp [decodeAll] at h; subst h; simp
  | cons r t ih =>
    obtain ⟨k, b⟩ := r
    cases hd : decode b with
    | none => simp [decodeAll, hd] at h
    | some v =>
      cases ht : decodeAll t with
      | none => simp [decodeAll, hd, ht] at h
      | some vt =>
        simp [decodeAll, hd, ht] at h
        subst h
        have h1 := hrow (k, b) (by simp) v hd
        have h2 := ih vt ht (fun r hr => hrow r (by simp [hr]))
        simp only at h1
        simp [h1, h2]

/-- Every row of a table built from the empty one by a history is the document of the last
snapshot of its id. -/
theorem row_of_history (inds : List Ind) (ws : List Row) (hw : indWrites inds = some ws)
    (k : Int) (b : J) (hm : (k, b) ∈ applyWrites [] ws) :
    ∃ i, lastInd inds k = some i ∧ encode i = some b ∧ i.id = k := by
  have hn : (ids (applyWrites [] ws)).Nodup := nodup_applyWrites [] ws (by simp [ids])
  have hl := lookup_of_mem _ k b hn hm
  rw [lookup_applyWrites, lastWrite_eq_lastInd inds ws hw] at hl
  cases hi : lastInd inds k with
  | none => simp [hi, lookup] at hl
  | some i =>
    cases he : encode i with
    | none => simp [hi, he, lookup] at hl
    | some b' =>
      simp [hi, he] at hl
      subst hl
      exact ⟨i, rfl, he, (lastInd_mem inds k i hi).2⟩

theorem lookup_of_history (inds : List Ind) (ws : List Row) (hw : indWrites inds = some ws)
    (s : Store) (id : Int) :
    lookup (applyWrites s ws) id = match lastInd inds id with
      | some i => encode i
      | none => lookup s id := by
  rw [lookup_applyWrites, lastWrite_eq_lastInd inds ws hw]
  cases hi : lastInd inds id with
  | none => simp
  | some i =>
    obtain ⟨b, hb⟩ := indWrites_encode_isSome inds ws hw i (lastInd_mem inds id i hi).1
    simp [hb]

theorem nodup_map_int (l : List Int) (h : l.Nodup) : (l.map J.int).Nodup := by
  unfold List.Nodup at *
  exact List.Pairwise.map J.int (fun a b hab hj => hab (by injection hj)) h

theorem views_of_history (inds : List Ind) (ws : List Row) (hw : indWrites inds = some ws)
    (vs : List View) (hd : decodeAll (applyWrites [] ws) = some vs) :
    (vs.map (·.id)).Nodup ∧
    (∀ v, v ∈ vs ↔ ∃ id i fs, lastInd inds id = some i ∧
        replaceFeatures i.features = some fs ∧ v = viewOf i fs) := by
  have hn : (ids (applyWrites [] ws)).Nodup := nodup_applyWrites [] ws (by simp [ids])
  have hspec := decodeAll_spec _ vs hd
  constructor
  · have hrow : ∀ r ∈ applyWrites [] ws, ∀ v, decode r.2 = some v → v.id = .int r.1 := by
      intro r hr v hv
      obtain ⟨k, b⟩ := r
      obtain ⟨i, _, he, hik⟩ := row_of_history inds ws hw k b hr
      obtain ⟨ps, cs, fs, _, _, _, hb, _⟩ := encode_eq i b he
      simp only at hv
      rw [hb, decode_blobOf] at hv
      simp only [Option.some.injEq] at hv
      subst hv
      simp [viewOf, hik]
    rw [ids_of_decodeAll _ vs hd hrow]
    have := nodup_map_int _ hn
    simp only [ids, List.map_map] at this
    exact this
  · intro v
    constructor
    · intro hv
      have : some v ∈ vs.map some := by simp [hv]
      rw [← hspec] at this
      simp only [List.mem_map] at this
      obtain ⟨r, hr, hdec⟩ := this
      obtain ⟨k, b⟩ := r
      obtain ⟨i, hi, he, _⟩ := row_of_history inds ws hw k b hr
      obtain ⟨ps, cs, fs, _, _, hf, hb, _⟩ := encode_eq i b he
      simp only at hdec
      rw [hb, decode_blobOf] at hdec
      simp only [Option.some.injEq] at hdec
      exact ⟨k, i, fs, hi, hf, hdec.symm⟩
    · rintro ⟨id, i, fs, hi, hf, rfl⟩
      obtain ⟨b, he⟩ := indWrites_encode_isSome inds ws hw i (lastInd_mem inds id i hi).1
      have hl := lookup_of_history inds ws hw [] id
      simp only [hi, he] at hl
      have hm := mem_of_lookup _ id b hl
      obtain ⟨ps, cs, fs', _, _, hf', hb, _⟩ := encode_eq i b he
      rw [hf] at hf'
      simp only [Option.some.injEq] at hf'
      subst hf'
      have : some (viewOf i fs) ∈ (applyWrites [] ws).map (fun r => decode r.2) := by
        simp only [List.mem_map]
        exact ⟨(id, b), hm, by simp [hb, decode_blobOf]⟩
      rw [hspec] at this
      simpa using this

end Artap.Store
