import ArtapModel.Model.Bench
import ArtapModel.Proofs.NumReal
import Mathlib.Tactic.Linarith
import Mathlib.Tactic.Positivity
import Mathlib.Analysis.MeanInequalities
/-! # Real-number lemmas for the benchmark formulas of `Model/Bench.lean` (C15) -/
namespace Artap.Bench

/-- `a < b` on ℝ (classical decision; only the proofs use it). -/
noncomputable instance instNumOrdReal : NumOrd ℝ := ⟨fun a b => decide (a < b)⟩

theorem sumFrom_eq (a : ℝ) (f : ℕ → ℝ → ℝ) (xs : List ℝ) :
    sumFrom a f xs = a + ((xs.zipIdx).map (fun p => f p.2 p.1)).sum := by
  unfold sumFrom
  simp only [real_add]
  generalize xs.zipIdx = l
  induction l generalizing a with
  | nil => simp
  | cons p l ih => rw [List.foldl_cons, ih]; simp [add_assoc]

theorem prodFrom_eq (a : ℝ) (f : ℕ → ℝ → ℝ) (xs : List ℝ) :
    prodFrom a f xs = a * ((xs.zipIdx).map (fun p => f p.2 p.1)).prod := by
  unfold prodFrom
  simp only [real_mul]
  generalize xs.zipIdx = l
  induction l generalizing a with
  | nil => simp
  | cons p l ih => rw [List.foldl_cons, ih]; simp [mul_assoc]

@[simp] theorem nat_real (n : ℕ) : (nat n : ℝ) = (n : ℝ) := rfl
@[simp] theorem rat_real (r : ℚ) : (rat r : ℝ) = (r : ℝ) := rfl
@[simp] theorem sq_real (x : ℝ) : sq x = x ^ 2 := by
  simp [sq]

theorem sumFrom_zero_terms {a : ℝ} {f : ℕ → ℝ → ℝ} {xs : List ℝ}
    (h : ∀ p ∈ xs.zipIdx, f p.2 p.1 = 0) : sumFrom a f xs = a := by
  rw [sumFrom_eq]
  have : ((xs.zipIdx).map (fun p => f p.2 p.1)).sum = 0 := by
    apply List.sum_eq_zero
    intro x hx
    obtain ⟨p, hp, rfl⟩ := List.mem_map.1 hx
    exact h p hp
  rw [this, add_zero]

theorem prodFrom_one_terms {a : ℝ} {f : ℕ → ℝ → ℝ} {xs : List ℝ}
    (h : ∀ p ∈ xs.zipIdx, f p.2 p.1 = 1) : prodFrom a f xs = a := by
  rw [prodFrom_eq]
  have : ((xs.zipIdx).map (fun p => f p.2 p.1)).prod = 1 := by
    apply List.prod_eq_one
    intro x hx
    obtain ⟨p, hp, rfl⟩ := List.mem_map.1 hx
    exact h p hp
  rw [this, mul_one]

theorem sumFrom_ge_terms {a : ℝ} {f : ℕ → ℝ → ℝ} {xs : List ℝ} (m : ℝ)
    (h : ∀ p ∈ xs.zipIdx, m ≤ f p.2 p.1) : a + xs.length * m ≤ sumFrom a f xs := by
  rw [sumFrom_eq]
  have := List.card_nsmul_le_sum ((xs.zipIdx).map (fun p => f p.2 p.1)) m (by
    intro x hx
    obtain ⟨p, hp, rfl⟩ := List.mem_map.1 hx
    exact h p hp)
  simp only [List.length_map, List.length_zipIdx, nsmul_eq_mul] at this
  linarith

theorem sumFrom_le_terms {a : ℝ} {f : ℕ → ℝ → ℝ} {xs : List ℝ} (m : ℝ)
    (h : ∀ p ∈ xs.zipIdx, f p.2 p.1 ≤ m) : sumFrom a f xs ≤ a + xs.length * m := by
  rw [sumFrom_eq]
  have := List.sum_le_card_nsmul ((xs.zipIdx).map (fun p => f p.2 p.1)) m (by
    intro x hx
    obtain ⟨p, hp, rfl⟩ := List.mem_map.1 hx
    exact h p hp)
  simp only [List.length_map, List.length_zipIdx, nsmul_eq_mul] at this
  linarith

theorem sumFrom_nonneg_terms {a : ℝ} {f : ℕ → ℝ → ℝ} {xs : List ℝ}
    (h : ∀ p ∈ xs.zipIdx, 0 ≤ f p.2 p.1) : a ≤ sumFrom a f xs := by
  have := sumFrom_ge_terms (a := a) 0 h
  simpa using this

theorem prod_unit (l : List ℝ) (h : ∀ x ∈ l, 0 ≤ x ∧ x ≤ 1) : 0 ≤ l.prod ∧ l.prod ≤ 1 := by
  induction l with
  | nil => simp
  | cons x l ih =>
    have hx := h x (by simp)
    have hl := ih (fun y hy => h y (by simp [hy]))
    rw [List.prod_cons]
    constructor
    · exact mul_nonneg hx.1 hl.1
    · calc x * l.prod ≤ 1 * 1 := by
            apply mul_le_mul hx.2 hl.2 hl.1 (by norm_num)
        _ = 1 := by norm_num

theorem prod_abs_le_one (l : List ℝ) (h : ∀ x ∈ l, |x| ≤ 1) : |l.prod| ≤ 1 := by
  induction l with
  | nil => simp
  | cons x l ih =>
    have hx := h x (by simp)
    have hl := ih (fun y hy => h y (by simp [hy]))
    rw [List.prod_cons, abs_mul]
    calc |x| * |l.prod| ≤ 1 * 1 := mul_le_mul hx hl (abs_nonneg _) (by norm_num)
      _ = 1 := by norm_num

theorem mem_zipIdx_replicate {c : ℝ} {n : ℕ} {p : ℝ × ℕ} (h : p ∈ (List.replicate n c).zipIdx) : p.1 = c :=
  List.eq_of_mem_replicate (List.fst_mem_of_mem_zipIdx h)

/-- `lastOf`: only the last coordinate counts. -/
theorem lastOf_nil (a : ℝ) (g : ℝ → ℝ) : lastOf a g [] = a := rfl
theorem lastOf_concat (a : ℝ) (g : ℝ → ℝ) (xs : List ℝ) (c : ℝ) : lastOf a g (xs ++ [c]) = g c := by
  simp [lastOf, List.foldl_append]

theorem list_cases_last (xs : List ℝ) : xs = [] ∨ ∃ ys c, xs = ys ++ [c] := by
  rcases List.eq_nil_or_concat xs with h | ⟨ys, c, h⟩
  · exact Or.inl h
  · exact Or.inr ⟨ys, c, by simpa using h⟩

/-! ### Sphere -/
theorem sphere_nonneg (xs : List ℝ) : 0 ≤ sphere xs := by
  unfold sphere
  have := sumFrom_nonneg_terms (a := (nat 0 : ℝ)) (f := fun _ c => sq c) (xs := xs)
    (by intro p _; simp only [sq_real]; positivity)
  simpa using this

theorem sphere_zero (n : ℕ) : sphere (List.replicate n (0 : ℝ)) = 0 := by
  unfold sphere
  rw [sumFrom_zero_terms]
  · simp
  · intro p hp
    rw [mem_zipIdx_replicate hp]; simp

/-! ### Booth -/
theorem booth_nonneg (x y : ℝ) : 0 ≤ booth x y := by
  unfold booth
  simp only [sq_real, real_add, real_sub, real_mul, nat_real]
  positivity

theorem booth_opt : booth (1 : ℝ) 3 = 0 := by
  unfold booth
  simp only [sq_real, real_add, real_sub, real_mul, nat_real]
  norm_num


theorem foldl_add_eq {β : Type} (l : List β) (g : β → ℝ) (a : ℝ) :
    l.foldl (fun acc p => acc + g p) a = a + (l.map g).sum := by
  induction l generalizing a with
  | nil => simp
  | cons p l ih => rw [List.foldl_cons, ih]; simp [add_assoc]

/-! ### Rosenbrock -/
theorem rosenbrock_eq (xs : List ℝ) :
    rosenbrock xs = ((xs.zip xs.tail).map (fun p => (1 - p.1) * (1 - p.1) + (p.2 - p.1 ^ 2) * (p.2 - p.1 ^ 2) * 100)).sum := by
  unfold rosenbrock
  simp only [real_add, real_sub, real_mul, nat_real, sq_real]
  rw [foldl_add_eq]
  simp

theorem rosenbrock_nonneg (xs : List ℝ) : 0 ≤ rosenbrock xs := by
  rw [rosenbrock_eq]
  apply List.sum_nonneg
  intro x hx
  obtain ⟨p, _, rfl⟩ := List.mem_map.1 hx
  nlinarith [mul_self_nonneg (1 - p.1), mul_self_nonneg (p.2 - p.1 ^ 2)]

theorem rosenbrock_one (n : ℕ) : rosenbrock (List.replicate n (1 : ℝ)) = 0 := by
  rw [rosenbrock_eq]
  apply List.sum_eq_zero
  intro x hx
  obtain ⟨p, hp, rfl⟩ := List.mem_map.1 hx
  have h1 : p.1 = 1 := List.eq_of_mem_replicate (List.of_mem_zip hp).1
  have h2 : p.2 = 1 := by
    have := (List.of_mem_zip hp).2
    rw [List.tail_replicate] at this
    exact List.eq_of_mem_replicate this
  rw [h1, h2]; norm_num

/-! ### Zakharov -/
theorem zakharov_nonneg (xs : List ℝ) : 0 ≤ zakharov xs := by
  unfold zakharov
  simp only [real_add, sq_real]
  have h1 : (0:ℝ) ≤ sumFrom (nat 0) (fun _ c => sq c) xs := by
    have := sumFrom_nonneg_terms (a := (nat 0 : ℝ)) (f := fun _ c => sq c) (xs := xs)
      (by intro p _; simp only [sq_real]; positivity)
    simpa using this
  simp only [sq_real] at h1
  exact add_nonneg (add_nonneg h1 (sq_nonneg _)) (sq_nonneg _)

theorem zakharov_zero (n : ℕ) : zakharov (List.replicate n (0 : ℝ)) = 0 := by
  unfold zakharov
  rw [sumFrom_zero_terms, sumFrom_zero_terms]
  · simp
  · intro p hp; rw [mem_zipIdx_replicate hp]; simp
  · intro p hp; rw [mem_zipIdx_replicate hp]; simp

/-! ### Rastrigin -/
theorem rastrigin_nonneg (xs : List ℝ) : 0 ≤ rastrigin xs := by
  unfold rastrigin
  have := sumFrom_ge_terms (a := (nat (10 * xs.length) : ℝ))
    (f := fun _ c => Num.sub (sq c) (Num.mul (nat 10) (Num.cos (Num.mul (Num.mul (nat 2) Num.pi) c)))) (xs := xs) (-10)
    (by
      intro p _
      simp only [real_sub, real_mul, real_cos, sq_real, nat_real, real_pi]
      have := Real.cos_le_one ((2:ℕ) * Real.pi * p.1)
      have h2 := sq_nonneg p.1
      push_cast
      push_cast at this
      linarith)
  simp only [nat_real] at this
  push_cast at this
  simp only [nat_real]
  push_cast
  linarith

theorem rastrigin_zero (n : ℕ) : rastrigin (List.replicate n (0 : ℝ)) = 0 := by
  unfold rastrigin
  have hterm : ∀ p ∈ (List.replicate n (0:ℝ)).zipIdx,
      (fun (_ : ℕ) (c : ℝ) => Num.sub (sq c) (Num.mul (nat 10) (Num.cos (Num.mul (Num.mul (nat 2) Num.pi) c)))) p.2 p.1 = -10 := by
    intro p hp
    rw [mem_zipIdx_replicate hp]
    simp
  have h1 := sumFrom_ge_terms (a := (nat (10 * (List.replicate n (0:ℝ)).length) : ℝ))
    (f := fun (_ : ℕ) (c : ℝ) => Num.sub (sq c) (Num.mul (nat 10) (Num.cos (Num.mul (Num.mul (nat 2) Num.pi) c))))
    (-10) (fun p hp => (hterm p hp).ge)
  have h2 := sumFrom_le_terms (a := (nat (10 * (List.replicate n (0:ℝ)).length) : ℝ))
    (f := fun (_ : ℕ) (c : ℝ) => Num.sub (sq c) (Num.mul (nat 10) (Num.cos (Num.mul (Num.mul (nat 2) Num.pi) c))))
    (-10) (fun p hp => (hterm p hp).le)
  simp only [nat_real, List.length_replicate] at h1 h2 ⊢
  push_cast at h1 h2 ⊢
  linarith

/-! ### Griewank -/
theorem griewank_nonneg (xs : List ℝ) : 0 ≤ griewank xs := by
  unfold griewank
  simp only [real_add, real_sub]
  have h1 : (0:ℝ) ≤ sumFrom (nat 0) (fun _ c => Num.div (sq c) (nat 4000)) xs := by
    have := sumFrom_nonneg_terms (a := (nat 0 : ℝ)) (f := fun _ c => Num.div (sq c) (nat 4000)) (xs := xs)
      (by intro p _; simp only [sq_real, real_div, nat_real]; positivity)
    simpa using this
  have h2 : prodFrom (nat 1) (fun i c => Num.cos (Num.div c (Num.sqrt (nat (i + 1))))) xs ≤ (1:ℝ) := by
    rw [prodFrom_eq]
    have := prod_abs_le_one ((xs.zipIdx).map (fun p => (fun i c => Num.cos (Num.div c (Num.sqrt (nat (i + 1))))) p.2 p.1))
      (by
        intro x hx
        obtain ⟨p, _, rfl⟩ := List.mem_map.1 hx
        simp only [real_cos]
        exact Real.abs_cos_le_one _)
    simp only [nat_real, Nat.cast_one, one_mul]
    exact (abs_le.1 this).2
  simp only [nat_real, Nat.cast_one, Nat.cast_zero, Nat.cast_ofNat] at h1 h2 ⊢
  linarith

theorem griewank_zero (n : ℕ) : griewank (List.replicate n (0 : ℝ)) = 0 := by
  unfold griewank
  rw [sumFrom_zero_terms, prodFrom_one_terms]
  · simp
  · intro p hp; rw [mem_zipIdx_replicate hp]; simp
  · intro p hp; rw [mem_zipIdx_replicate hp]; simp

/-! ### Alpine -/
theorem alpine_nonneg (xs : List ℝ) : 0 ≤ alpine xs := by
  unfold alpine
  have := sumFrom_nonneg_terms (a := (nat 0 : ℝ)) (f := fun _ c => Num.abs (Num.add (Num.mul c (Num.sin c)) (Num.mul (rat (1/10)) c))) (xs := xs)
    (by intro p _; simp only [real_abs]; positivity)
  simpa using this

theorem alpine_zero (n : ℕ) : alpine (List.replicate n (0 : ℝ)) = 0 := by
  unfold alpine
  rw [sumFrom_zero_terms]
  · simp
  · intro p hp; rw [mem_zipIdx_replicate hp]; simp


/-! ### Ackley -/
theorem ackley_core (S1 S2 n : ℝ) (hn : 0 < n) (h2 : S2 ≤ n) :
    0 ≤ -20 * Real.exp (-(2 / 10) * √(S1 / n)) - Real.exp (S2 / n) + 20 + Real.exp 1 := by
  have hA : Real.exp (-(2 / 10) * √(S1 / n)) ≤ 1 := by
    rw [Real.exp_le_one_iff]
    have := Real.sqrt_nonneg (S1 / n)
    nlinarith
  have hB : Real.exp (S2 / n) ≤ Real.exp 1 := by
    apply Real.exp_le_exp.2
    rw [div_le_iff₀ hn]
    linarith
  linarith

theorem ackley_nonneg (xs : List ℝ) (hne : xs ≠ []) : 0 ≤ ackley xs := by
  unfold ackley
  have hn : (0:ℝ) < (xs.length : ℝ) := by
    have : 0 < xs.length := List.length_pos_iff.2 hne
    exact_mod_cast this
  have h2 : sumFrom (nat 0) (fun _ c => Num.cos (Num.mul (Num.mul (nat 2) Num.pi) c)) xs ≤ (xs.length : ℝ) := by
    have := sumFrom_le_terms (a := (nat 0 : ℝ)) (f := fun _ c => Num.cos (Num.mul (Num.mul (nat 2) Num.pi) c)) (xs := xs) 1
      (by intro p _; simp only [real_cos]; exact Real.cos_le_one _)
    simpa using this
  have := ackley_core (sumFrom (nat 0) (fun _ c => sq c) xs) _ _ hn h2
  simp only [real_add, real_sub, real_mul, real_div, real_neg, real_exp, real_sqrt, nat_real, rat_real]
  push_cast
  simpa using this

theorem ackley_zero (n : ℕ) (hn : 1 ≤ n) : ackley (List.replicate n (0 : ℝ)) = 0 := by
  unfold ackley
  have hnr : ((n:ℕ):ℝ) ≠ 0 := by
    have : 0 < n := hn
    positivity
  have h1 : sumFrom (nat 0) (fun _ c => sq c) (List.replicate n (0:ℝ)) = 0 := by
    rw [sumFrom_zero_terms]
    · simp
    · intro p hp; rw [mem_zipIdx_replicate hp]; simp
  have h2 : sumFrom (nat 0) (fun _ c => Num.cos (Num.mul (Num.mul (nat 2) Num.pi) c)) (List.replicate n (0:ℝ)) = (n:ℝ) := by
    have hterm : ∀ p ∈ (List.replicate n (0:ℝ)).zipIdx,
        (fun (_ : ℕ) (c : ℝ) => Num.cos (Num.mul (Num.mul (nat 2) Num.pi) c)) p.2 p.1 = 1 := by
      intro p hp; rw [mem_zipIdx_replicate hp]; simp
    have a1 := sumFrom_ge_terms (a := (nat 0 : ℝ))
      (f := fun (_ : ℕ) (c : ℝ) => Num.cos (Num.mul (Num.mul (nat 2) Num.pi) c)) 1 (fun p hp => (hterm p hp).ge)
    have a2 := sumFrom_le_terms (a := (nat 0 : ℝ))
      (f := fun (_ : ℕ) (c : ℝ) => Num.cos (Num.mul (Num.mul (nat 2) Num.pi) c)) 1 (fun p hp => (hterm p hp).le)
    simp only [nat_real, List.length_replicate] at a1 a2 ⊢
    push_cast at a1 a2 ⊢
    linarith
  rw [h1, h2]
  simp only [real_add, real_sub, real_mul, real_div, real_neg, real_exp, real_sqrt, nat_real, rat_real,
    List.length_replicate]
  rw [div_self hnr]
  simp
  ring

/-! ### ModifiedEasom (as repaired) -/
theorem modifiedEasom_ge (xs : List ℝ) : -1 ≤ modifiedEasom xs := by
  unfold modifiedEasom
  rw [prodFrom_eq, sumFrom_eq]
  simp only [real_mul, real_neg, real_exp, nat_real, real_pow, real_cos, sq_real, real_sub, real_pi]
  set P := ((xs.zipIdx).map (fun p => Real.cos p.1 ^ ((2:ℕ):ℝ))).prod with hP
  set S := ((xs.zipIdx).map (fun p => (p.1 - Real.pi) ^ 2)).sum with hS
  have hPu : 0 ≤ P ∧ P ≤ 1 := by
    apply prod_unit
    intro x hx
    obtain ⟨p, _, rfl⟩ := List.mem_map.1 hx
    rw [Real.rpow_natCast]
    exact ⟨sq_nonneg _, Real.cos_sq_le_one _⟩
  have hS0 : 0 ≤ S := by
    apply List.sum_nonneg
    intro x hx
    obtain ⟨p, _, rfl⟩ := List.mem_map.1 hx
    positivity
  have hE1 : Real.exp (-(((0:ℕ):ℝ) + S)) ≤ 1 := by
    rw [Real.exp_le_one_iff]; push_cast; linarith
  have hE0 := Real.exp_nonneg (-(((0:ℕ):ℝ) + S))
  push_cast at hE1 hE0 ⊢
  nlinarith [mul_le_one₀ hPu.2 hE0 hE1, mul_nonneg hPu.1 hE0]

theorem modifiedEasom_pi (n : ℕ) : modifiedEasom (List.replicate n Real.pi) = -1 := by
  unfold modifiedEasom
  rw [prodFrom_one_terms, sumFrom_zero_terms]
  · simp
  · intro p hp; rw [mem_zipIdx_replicate hp]; simp
  · intro p hp; rw [mem_zipIdx_replicate hp]
    simp only [real_pow, real_cos, nat_real, Real.cos_pi, Real.rpow_natCast]
    norm_num

/-! ### Xin-She-Yang 1, 2 -/
theorem lastOf_replicate (a : ℝ) (g : ℝ → ℝ) (n : ℕ) (c : ℝ) :
    lastOf a g (List.replicate n c) = if n = 0 then a else g c := by
  cases n with
  | zero => simp [lastOf]
  | succ k =>
    rw [List.replicate_succ', lastOf_concat]
    simp

theorem xinSheYang1_nonneg (xs : List ℝ) : 0 ≤ xinSheYang1 xs := by
  unfold xinSheYang1
  rcases list_cases_last xs with rfl | ⟨ys, c, rfl⟩
  · simp [lastOf_nil]
  · simp only [lastOf_concat, real_mul, real_abs, real_exp, real_neg]
    positivity

theorem xinSheYang1_zero (n : ℕ) : xinSheYang1 (List.replicate n (0:ℝ)) = 0 := by
  unfold xinSheYang1
  rw [lastOf_replicate]
  split <;> simp

theorem xsy2_core (c : ℝ) :
    -1 ≤ (Real.exp (-1 * (c / 15) ^ 10) - 2 * Real.exp (-1 * c ^ 2)) * Real.cos c ^ 2 := by
  have hA0 := Real.exp_nonneg (-1 * (c / 15) ^ 10)
  have hB0 := Real.exp_nonneg (-1 * c ^ 2)
  have hB1 : Real.exp (-1 * c ^ 2) ≤ 1 := by
    rw [Real.exp_le_one_iff]; nlinarith [sq_nonneg c]
  have hc0 := sq_nonneg (Real.cos c)
  have hc1 := Real.cos_sq_le_one c
  -- key: A + 1 ≥ 2 B
  have key : 2 * Real.exp (-1 * c ^ 2) ≤ Real.exp (-1 * (c / 15) ^ 10) + 1 := by
    by_cases h : c ^ 2 ≤ 1
    · -- (c/15)^10 ≤ c^2, hence A ≥ B
      have hle : (c / 15) ^ 10 ≤ c ^ 2 := by
        have h15 : (c / 15) ^ 2 ≤ c ^ 2 := by
          have : (c / 15) ^ 2 = c ^ 2 / 225 := by ring
          rw [this]; nlinarith [sq_nonneg c]
        have hq : (c / 15) ^ 2 ≤ 1 := le_trans h15 h
        have hq0 : 0 ≤ (c / 15) ^ 2 := sq_nonneg _
        have : (c / 15) ^ 10 = ((c / 15) ^ 2) ^ 5 := by ring
        rw [this]
        calc ((c / 15) ^ 2) ^ 5 ≤ ((c / 15) ^ 2) ^ 1 := pow_le_pow_of_le_one hq0 hq (by norm_num)
          _ = (c / 15) ^ 2 := pow_one _
          _ ≤ c ^ 2 := h15
      have hAB : Real.exp (-1 * c ^ 2) ≤ Real.exp (-1 * (c / 15) ^ 10) := by
        apply Real.exp_le_exp.2; linarith
      linarith
    · -- c^2 > 1: B ≤ exp(-1) ≤ 1/2
      have hc : 1 < c ^ 2 := lt_of_not_ge h
      have h1 : Real.exp (-1 * c ^ 2) ≤ Real.exp (-1) := by
        apply Real.exp_le_exp.2; linarith
      have h2 : Real.exp (-1) ≤ 1 / 2 := by
        have := Real.add_one_le_exp (1:ℝ)
        rw [Real.exp_neg]
        rw [inv_le_comm₀ (Real.exp_pos 1) (by norm_num)]
        norm_num; linarith
      linarith
  nlinarith

theorem xinSheYang2_ge (xs : List ℝ) : -1 ≤ xinSheYang2 xs := by
  unfold xinSheYang2
  rcases list_cases_last xs with rfl | ⟨ys, c, rfl⟩
  · simp [lastOf_nil]; norm_num
  · simp only [lastOf_concat, real_mul, real_sub, real_exp, real_neg, real_pow, real_cos, real_div, nat_real, sq_real,
      Real.rpow_natCast]
    have := xsy2_core c
    push_cast
    simpa using this

theorem xinSheYang2_zero (n : ℕ) : xinSheYang2 (List.replicate n (0:ℝ)) = -1 := by
  unfold xinSheYang2
  simp only [lastOf_replicate]
  split <;> simp <;> norm_num


/-! ### Xin-She-Yang 3 (randomised: the draws are an explicit argument) -/
theorem foldl_assign_nil {β : Type} (a : ℝ) (g : β → ℝ) : ([] : List β).foldl (fun _ p => g p) a = a := rfl
theorem foldl_assign_concat {β : Type} (a : ℝ) (g : β → ℝ) (l : List β) (p : β) :
    (l ++ [p]).foldl (fun _ p => g p) a = g p := by
  simp [List.foldl_append]

theorem harmonic_getElem? {n i : ℕ} {x : ℝ} (h : (harmonic n : List ℝ)[i]? = some x) :
    x = 1 / ((i : ℝ) + 1) := by
  unfold harmonic at h
  rw [List.getElem?_map] at h
  by_cases hi : i < n
  · rw [List.getElem?_range hi] at h
    simp only [Option.map_some, Option.some.injEq] at h
    rw [← h]; simp
  · rw [List.getElem?_eq_none (by simpa using hi)] at h
    simp at h

theorem xinSheYang3_nonneg (eps xs : List ℝ) (he : ∀ e ∈ eps, 0 ≤ e) : 0 ≤ xinSheYang3 eps xs := by
  unfold xinSheYang3
  rcases List.eq_nil_or_concat ((eps.zip xs).zipIdx) with h | ⟨l, p, h⟩
  · rw [h]; simp
  · have h' : (eps.zip xs).zipIdx = l ++ [p] := by simpa using h
    rw [h', foldl_assign_concat]
    have hp : p ∈ (eps.zip xs).zipIdx := by rw [h']; simp
    have hp1 : p.1 ∈ eps.zip xs := List.fst_mem_of_mem_zipIdx hp
    have : p.1.1 ∈ eps := (List.of_mem_zip (a := p.1.1) (b := p.1.2) hp1).1
    simp only [real_mul, real_abs]
    exact mul_nonneg (he _ this) (abs_nonneg _)

theorem foldl_assign_mono {β : Type} (a : ℝ) (g1 g2 : β → ℝ) (l : List β) (h : ∀ p ∈ l, g1 p ≤ g2 p) :
    l.foldl (fun _ p => g1 p) a ≤ l.foldl (fun _ p => g2 p) a := by
  rcases List.eq_nil_or_concat l with rfl | ⟨l', p, h'⟩
  · simp
  · have h'' : l = l' ++ [p] := by simpa using h'
    subst h''
    rw [foldl_assign_concat, foldl_assign_concat]
    exact h p (by simp)

/-- upper envelope: the value with every draw replaced by 1 -/
theorem xinSheYang3_le (eps xs : List ℝ) (he : ∀ e ∈ eps, e ≤ 1) :
    xinSheYang3 eps xs ≤ xinSheYang3 (List.replicate eps.length 1) xs := by
  have hrep : List.replicate eps.length (1:ℝ) = eps.map (fun _ => (1:ℝ)) := by
    rw [List.map_const']
  rw [hrep]
  unfold xinSheYang3
  rw [List.zip_map_left, List.zipIdx_map, List.foldl_map]
  apply foldl_assign_mono
  intro p hp
  have hp1 : p.1 ∈ eps.zip xs := List.fst_mem_of_mem_zipIdx hp
  have : p.1.1 ∈ eps := (List.of_mem_zip (a := p.1.1) (b := p.1.2) hp1).1
  simp only [real_mul, real_abs, Prod.map_fst, Prod.map_snd, id_eq]
  exact mul_le_mul_of_nonneg_right (he _ this) (abs_nonneg _)

theorem xinSheYang3_harmonic (eps : List ℝ) (n : ℕ) : xinSheYang3 eps (harmonic n : List ℝ) = 0 := by
  unfold xinSheYang3
  rcases List.eq_nil_or_concat ((eps.zip (harmonic n : List ℝ)).zipIdx) with h | ⟨l, p, h⟩
  · rw [h]; simp
  · have h' : (eps.zip (harmonic n : List ℝ)).zipIdx = l ++ [p] := by simpa using h
    rw [h', foldl_assign_concat]
    have hp : p ∈ (eps.zip (harmonic n : List ℝ)).zipIdx := by rw [h']; simp
    rw [List.mem_zipIdx_iff_getElem?] at hp
    rw [List.getElem?_zip_eq_some] at hp
    have := harmonic_getElem? hp.2
    simp only [real_mul, real_abs, real_sub, real_div, nat_real]
    rw [this]
    push_cast
    simp

/-! ### Perm -/
theorem perm_term_nonneg (i0 j : ℕ) (d : ℝ) :
    0 ≤ (fun (j : ℕ) (d : ℝ) => Num.mul (nat (j + 1 + 10))
      (sq (Num.sub (Num.pow d (nat (i0 + 1))) (Num.div (nat 1) (Num.pow (nat (j + 1)) (nat (i0 + 1))))))) j d := by
  simp only [real_mul, nat_real, sq_real]
  positivity

theorem perm_nonneg (xs : List ℝ) : 0 ≤ perm xs := by
  unfold perm
  have key : ∀ (l : List ℕ) (a : ℝ), 0 ≤ a → 0 ≤ l.foldl (fun f i0 =>
      sumFrom f (fun j d => Num.mul (nat (j + 1 + 10))
        (sq (Num.sub (Num.pow d (nat (i0 + 1))) (Num.div (nat 1) (Num.pow (nat (j + 1)) (nat (i0 + 1))))))) xs) a := by
    intro l
    induction l with
    | nil => intro a ha; simpa using ha
    | cons i0 l ih =>
      intro a ha
      rw [List.foldl_cons]
      apply ih
      refine le_trans ha (sumFrom_nonneg_terms ?_)
      intro p _
      exact perm_term_nonneg i0 p.2 p.1
  exact key _ _ (by simp)

theorem perm_harmonic (n : ℕ) : perm (harmonic n : List ℝ) = 0 := by
  unfold perm
  have key : ∀ (l : List ℕ) (a : ℝ), l.foldl (fun f i0 =>
      sumFrom f (fun j d => Num.mul (nat (j + 1 + 10))
        (sq (Num.sub (Num.pow d (nat (i0 + 1))) (Num.div (nat 1) (Num.pow (nat (j + 1)) (nat (i0 + 1))))))) (harmonic n)) a = a := by
    intro l
    induction l with
    | nil => intro a; rfl
    | cons i0 l ih =>
      intro a
      rw [List.foldl_cons, ih]
      apply sumFrom_zero_terms
      intro p hp
      rw [List.mem_zipIdx_iff_getElem?] at hp
      have := harmonic_getElem? hp
      simp only [real_mul, nat_real, sq_real, real_sub, real_pow, real_div, Real.rpow_natCast]
      rw [this]
      push_cast
      rw [one_div_pow]
      simp
  rw [key]; simp

/-! ### Six-hump camel back: value at the documented coordinates -/
theorem sixHump_at (x y : ℝ) :
    sixHump x y = (4 - 21 / 10 * x ^ 2 + x ^ 4 / 3) * x ^ 2 + x * y - 4 * y ^ 2 + 4 * y ^ 4 := by
  unfold sixHump
  simp only [real_add, real_sub, real_mul, real_div, real_pow, nat_real, rat_real, Real.rpow_natCast]
  push_cast
  ring

theorem sixHump_documented : |sixHump (898 / 10000 : ℝ) (-(7126 / 10000)) - (-(10316 / 10000))| ≤ 1 / 1000 := by
  rw [sixHump_at, abs_le]
  constructor <;> norm_num


/-! ### EqualityConstr (as repaired): AM–GM -/
theorem map_zipIdx_fst {β : Type} (g : ℝ → β) (xs : List ℝ) (k : ℕ) :
    (xs.zipIdx k).map (fun p => g p.1) = xs.map g := by
  induction xs generalizing k with
  | nil => rfl
  | cons x xs ih => simp [List.zipIdx_cons, ih]

/-- AM–GM for a list of non-negative reals: `Π z ≤ (Σ z / n)^n`. -/
theorem amgm_list (l : List ℝ) (h : ∀ z ∈ l, 0 ≤ z) : l.prod ≤ (l.sum / l.length) ^ l.length := by
  by_cases hl : l.length = 0
  · have : l = [] := List.eq_nil_of_length_eq_zero hl
    subst this; simp
  have hn : (0:ℝ) < l.length := by
    have : 0 < l.length := Nat.pos_of_ne_zero hl
    exact_mod_cast this
  have hz : ∀ i ∈ (Finset.univ : Finset (Fin l.length)), 0 ≤ l[(i : ℕ)] := fun i _ => h _ (List.getElem_mem _)
  have key := Real.geom_mean_le_arith_mean_weighted (Finset.univ : Finset (Fin l.length))
    (fun _ => 1 / (l.length : ℝ)) (fun i => l[(i : ℕ)])
    (fun _ _ => by positivity) (by simp [Finset.sum_const, hn.ne']) hz
  rw [Real.finsetProd_rpow _ _ hz, Fin.prod_univ_getElem, ← Finset.mul_sum, Fin.sum_univ_getElem] at key
  have hp0 : 0 ≤ l.prod := List.prod_nonneg h
  have h1 : (l.prod ^ (1 / (l.length : ℝ))) ^ l.length = l.prod := by
    rw [← Real.rpow_natCast, ← Real.rpow_mul hp0]
    rw [one_div, inv_mul_cancel₀ hn.ne', Real.rpow_one]
  calc l.prod = (l.prod ^ (1 / (l.length : ℝ))) ^ l.length := h1.symm
    _ ≤ (1 / (l.length : ℝ) * l.sum) ^ l.length :=
        pow_le_pow_left₀ (Real.rpow_nonneg hp0 _) key _
    _ = (l.sum / l.length) ^ l.length := by ring_nf

theorem prod_map_sq (f : ℝ → ℝ) (l : List ℝ) : (l.map f).prod ^ 2 = (l.map (fun c => f c ^ 2)).prod := by
  induction l with
  | nil => simp
  | cons x l ih => simp [mul_pow, ih]

/-- `(Π c_i √n)² ≤ (Σ c_i²)^n` -/
theorem eqc_sq_prod_le (xs : List ℝ) :
    (xs.map (fun c => c * √(xs.length : ℝ))).prod ^ 2 ≤ (xs.map (fun c => c * c)).sum ^ xs.length := by
  by_cases hl : xs.length = 0
  · have : xs = [] := List.eq_nil_of_length_eq_zero hl
    subst this; simp
  have hn : (0:ℝ) < xs.length := by
    have : 0 < xs.length := Nat.pos_of_ne_zero hl
    exact_mod_cast this
  rw [prod_map_sq]
  have e1 : (xs.map (fun c => (c * √(xs.length : ℝ)) ^ 2)) = xs.map (fun c => (c * c) * (xs.length : ℝ)) := by
    apply List.map_congr_left
    intro c _
    rw [mul_pow, Real.sq_sqrt hn.le]; ring
  rw [e1, List.prod_map_mul]
  have e2 : (xs.map (fun _ => (xs.length : ℝ))).prod = (xs.length : ℝ) ^ xs.length := by
    rw [List.map_const', List.prod_replicate]
  rw [e2]
  have am := amgm_list (xs.map (fun c => c * c)) (by
    intro z hz
    obtain ⟨c, _, rfl⟩ := List.mem_map.1 hz
    exact mul_self_nonneg c)
  rw [List.length_map] at am
  calc (xs.map (fun c => c * c)).prod * (xs.length : ℝ) ^ xs.length
      ≤ ((xs.map (fun c => c * c)).sum / xs.length) ^ xs.length * (xs.length : ℝ) ^ xs.length :=
        mul_le_mul_of_nonneg_right am (by positivity)
    _ = (xs.map (fun c => c * c)).sum ^ xs.length := by
        rw [← mul_pow, div_mul_cancel₀ _ hn.ne']

@[simp] theorem real_lt (a b : ℝ) : NumOrd.lt a b = decide (a < b) := rfl

theorem equalityConstr_eq (xs : List ℝ) :
    equalityConstr xs =
      if |(xs.map (fun c => c * c)).sum - 1| < 1 / 1000000000
      then -(xs.map (fun c => c * √(xs.length : ℝ))).prod else 0 := by
  unfold equalityConstr
  rw [sumFrom_eq, prodFrom_eq]
  simp only [real_lt, real_abs, real_sub, real_mul, real_neg, real_sqrt, nat_real, rat_real, decide_eq_true_eq]
  rw [map_zipIdx_fst (fun c => c * c), map_zipIdx_fst (fun c => c * √(xs.length : ℝ))]
  push_cast
  simp

/-- the value is never below `-(Σx²)^{n/2}`; inside the band of the equality test that is
`-√((1+1e-9)^n)` -/
theorem equalityConstr_ge (xs : List ℝ) :
    -√((1 + 1 / 1000000000) ^ xs.length) ≤ equalityConstr xs := by
  rw [equalityConstr_eq]
  split
  · rename_i hc
    have hS0 : 0 ≤ (xs.map (fun c => c * c)).sum := by
      apply List.sum_nonneg
      intro z hz
      obtain ⟨c, _, rfl⟩ := List.mem_map.1 hz
      exact mul_self_nonneg c
    have hS1 : (xs.map (fun c => c * c)).sum ≤ 1 + 1 / 1000000000 := by
      have := (abs_lt.1 hc).2; linarith
    have h := eqc_sq_prod_le xs
    have h2 : (xs.map (fun c => c * √(xs.length : ℝ))).prod ^ 2 ≤ (1 + 1 / 1000000000) ^ xs.length :=
      le_trans h (pow_le_pow_left₀ hS0 hS1 _)
    have := Real.abs_le_sqrt h2
    have := (abs_le.1 this).2
    linarith
  · simp

/-- on the constraint itself (`Σx² = 1`) nothing is below the documented minimum −1 -/
theorem equalityConstr_ge_on_sphere (xs : List ℝ) (h1 : (xs.map (fun c => c * c)).sum = 1) :
    -1 ≤ equalityConstr xs := by
  rw [equalityConstr_eq, h1]
  have h := eqc_sq_prod_le xs
  rw [h1, one_pow] at h
  have := Real.abs_le_sqrt h
  rw [Real.sqrt_one] at this
  have := (abs_le.1 this).2
  split <;> linarith

theorem equalityConstr_opt (n : ℕ) (hn : 1 ≤ n) :
    equalityConstr (List.replicate n (1 / √(n : ℝ))) = -1 := by
  have hn0 : (0:ℝ) < n := by
    have : 0 < n := hn
    exact_mod_cast this
  have hs : √(n:ℝ) ≠ 0 := (Real.sqrt_pos.2 hn0).ne'
  rw [equalityConstr_eq]
  simp only [List.map_replicate, List.sum_replicate, List.prod_replicate, List.length_replicate, nsmul_eq_mul]
  have e1 : (n:ℝ) * (1 / √(n:ℝ) * (1 / √(n:ℝ))) = 1 := by
    rw [one_div, ← mul_inv, Real.mul_self_sqrt hn0.le, mul_inv_cancel₀ hn0.ne']
  have e2 : 1 / √(n:ℝ) * √(n:ℝ) = 1 := by
    rw [one_div, inv_mul_cancel₀ hs]
  rw [e1, e2]
  norm_num

/-- with the documented precision: for every dimension up to 10⁶ nothing is below −1 − 10⁻³ -/
theorem equalityConstr_ge_tol (xs : List ℝ) (hn : xs.length ≤ 1000000) :
    -1 - 1 / 1000 ≤ equalityConstr xs := by
  have h := equalityConstr_ge xs
  have hb : (1 + 1 / 1000000000 : ℝ) ^ xs.length ≤ (1 + 1 / 1000) ^ 2 := by
    calc (1 + 1 / 1000000000 : ℝ) ^ xs.length ≤ (1 + 1 / 1000000000 : ℝ) ^ 1000000 :=
          pow_le_pow_right₀ (by norm_num) hn
      _ ≤ Real.exp (1 / 1000000000) ^ 1000000 := by
          apply pow_le_pow_left₀ (by norm_num)
          have := Real.add_one_le_exp (1 / 1000000000 : ℝ)
          linarith
      _ = Real.exp (1 / 1000) := by
          rw [← Real.exp_nat_mul]; norm_num
      _ ≤ 1 / (1 - 1 / 1000) := (Real.exp_bound_div_one_sub_of_interval' (by norm_num) (by norm_num)).le
      _ ≤ (1 + 1 / 1000) ^ 2 := by norm_num
  have hs : √((1 + 1 / 1000000000 : ℝ) ^ xs.length) ≤ 1 + 1 / 1000 := by
    rw [show (1 + 1 / 1000 : ℝ) = √((1 + 1 / 1000) ^ 2) from (Real.sqrt_sq (by norm_num)).symm]
    exact Real.sqrt_le_sqrt hb
  linarith


/-! ### The families whose optimum clauses are proved (used by the table theorems of `Props/C15.lean`) -/
/-- deterministic families with both clauses proved for every dimension (`XinSheYang3`, randomised, has its
own theorems; `SixHump` only the value clause) -/
def provedFamilies : List Family :=
  [.rosenbrock, .ackley, .sphere, .modifiedEasom, .equalityConstr, .griewank, .perm, .rastrigin, .zakharov,
   .xinSheYang1, .xinSheYang2, .booth, .alpine]

theorem exp_neg_small (t : ℝ) (h : 20 ≤ t) : Real.exp (-t) ≤ 1 / 2 ^ 20 := by
  have h1 : Real.exp (-t) ≤ Real.exp (-20) := Real.exp_le_exp.2 (by linarith)
  have h2 : Real.exp (-20) = Real.exp (-1) ^ 20 := by
    rw [← Real.exp_nat_mul]; norm_num
  have h3 : Real.exp (-1) ≤ 1 / 2 := by
    have := Real.add_one_le_exp (1:ℝ)
    rw [Real.exp_neg, inv_le_comm₀ (Real.exp_pos 1) (by norm_num)]
    norm_num; linarith
  have h4 : Real.exp (-1) ^ 20 ≤ (1 / 2) ^ 20 := pow_le_pow_left₀ (Real.exp_nonneg _) h3 20
  calc Real.exp (-t) ≤ Real.exp (-1) ^ 20 := h2 ▸ h1
    _ ≤ (1 / 2) ^ 20 := h4
    _ = 1 / 2 ^ 20 := by norm_num

theorem atomNd_real (w m : ℚ) (xs : List ℝ) (zs : List ℚ) :
    atomNd w m xs zs = Real.exp (-(((xs.zip zs).map (fun p => (p.1 - (p.2 : ℝ)) ^ 2)).sum / (w : ℝ))) * (m : ℝ) := by
  unfold atomNd
  simp only [real_add, real_sub, real_mul, real_div, real_neg, real_exp, nat_real, rat_real, sq_real]
  rw [foldl_add_eq]
  simp [div_neg]

theorem atomNd_nonneg (w m : ℚ) (hm : 0 ≤ m) (xs : List ℝ) (zs : List ℚ) : 0 ≤ atomNd w m xs zs := by
  rw [atomNd_real]
  have : (0:ℝ) ≤ (m:ℝ) := by exact_mod_cast hm
  positivity

theorem atomNd_small (w m : ℚ) (hw : 0 < w) (hm : 0 ≤ m) (xs : List ℝ) (zs : List ℚ)
    (h : 20 * (w : ℝ) ≤ ((xs.zip zs).map (fun p => (p.1 - (p.2 : ℝ)) ^ 2)).sum) :
    atomNd w m xs zs ≤ (m : ℝ) / 2 ^ 20 := by
  rw [atomNd_real]
  have hwr : (0:ℝ) < (w:ℝ) := by exact_mod_cast hw
  have hmr : (0:ℝ) ≤ (m:ℝ) := by exact_mod_cast hm
  have := exp_neg_small (((xs.zip zs).map (fun p => (p.1 - (p.2 : ℝ)) ^ 2)).sum / (w : ℝ))
    (by rw [le_div_iff₀ hwr]; exact h)
  calc _ ≤ 1 / 2 ^ 20 * (m:ℝ) := mul_le_mul_of_nonneg_right this hmr
    _ = (m : ℝ) / 2 ^ 20 := by ring

theorem atomSum_real (t : ℚ × ℚ × List ℚ) (tbl : List (ℚ × ℚ × List ℚ)) (xs : List ℝ) :
    atomSum (t :: tbl) xs = some (atomNd t.1 t.2.1 xs t.2.2 + (tbl.map (fun t => atomNd t.1 t.2.1 xs t.2.2)).sum) := by
  obtain ⟨w, m, z⟩ := t
  simp only [atomSum, real_add]
  rw [foldl_add_eq]

/-- every Gaussian whose centre is far from `xs` contributes at most `m/2^20`, the others are bounded below by 0 -/
theorem atoms_between (tbl : List (ℚ × ℚ × List ℚ)) (xs : List ℝ)
    (h : ∀ t ∈ tbl, 0 < t.1 ∧ 0 ≤ t.2.1 ∧ t.2.1 ≤ 2 ∧
      20 * (t.1 : ℝ) ≤ ((xs.zip t.2.2).map (fun p => (p.1 - (p.2 : ℝ)) ^ 2)).sum) :
    0 ≤ (tbl.map (fun t => atomNd t.1 t.2.1 xs t.2.2)).sum ∧
    (tbl.map (fun t => atomNd t.1 t.2.1 xs t.2.2)).sum ≤ tbl.length * (2 / 2 ^ 20) := by
  induction tbl with
  | nil => simp
  | cons t tbl ih =>
    obtain ⟨hw, hm, hm2, hd⟩ := h t (by simp)
    have ih' := ih (fun u hu => h u (by simp [hu]))
    have h0 := atomNd_nonneg t.1 t.2.1 hm xs t.2.2
    have h1 := atomNd_small t.1 t.2.1 hw hm xs t.2.2 hd
    have hm2r : (t.2.1 : ℝ) ≤ 2 := by exact_mod_cast hm2
    have h2 : (t.2.1 : ℝ) / 2 ^ 20 ≤ 2 / 2 ^ 20 := by
      apply div_le_div_of_nonneg_right hm2r (by positivity)
    simp only [List.map_cons, List.sum_cons, List.length_cons]
    push_cast
    constructor
    · linarith [ih'.1]
    · linarith [ih'.2]

/-- the nine Gaussians of `Synthetic5D` other than the highest peak -/
def synthetic5DOthers : List (ℚ × ℚ × List ℚ) := synthetic5DTable.eraseIdx 3

theorem synthetic5D_documented :
    ∃ v : ℝ, eval .synthetic5D [nat 3, nat 4, rat (13/10), nat 5, nat 5] = some v ∧ |v - 12 / 10| ≤ 1 / 1000 := by
  set xs : List ℝ := [nat 3, nat 4, rat (13/10), nat 5, nat 5] with hxs
  have hsplit : eval .synthetic5D xs = some (atomNd (4/10) (12/10) xs [3, 4, 13/10, 5, 5] +
      (synthetic5DOthers.map (fun t => atomNd t.1 t.2.1 xs t.2.2)).sum) := by
    have hl : xs.length ≤ 5 := by simp [hxs]
    simp only [eval, if_pos hl]
    rw [synthetic5DTable, atomSum_real]
    simp only [synthetic5DOthers, synthetic5DTable, List.eraseIdx, List.map_cons, List.map_nil, List.sum_cons, List.sum_nil]
    rw [Option.some.injEq]
    ring
  refine ⟨_, hsplit, ?_⟩
  have hpeak : atomNd (4/10) (12/10) xs [3, 4, 13/10, 5, 5] = 12 / 10 := by
    rw [atomNd_real, hxs]
    simp only [List.zip_cons_cons, List.zip_nil_right, List.map_cons, List.map_nil, List.sum_cons, List.sum_nil, nat_real, rat_real]
    norm_num
  have hoth := atoms_between synthetic5DOthers xs (by
    intro t ht
    simp only [synthetic5DOthers, synthetic5DTable, List.eraseIdx, List.mem_cons, List.not_mem_nil, or_false] at ht
    rcases ht with rfl | rfl | rfl | rfl | rfl | rfl | rfl | rfl | rfl <;>
      refine ⟨by norm_num, by norm_num, by norm_num, ?_⟩ <;>
      simp only [hxs, List.zip_cons_cons, List.zip_nil_right, List.map_cons, List.map_nil, List.sum_cons, List.sum_nil, nat_real, rat_real] <;>
      norm_num)
  rw [hpeak, abs_le]
  have hlen : (synthetic5DOthers.length : ℝ) = 9 := by
    simp [synthetic5DOthers, synthetic5DTable]
  rw [hlen] at hoth
  constructor <;> nlinarith [hoth.1, hoth.2]

/-- the nine Gaussians of `Synthetic10D` other than the highest peak -/
def synthetic10DOthers : List (ℚ × ℚ × List ℚ) := synthetic10DTable.eraseIdx 3

theorem synthetic10D_documented :
    ∃ v : ℝ, eval .synthetic10D [nat 3, nat 4, rat (13/10), nat 5, nat 5, nat 3, nat 4, rat (13/10), nat 5, nat 5] = some v ∧ |v - 12 / 10| ≤ 1 / 1000 := by
  set xs : List ℝ := [nat 3, nat 4, rat (13/10), nat 5, nat 5, nat 3, nat 4, rat (13/10), nat 5, nat 5] with hxs
  have hsplit : eval .synthetic10D xs = some (atomNd (4/10) (12/10) xs [3, 4, 13/10, 5, 5, 3, 4, 13/10, 5, 5] +
      (synthetic10DOthers.map (fun t => atomNd t.1 t.2.1 xs t.2.2)).sum) := by
    have hl : xs.length ≤ 10 := by simp [hxs]
    simp only [eval, if_pos hl]
    rw [synthetic10DTable, atomSum_real]
    simp only [synthetic10DOthers, synthetic10DTable, List.eraseIdx, List.map_cons, List.map_nil, List.sum_cons, List.sum_nil]
    rw [Option.some.injEq]
    ring
  refine ⟨_, hsplit, ?_⟩
  have hpeak : atomNd (4/10) (12/10) xs [3, 4, 13/10, 5, 5, 3, 4, 13/10, 5, 5] = 12 / 10 := by
    rw [atomNd_real, hxs]
    simp only [List.zip_cons_cons, List.zip_nil_right, List.map_cons, List.map_nil, List.sum_cons, List.sum_nil, nat_real, rat_real]
    norm_num
  have hoth := atoms_between synthetic10DOthers xs (by
    intro t ht
    simp only [synthetic10DOthers, synthetic10DTable, List.eraseIdx, List.mem_cons, List.not_mem_nil, or_false] at ht
    rcases ht with rfl | rfl | rfl | rfl | rfl | rfl | rfl | rfl | rfl <;>
      refine ⟨by norm_num, by norm_num, by norm_num, ?_⟩ <;>
      simp only [hxs, List.zip_cons_cons, List.zip_nil_right, List.map_cons, List.map_nil, List.sum_cons, List.sum_nil, nat_real, rat_real] <;>
      norm_num)
  rw [hpeak, abs_le]
  have hlen : (synthetic10DOthers.length : ℝ) = 9 := by
    simp [synthetic10DOthers, synthetic10DTable]
  rw [hlen] at hoth
  constructor <;> nlinarith [hoth.1, hoth.2]



theorem exp_neg_le_pow (k : ℕ) (t : ℝ) (h : (k : ℝ) ≤ t) : Real.exp (-t) ≤ 1 / 2 ^ k := by
  have h1 : Real.exp (-t) ≤ Real.exp (-(k:ℝ)) := Real.exp_le_exp.2 (by linarith)
  have h2 : Real.exp (-(k:ℝ)) = Real.exp (-1) ^ k := by
    rw [← Real.exp_nat_mul]; simp
  have h3 : Real.exp (-1) ≤ 1 / 2 := by
    have := Real.add_one_le_exp (1:ℝ)
    rw [Real.exp_neg, inv_le_comm₀ (Real.exp_pos 1) (by norm_num)]
    norm_num; linarith
  have h4 : Real.exp (-1) ^ k ≤ (1 / 2) ^ k := pow_le_pow_left₀ (Real.exp_nonneg _) h3 k
  calc Real.exp (-t) ≤ Real.exp (-1) ^ k := h2 ▸ h1
    _ ≤ (1 / 2) ^ k := h4
    _ = 1 / 2 ^ k := by rw [one_div_pow]

/-- `exp(-1/2)` to seven digits (Taylor polynomial of degree 7 with the Lagrange-type remainder of Mathlib) -/
theorem exp_neg_half_bounds : (606530 / 1000000 : ℝ) ≤ Real.exp (-(1 / 2)) ∧ Real.exp (-(1 / 2)) ≤ 606531 / 1000000 := by
  have h := Real.exp_bound (x := -(1 / 2)) (by rw [abs_neg]; norm_num [abs_of_pos]) (n := 8) (by norm_num)
  simp only [Finset.sum_range_succ, Finset.sum_range_zero, Nat.factorial] at h
  rw [abs_le] at h
  norm_num at h
  constructor <;> linarith [h.1, h.2]

/-- `exp(-9/2) = exp(-1/2)^9` between 0.011108 and 0.011110 -/
theorem exp_neg_nine_half_bounds : (11108 / 1000000 : ℝ) ≤ Real.exp (-(9 / 2)) ∧ Real.exp (-(9 / 2)) ≤ 11110 / 1000000 := by
  have e : Real.exp (-(9 / 2)) = Real.exp (-(1 / 2)) ^ 9 := by
    rw [← Real.exp_nat_mul]; norm_num
  obtain ⟨lo, hi⟩ := exp_neg_half_bounds
  rw [e]
  constructor
  · calc (11108 / 1000000 : ℝ) ≤ (606530 / 1000000) ^ 9 := by norm_num
      _ ≤ Real.exp (-(1 / 2)) ^ 9 := pow_le_pow_left₀ (by norm_num) lo 9
  · calc Real.exp (-(1 / 2)) ^ 9 ≤ (606531 / 1000000) ^ 9 := pow_le_pow_left₀ (Real.exp_nonneg _) hi 9
      _ ≤ 11110 / 1000000 := by norm_num

theorem synthetic2D_at (x y : ℝ) : synthetic2D x y =
    7 / 10 * Real.exp (-((x - 1) ^ 2 + (y - 1) ^ 2) / (18 / 100))
    + 75 / 100 * Real.exp (-((x - 1) ^ 2 + (y - 3) ^ 2) / (32 / 100))
    + Real.exp (-((x - 3) ^ 2 + (y - 1) ^ 2) / 2)
    + 12 / 10 * Real.exp (-((x - 3) ^ 2 + (y - 4) ^ 2) / (32 / 100))
    + Real.exp (-((x - 5) ^ 2 + (y - 2) ^ 2) / (72 / 100)) := by
  unfold synthetic2D gauss
  simp only [real_add, real_sub, real_mul, real_div, real_neg, real_exp, nat_real, rat_real, sq_real]
  push_cast
  rfl

theorem synthetic2D_documented : |synthetic2D (3 : ℝ) 4 - 121112 / 100000| ≤ 1 / 1000 := by
  rw [synthetic2D_at]
  have e1 : (-(((3:ℝ) - 1) ^ 2 + (4 - 1) ^ 2) / (18 / 100)) = -(650 / 9) := by norm_num
  have e2 : (-(((3:ℝ) - 1) ^ 2 + (4 - 3) ^ 2) / (32 / 100)) = -(125 / 8) := by norm_num
  have e3 : (-(((3:ℝ) - 3) ^ 2 + (4 - 1) ^ 2) / 2) = -(9 / 2) := by norm_num
  have e4 : (-(((3:ℝ) - 3) ^ 2 + (4 - 4) ^ 2) / (32 / 100)) = 0 := by norm_num
  have e5 : (-(((3:ℝ) - 5) ^ 2 + (4 - 2) ^ 2) / (72 / 100)) = -(100 / 9) := by norm_num
  rw [e1, e2, e3, e4, e5, Real.exp_zero]
  have h1 := exp_neg_le_pow 20 (650 / 9) (by norm_num)
  have h2 := exp_neg_le_pow 15 (125 / 8) (by norm_num)
  have h5 := exp_neg_le_pow 11 (100 / 9) (by norm_num)
  have p1 := Real.exp_nonneg (-(650 / 9))
  have p2 := Real.exp_nonneg (-(125 / 8))
  have p5 := Real.exp_nonneg (-(100 / 9))
  obtain ⟨lo, hi⟩ := exp_neg_nine_half_bounds
  rw [abs_le]
  norm_num at h1 h2 h5
  constructor <;> linarith

/-- `exp(-5/9)` to six digits -/
theorem exp_neg_five_ninths_bounds :
    (573752 / 1000000 : ℝ) ≤ Real.exp (-(5 / 9)) ∧ Real.exp (-(5 / 9)) ≤ 573754 / 1000000 := by
  have h := Real.exp_bound (x := -(5 / 9)) (by rw [abs_neg]; norm_num [abs_of_pos]) (n := 8) (by norm_num)
  simp only [Finset.sum_range_succ, Finset.sum_range_zero, Nat.factorial] at h
  rw [abs_le] at h
  norm_num at h
  constructor <;> linarith [h.1, h.2]

/-- `exp(-50/9) = exp(-5/9)^10` between 0.003865 and 0.003867 -/
theorem exp_neg_fifty_ninths_bounds :
    (3865 / 1000000 : ℝ) ≤ Real.exp (-(50 / 9)) ∧ Real.exp (-(50 / 9)) ≤ 3867 / 1000000 := by
  have e : Real.exp (-(50 / 9)) = Real.exp (-(5 / 9)) ^ 10 := by
    rw [← Real.exp_nat_mul]; norm_num
  obtain ⟨lo, hi⟩ := exp_neg_five_ninths_bounds
  rw [e]
  constructor
  · calc (3865 / 1000000 : ℝ) ≤ (573752 / 1000000) ^ 10 := by norm_num
      _ ≤ Real.exp (-(5 / 9)) ^ 10 := pow_le_pow_left₀ (by norm_num) lo 10
  · calc Real.exp (-(5 / 9)) ^ 10 ≤ (573754 / 1000000) ^ 10 := pow_le_pow_left₀ (Real.exp_nonneg _) hi 10
      _ ≤ 3867 / 1000000 := by norm_num

theorem synthetic1D_at (x : ℝ) : synthetic1D x =
    Real.exp (-(x - 1) ^ 2 / (1 / 2)) + 2 * Real.exp (-(x - 125 / 100) ^ 2 / (45 / 1000))
    + 1 / 2 * Real.exp (-(x - 15 / 10) ^ 2 / (128 / 10000)) + 2 * Real.exp (-(x - 16 / 10) ^ 2 / (5 / 1000))
    + 25 / 10 * Real.exp (-(x - 18 / 10) ^ 2 / (2 / 100)) + 25 / 10 * Real.exp (-(x - 22 / 10) ^ 2 / (2 / 100))
    + 2 * Real.exp (-(x - 24 / 10) ^ 2 / (5 / 1000)) + 2 * Real.exp (-(x - 275 / 100) ^ 2 / (45 / 1000))
    + Real.exp (-(x - 3) ^ 2 / (1 / 2)) + 2 * Real.exp (-(x - 6) ^ 2 / (32 / 100))
    + 22 / 10 * Real.exp (-(x - 7) ^ 2 / (18 / 100)) + 24 / 10 * Real.exp (-(x - 8) ^ 2 / (1 / 2))
    + 23 / 10 * Real.exp (-(x - 95 / 10) ^ 2 / (1 / 2)) + 32 / 10 * Real.exp (-(x - 11) ^ 2 / (18 / 100))
    + 12 / 10 * Real.exp (-(x - 12) ^ 2 / (18 / 100)) := by
  unfold synthetic1D peak peak1
  simp only [real_add, real_sub, real_mul, real_div, real_neg, real_exp, nat_real, rat_real, sq_real]
  push_cast
  rfl

theorem synthetic1D_documented : |synthetic1D (11 : ℝ) - 323 / 100| ≤ 1 / 1000 := by
  rw [synthetic1D_at]
  have e1 : (-((11:ℝ) - 1) ^ 2 / (1 / 2)) = -200 := by norm_num
  have e2 : (-((11:ℝ) - 125 / 100) ^ 2 / (45 / 1000)) = -(4225 / 2) := by norm_num
  have e3 : (-((11:ℝ) - 15 / 10) ^ 2 / (128 / 10000)) = -(451250 / 64) := by norm_num
  have e4 : (-((11:ℝ) - 16 / 10) ^ 2 / (5 / 1000)) = -17672 := by norm_num
  have e5 : (-((11:ℝ) - 18 / 10) ^ 2 / (2 / 100)) = -4232 := by norm_num
  have e6 : (-((11:ℝ) - 22 / 10) ^ 2 / (2 / 100)) = -3872 := by norm_num
  have e7 : (-((11:ℝ) - 24 / 10) ^ 2 / (5 / 1000)) = -14792 := by norm_num
  have e8 : (-((11:ℝ) - 275 / 100) ^ 2 / (45 / 1000)) = -(3025 / 2) := by norm_num
  have e9 : (-((11:ℝ) - 3) ^ 2 / (1 / 2)) = -128 := by norm_num
  have e10 : (-((11:ℝ) - 6) ^ 2 / (32 / 100)) = -(625 / 8) := by norm_num
  have e11 : (-((11:ℝ) - 7) ^ 2 / (18 / 100)) = -(800 / 9) := by norm_num
  have e12 : (-((11:ℝ) - 8) ^ 2 / (1 / 2)) = -18 := by norm_num
  have e13 : (-((11:ℝ) - 95 / 10) ^ 2 / (1 / 2)) = -(9 / 2) := by norm_num
  have e14 : (-((11:ℝ) - 11) ^ 2 / (18 / 100)) = 0 := by norm_num
  have e15 : (-((11:ℝ) - 12) ^ 2 / (18 / 100)) = -(50 / 9) := by norm_num
  rw [e1, e2, e3, e4, e5, e6, e7, e8, e9, e10, e11, e12, e13, e14, e15, Real.exp_zero]
  have h1 := exp_neg_le_pow 18 200 (by norm_num)
  have h2 := exp_neg_le_pow 18 (4225 / 2) (by norm_num)
  have h3 := exp_neg_le_pow 18 (451250 / 64) (by norm_num)
  have h4 := exp_neg_le_pow 18 17672 (by norm_num)
  have h5 := exp_neg_le_pow 18 4232 (by norm_num)
  have h6 := exp_neg_le_pow 18 3872 (by norm_num)
  have h7 := exp_neg_le_pow 18 14792 (by norm_num)
  have h8 := exp_neg_le_pow 18 (3025 / 2) (by norm_num)
  have h9 := exp_neg_le_pow 18 128 (by norm_num)
  have h10 := exp_neg_le_pow 18 (625 / 8) (by norm_num)
  have h11 := exp_neg_le_pow 18 (800 / 9) (by norm_num)
  have h12 := exp_neg_le_pow 18 18 (by norm_num)
  have p1 := Real.exp_nonneg (-200)
  have p2 := Real.exp_nonneg (-(4225 / 2))
  have p3 := Real.exp_nonneg (-(451250 / 64))
  have p4 := Real.exp_nonneg (-17672)
  have p5 := Real.exp_nonneg (-4232)
  have p6 := Real.exp_nonneg (-3872)
  have p7 := Real.exp_nonneg (-14792)
  have p8 := Real.exp_nonneg (-(3025 / 2))
  have p9 := Real.exp_nonneg (-128)
  have p10 := Real.exp_nonneg (-(625 / 8))
  have p11 := Real.exp_nonneg (-(800 / 9))
  have p12 := Real.exp_nonneg (-18)
  obtain ⟨lo13, hi13⟩ := exp_neg_nine_half_bounds
  obtain ⟨lo15, hi15⟩ := exp_neg_fifty_ninths_bounds
  rw [abs_le]
  norm_num at h1 h2 h3 h4 h5 h6 h7 h8 h9 h10 h11 h12
  constructor <;> linarith


end Artap.Bench
