import ArtapModel.Proofs.Dominance
import Mathlib.Algebra.Order.Field.Basic
import Mathlib.Algebra.Order.Field.Rat
/-! # Lemmas about ε scaling (helper file for `Props/C01.lean`) -/
namespace Artap

def PosEps (eps : List Rat) : Prop := eps ≠ [] ∧ ∀ e ∈ eps, 0 < e

theorem epsAt_pos {eps : List Rat} (h : PosEps eps) (i : Nat) : 0 < epsAt eps i := by
  unfold epsAt
  have hl : 0 < eps.length := List.length_pos_iff.mpr h.1
  have hi : i % eps.length < eps.length := Nat.mod_lt _ hl
  have : eps.getD (i % eps.length) 0 = eps[i % eps.length] := by
    simp [List.getD, hi]
  have hp : 0 < eps[i % eps.length] := h.2 _ (List.getElem_mem hi)
  simp only [this]
  have hne : eps[i % eps.length] ≠ 0 := ne_of_gt hp
  simp [hne, hp]

theorem raw_eps_ne_zero {eps : List Rat} (h : PosEps eps) (i : Nat) :
    eps.getD (i % eps.length) 0 ≠ 0 := by
  have hl : 0 < eps.length := List.length_pos_iff.mpr h.1
  have hi : i % eps.length < eps.length := Nat.mod_lt _ hl
  have : eps.getD (i % eps.length) 0 = eps[i % eps.length] := by
    simp [List.getD, hi]
  rw [this]
  exact ne_of_gt (h.2 _ (List.getElem_mem hi))

theorem someLtB_scale {eps : List Rat} (h : PosEps eps) (i : Nat) (p q : List Rat) :
    someLtB (scaleBy eps i p) (scaleBy eps i q) = someLtB p q := by
  induction p generalizing q i with
  | nil => cases q <;> simp [scaleBy, someLtB]
  | cons a p ih =>
    cases q with
    | nil => simp [scaleBy, someLtB]
    | cons b q =>
      simp only [scaleBy, someLtB, ih]
      have := epsAt_pos h i
      simp only [div_lt_div_iff_of_pos_right this]

theorem scaleBy_length (eps : List Rat) (i : Nat) (p : List Rat) :
    (scaleBy eps i p).length = p.length := by
  induction p generalizing i with
  | nil => rfl
  | cons a p ih => simp [scaleBy, ih]

theorem any_zip_eq (p q : List Rat) :
    (List.zip p q).any (fun (a, b) => decide (a < b) || decide (b < a)) = (someLtB p q || someLtB q p) := by
  induction p generalizing q with
  | nil => simp [someLtB]
  | cons a p ih =>
    cases q with
    | nil => simp [someLtB]
    | cons b q =>
      simp only [List.zip_cons_cons, List.any_cons, ih, someLtB]
      cases decide (a < b) <;> cases decide (b < a) <;> cases someLtB p q <;> cases someLtB q p <;> rfl

theorem eq_of_no_someLt {p q : List Rat} (hl : p.length = q.length)
    (h1 : someLtB p q = false) (h2 : someLtB q p = false) : p = q := by
  induction p generalizing q with
  | nil => cases q <;> simp_all
  | cons a p ih =>
    cases q with
    | nil => simp at hl
    | cons b q =>
      simp only [List.length_cons, Nat.add_right_cancel_iff] at hl
      simp only [someLtB, Bool.or_eq_false_iff, decide_eq_false_iff_not] at h1 h2
      have : a = b := le_antisymm (not_lt.mp h2.1) (not_lt.mp h1.1)
      rw [this, ih hl h1.2 h2.2]

theorem someLtB_self (p : List Rat) : someLtB p p = false := by
  induction p with
  | nil => rfl
  | cons a p ih => simp [someLtB, ih]

end Artap
