import ArtapModel.Model.Selection
import ArtapModel.Proofs.Dominance
import Mathlib.Data.List.Perm.Subperm
import Mathlib.Data.List.Nodup
import Mathlib.Tactic.Linarith
import Mathlib.Algebra.Order.Field.Basic
import Mathlib.Algebra.Order.Field.Rat
/-!
# Lemmas about crowding distance, truncation and tournament (helper file for `Props/C03.lean`)
-/
namespace Artap

/-! ## Truncation -/

theorem nodupB_iff (l : List Nat) : nodupB l = true ↔ l.Nodup := by
  induction l with
  | nil => simp [nodupB]
  | cons a l ih => simp [nodupB, ih, List.nodup_cons]

theorem mem_dedupNat {a : Nat} {l : List Nat} : a ∈ dedupNat l ↔ a ∈ l := by
  induction l with
  | nil => simp [dedupNat]
  | cons b l ih =>
    by_cases h : b ∈ l
    · simp only [dedupNat, List.contains_eq_mem, h, decide_true, if_true, ih, List.mem_cons]
      constructor
      · intro m; exact Or.inr m
      · rintro (rfl | m)
        · exact h
        · exact m
    · simp [dedupNat, h, ih]

theorem nodup_dedupNat (l : List Nat) : (dedupNat l).Nodup := by
  induction l with
  | nil => simp [dedupNat]
  | cons b l ih =>
    by_cases h : b ∈ l
    · simp [dedupNat, h, ih]
    · simp [dedupNat, h, ih, mem_dedupNat]

/-- Two duplicate-free lists with the same members have the same length. -/
theorem length_eq_of_nodup_of_mem_iff {l₁ l₂ : List Nat} (h₁ : l₁.Nodup) (h₂ : l₂.Nodup)
    (h : ∀ a, a ∈ l₁ ↔ a ∈ l₂) : l₁.length = l₂.length :=
  Nat.le_antisymm
    (List.subperm_of_subset h₁ (fun a m => (h a).1 m)).length_le
    (List.subperm_of_subset h₂ (fun a m => (h a).2 m)).length_le

theorem pick_spec {pop : List Ind} {o : List Nat} {picked : List (Nat × Ind)}
    (h : pick pop o = some picked) :
    picked.map (·.1) = o ∧ ∀ p ∈ picked, pop[p.1]? = some p.2 := by
  induction o generalizing picked with
  | nil => simp [pick] at h; subst h; simp
  | cons j o ih =>
    unfold pick at h
    cases hx : pop[j]? with
    | none => simp [hx] at h
    | some x =>
      cases ht : pick pop o with
      | none => simp [hx, ht] at h
      | some t =>
        simp only [hx, ht, Option.some.injEq] at h
        subst h
        obtain ⟨a, b⟩ := ih ht
        refine ⟨by simp [a], ?_⟩
        intro p hp
        rcases List.mem_cons.1 hp with rfl | hp
        · exact hx
        · exact b p hp

theorem cmpND_neg_iff (q p : Ind) :
    cmpND q p < 0 ↔ q.front < p.front ∨ (q.front = p.front ∧ p.crowd < q.crowd) := by
  unfold cmpND
  split_ifs <;> omega

theorem ndLe_iff (a b : Nat × Ind) :
    ndLe a b = true ↔ a.2.front < b.2.front ∨ (a.2.front = b.2.front ∧ b.2.crowd ≤ a.2.crowd) := by
  simp only [ndLe, Bool.not_eq_true', decide_eq_false_iff_not, cmpND_neg_iff]
  omega

theorem ndLe_trans (a b c : Nat × Ind) (h₁ : ndLe a b = true) (h₂ : ndLe b c = true) :
    ndLe a c = true := by
  rw [ndLe_iff] at *
  omega

theorem ndLe_total (a b : Nat × Ind) : (ndLe a b || ndLe b a) = true := by
  rw [Bool.or_eq_true, ndLe_iff, ndLe_iff]
  omega

/-- What a successful truncation consists of: the looked-up de-duplicated list `picked`, its
stable sort `s`, the kept prefix and the discarded suffix. -/
theorem truncate_some {pop : List Ind} {k : Nat} {o r : List Nat}
    (h : truncate pop k o = some r) :
    ∃ picked s, pick pop o = some picked ∧ isDedup pop picked = true ∧
      s = picked.mergeSort ndLe ∧ s.Perm picked ∧ r = (s.take k).map (·.1) ∧
      (∀ a ∈ s.take k, ∀ b ∈ s.drop k, ndLe a b = true) := by
  unfold truncate at h
  cases hp : pick pop o with
  | none => simp [hp] at h
  | some picked =>
    simp only [hp] at h
    by_cases hd : isDedup pop picked = true
    · simp only [hd, if_true, Option.some.injEq] at h
      refine ⟨picked, picked.mergeSort ndLe, rfl, hd, rfl, List.mergeSort_perm _ _, h.symm, ?_⟩
      have hs := List.pairwise_mergeSort ndLe_trans ndLe_total picked
      rw [← List.take_append_drop k (picked.mergeSort ndLe), List.pairwise_append] at hs
      exact hs.2.2
    · simp [hd] at h

theorem isDedup_iff {pop : List Ind} {picked : List (Nat × Ind)} :
    isDedup pop picked = true ↔
      (picked.map (·.2.design)).Nodup ∧ ∀ x ∈ pop, ∃ p ∈ picked, p.2.design = x.design := by
  simp [isDedup, nodupB_iff]

end Artap

namespace Artap

/-- Individual `x` of the population is among the survivors `r` (indices). -/
def Kept (pop : List Ind) (r : List Nat) (x : Ind) : Prop := ∃ i ∈ r, pop[i]? = some x

/-- `y` is a member whose design has no representative among the survivors. -/
def DesignDiscarded (pop : List Ind) (r : List Nat) (y : Ind) : Prop :=
  y ∈ pop ∧ ∀ x, Kept pop r x → x.design ≠ y.design

/-- Hypothesis of `truncate_rank_first`: copies of a design carry the same front number. -/
def RankConsistent (pop : List Ind) : Prop :=
  ∀ x ∈ pop, ∀ y ∈ pop, x.design = y.design → x.front = y.front

theorem picked_mem_pop {pop : List Ind} {o : List Nat} {picked : List (Nat × Ind)}
    (h : pick pop o = some picked) {p : Nat × Ind} (hp : p ∈ picked) : p.2 ∈ pop :=
  List.mem_iff_getElem?.2 ⟨p.1, (pick_spec h).2 p hp⟩

theorem picked_designs_mem_iff {pop : List Ind} {o : List Nat} {picked : List (Nat × Ind)}
    (h : pick pop o = some picked) (hd : isDedup pop picked = true) (a : Nat) :
    a ∈ picked.map (·.2.design) ↔ a ∈ dedupNat (pop.map (·.design)) := by
  rw [mem_dedupNat]
  simp only [List.mem_map]
  constructor
  · rintro ⟨p, hp, rfl⟩
    exact ⟨p.2, picked_mem_pop h hp, rfl⟩
  · rintro ⟨x, hx, rfl⟩
    obtain ⟨p, hp, e⟩ := (isDedup_iff.1 hd).2 x hx
    exact ⟨p, hp, e⟩

/-- Entries of a list with duplicate-free designs are determined by their design. -/
theorem eq_of_design_eq {l : List (Nat × Ind)} (hn : (l.map (·.2.design)).Nodup)
    {p q : Nat × Ind} (hp : p ∈ l) (hq : q ∈ l) (e : p.2.design = q.2.design) : p = q := by
  induction l with
  | nil => simp at hp
  | cons a l ih =>
    simp only [List.map_cons, List.nodup_cons, List.mem_map, not_exists, not_and] at hn
    rcases List.mem_cons.1 hp with rfl | hp' <;> rcases List.mem_cons.1 hq with rfl | hq'
    · rfl
    · exact absurd e.symm (hn.1 q hq')
    · exact absurd e (hn.1 p hp')
    · exact ih hn.2 hp' hq'

end Artap

namespace Artap

/-- `tournament` as a chain of `if`s. -/
theorem tournament_eq (a b : Cand) (coin : Bool) :
    tournament a b coin =
      if a.front < b.front then a
      else if b.front < a.front then b
      else if paretoCompare a.costs b.costs a.marker b.marker = 1 then a
      else if paretoCompare a.costs b.costs a.marker b.marker = 2 then b
      else if coin = true then a else b := by
  unfold tournament
  generalize paretoCompare a.costs b.costs a.marker b.marker = n
  match n with
  | 0 => simp
  | 1 => simp
  | 2 => simp
  | n + 3 => simp

end Artap

/-! ## Crowding distance -/
namespace Artap

/-- identity of an entry: what no step of the loop changes except `rest`. -/
def CEnt.tag (e : CEnt) : Nat × List Rat := (e.idx, e.costs)

theorem peel_eq {l : List CEnt} {p : List (Rat × CEnt)} (h : crowdPeel l = some p) :
    List.Forall₂ (fun e q => e.rest = q.1 :: q.2.rest ∧ q.2.idx = e.idx ∧ q.2.costs = e.costs ∧
      q.2.acc = e.acc) l p := by
  induction l generalizing p with
  | nil => simp [crowdPeel] at h; subst h; exact List.Forall₂.nil
  | cons e l ih =>
    unfold crowdPeel at h
    cases hr : e.rest with
    | nil => simp [hr] at h
    | cons k r =>
      cases ht : crowdPeel l with
      | none => simp [hr, ht] at h
      | some t =>
        simp only [hr, ht, Option.some.injEq] at h
        subst h
        exact List.Forall₂.cons ⟨hr, rfl, rfl, rfl⟩ (ih ht)

theorem interior_tag (mx : Rat) (prev : Rat) (l : List (Rat × CEnt)) :
    (interior mx prev l).map (fun e => (e.idx, e.costs, e.rest)) =
      l.map (fun q => (q.2.idx, q.2.costs, q.2.rest)) := by
  induction l generalizing prev with
  | nil => simp [interior]
  | cons q tl ih =>
    obtain ⟨k, e⟩ := q
    cases tl with
    | nil => simp [interior]
    | cons q2 tl2 =>
      obtain ⟨k2, e2⟩ := q2
      simp only [interior, List.map_cons]
      rw [ih k]
      simp

theorem sweep_cons (k0 : Rat) (e0 : CEnt) (tl : List (Rat × CEnt)) :
    sweep ((k0, e0) :: tl) =
      { e0 with acc := none } ::
        interior ((((k0, e0) :: tl).getLast (by simp)).1 - k0) k0 tl := by
  unfold sweep
  have : ((k0, e0) :: tl).getLast? = some (((k0, e0) :: tl).getLast (by simp)) :=
    List.getLast?_eq_some_getLast (by simp)
  rw [this]

theorem sweep_tag (s : List (Rat × CEnt)) :
    (sweep s).map (fun e => (e.idx, e.costs, e.rest)) =
      s.map (fun q => (q.2.idx, q.2.costs, q.2.rest)) := by
  cases s with
  | nil => simp [sweep]
  | cons q tl =>
    obtain ⟨k0, e0⟩ := q
    rw [sweep_cons]
    simp [interior_tag]

end Artap

namespace Artap

theorem forall2_mem_right {α β} {R : α → β → Prop} {l : List α} {p : List β}
    (h : List.Forall₂ R l p) : ∀ b ∈ p, ∃ a ∈ l, R a b := by
  induction h with
  | nil => simp
  | cons hab _ ih =>
    intro b hb
    rcases List.mem_cons.1 hb with rfl | hb
    · exact ⟨_, List.mem_cons_self, hab⟩
    · obtain ⟨a, ha, r⟩ := ih b hb
      exact ⟨a, List.mem_cons_of_mem _ ha, r⟩

theorem forall2_mem_left {α β} {R : α → β → Prop} {l : List α} {p : List β}
    (h : List.Forall₂ R l p) : ∀ a ∈ l, ∃ b ∈ p, R a b := by
  induction h with
  | nil => simp
  | cons hab _ ih =>
    intro a ha
    rcases List.mem_cons.1 ha with rfl | ha
    · exact ⟨_, List.mem_cons_self, hab⟩
    · obtain ⟨b, hb, r⟩ := ih a ha
      exact ⟨b, List.mem_cons_of_mem _ hb, r⟩

theorem forall2_map_eq {α β γ} {R : α → β → Prop} {l : List α} {p : List β} (f : α → γ) (g : β → γ)
    (h : List.Forall₂ R l p) (hfg : ∀ a b, R a b → f a = g b) : l.map f = p.map g := by
  induction h with
  | nil => rfl
  | cons hab _ ih => simp [hfg _ _ hab, ih]

/-- One objective's effect on a member: position data unchanged; the distance becomes inf
or grows by a term in `[0, 1]`. -/
def StepRel (q : Rat × CEnt) (r : CEnt) : Prop :=
  r.idx = q.2.idx ∧ r.costs = q.2.costs ∧ r.rest = q.2.rest ∧
    (r.acc = none ∨ ∃ t : Rat, 0 ≤ t ∧ t ≤ 1 ∧ r.acc = addOpt q.2.acc t)

theorem addOpt_zero (a : Option Rat) : addOpt a 0 = a := by
  cases a <;> simp [addOpt]

theorem interior_rel (lo hi prev : Rat) (l : List (Rat × CEnt))
    (hs : l.Pairwise (fun a b => a.1 ≤ b.1)) (hp : ∀ q ∈ l, prev ≤ q.1) (hlo : lo ≤ prev)
    (hhi : ∀ q ∈ l, q.1 ≤ hi) : List.Forall₂ StepRel l (interior (hi - lo) prev l) := by
  induction l generalizing prev with
  | nil => simp [interior]
  | cons q tl ih =>
    obtain ⟨k, e⟩ := q
    cases tl with
    | nil =>
      simp only [interior]
      exact List.Forall₂.cons ⟨rfl, rfl, rfl, Or.inl rfl⟩ List.Forall₂.nil
    | cons q2 tl2 =>
      obtain ⟨k2, e2⟩ := q2
      simp only [interior]
      have hk : prev ≤ k := hp (k, e) List.mem_cons_self
      have hs' := List.pairwise_cons.1 hs
      refine List.Forall₂.cons ⟨rfl, rfl, rfl, Or.inr ?_⟩ ?_
      · by_cases hm : 0 < hi - lo
        · refine ⟨(k2 - prev) / (hi - lo), ?_, ?_, by simp [hm]⟩
          · have h2 : k ≤ k2 := hs'.1 (k2, e2) List.mem_cons_self
            exact div_nonneg (by linarith) (le_of_lt hm)
          · have h2 : k2 ≤ hi := hhi (k2, e2) (by simp)
            rw [div_le_one hm]; linarith
        · exact ⟨0, le_refl _, zero_le_one, by simp [hm, addOpt_zero]⟩
      · apply ih k hs'.2
        · intro q hq; exact hs'.1 q hq
        · linarith
        · intro q hq; exact hhi q (List.mem_cons_of_mem _ hq)

theorem le_getLast_of_pairwise (s : List (Rat × CEnt)) (hne : s ≠ [])
    (hs : s.Pairwise (fun a b => a.1 ≤ b.1)) : ∀ q ∈ s, q.1 ≤ (s.getLast hne).1 := by
  induction s with
  | nil => exact absurd rfl hne
  | cons x tl ih =>
    intro q hq
    cases tl with
    | nil => simp at hq; subst hq; simp
    | cons y tl2 =>
      have hs' := List.pairwise_cons.1 hs
      rw [List.getLast_cons (by simp)]
      rcases List.mem_cons.1 hq with rfl | hq
      · exact hs'.1 _ (List.getLast_mem _)
      · exact ih (by simp) hs'.2 q hq

theorem sweep_rel (s : List (Rat × CEnt)) (hs : s.Pairwise (fun a b => a.1 ≤ b.1)) :
    List.Forall₂ StepRel s (sweep s) := by
  cases s with
  | nil => simp [sweep]
  | cons q tl =>
    obtain ⟨k0, e0⟩ := q
    rw [sweep_cons]
    have hs' := List.pairwise_cons.1 hs
    refine List.Forall₂.cons ⟨rfl, rfl, rfl, Or.inl rfl⟩ ?_
    apply interior_rel k0 _ k0 tl hs'.2 (fun q hq => hs'.1 q hq) (le_refl _)
    intro q hq
    exact le_getLast_of_pairwise _ (by simp) hs q (List.mem_cons_of_mem _ hq)

end Artap

namespace Artap

theorem keyLe_trans (a b c : Rat × CEnt) (h₁ : keyLe a b = true) (h₂ : keyLe b c = true) :
    keyLe a c = true := by
  simp only [keyLe, decide_eq_true_eq] at *
  exact le_trans h₁ h₂

theorem keyLe_total (a b : Rat × CEnt) : (keyLe a b || keyLe b a) = true := by
  simp only [keyLe, Bool.or_eq_true, decide_eq_true_eq]
  exact le_total _ _

theorem sorted_keys (p : List (Rat × CEnt)) :
    (p.mergeSort keyLe).Pairwise (fun a b => a.1 ≤ b.1) := by
  have := List.pairwise_mergeSort keyLe_trans keyLe_total p
  exact this.imp (fun h => by simpa [keyLe] using h)

/-- Relation between a member before and after one objective's pass. -/
def EntRel (e r : CEnt) : Prop :=
  r.idx = e.idx ∧ r.costs = e.costs ∧ (∀ k tl, e.rest = k :: tl → r.rest = tl) ∧
    (r.acc = none ∨ ∃ t : Rat, 0 ≤ t ∧ t ≤ 1 ∧ r.acc = addOpt e.acc t)

/-- One pass of the `for dim` loop, member by member (both directions). -/
theorem step_rel {l : List CEnt} {p : List (Rat × CEnt)} (h : crowdPeel l = some p) :
    (∀ r ∈ sweep (p.mergeSort keyLe), ∃ e ∈ l, EntRel e r) ∧
    (∀ e ∈ l, ∃ r ∈ sweep (p.mergeSort keyLe), EntRel e r) := by
  have hf := peel_eq h
  have hsw := sweep_rel _ (sorted_keys p)
  have hperm := List.mergeSort_perm p keyLe
  constructor
  · intro r hr
    obtain ⟨q, hq, hqr⟩ := forall2_mem_right hsw r hr
    obtain ⟨e, he, heq⟩ := forall2_mem_right hf q (hperm.subset hq)
    refine ⟨e, he, by rw [hqr.1, heq.2.1], by rw [hqr.2.1, heq.2.2.1], ?_, ?_⟩
    · intro k tl hk
      rw [heq.1] at hk
      rw [hqr.2.2.1]; exact (List.cons.inj hk).2
    · rw [← heq.2.2.2]; exact hqr.2.2.2
  · intro e he
    obtain ⟨q, hq, heq⟩ := forall2_mem_left hf e he
    obtain ⟨r, hr, hqr⟩ := forall2_mem_left hsw q (hperm.symm.subset hq)
    refine ⟨r, hr, by rw [hqr.1, heq.2.1], by rw [hqr.2.1, heq.2.2.1], ?_, ?_⟩
    · intro k tl hk
      rw [heq.1] at hk
      rw [hqr.2.2.1]; exact (List.cons.inj hk).2
    · rw [← heq.2.2.2]; exact hqr.2.2.2

theorem step_tag_perm {l : List CEnt} {p : List (Rat × CEnt)} (h : crowdPeel l = some p) :
    ((sweep (p.mergeSort keyLe)).map CEnt.tag).Perm (l.map CEnt.tag) := by
  have h1 : (sweep (p.mergeSort keyLe)).map CEnt.tag = (p.mergeSort keyLe).map (fun q => q.2.tag) := by
    have := congrArg (List.map (fun (x : Nat × List Rat × List Rat) => (x.1, x.2.1))) (sweep_tag (p.mergeSort keyLe))
    simp only [List.map_map, Function.comp_def] at this
    exact this
  have h2 : l.map CEnt.tag = p.map (fun q => q.2.tag) :=
    forall2_map_eq _ _ (peel_eq h) (fun e q r => by simp [CEnt.tag, r.2.1, r.2.2.1])
  rw [h1, h2]
  exact (List.mergeSort_perm p keyLe).map _

/-- The loop keeps the members: same positions and cost vectors, each exactly once. -/
theorem loop_tag_perm {m : Nat} {l r : List CEnt} (h : crowdLoop m l = some r) :
    (r.map CEnt.tag).Perm (l.map CEnt.tag) := by
  induction m generalizing l with
  | zero => simp [crowdLoop] at h; subst h; exact List.Perm.refl _
  | succ m ih =>
    unfold crowdLoop at h
    cases hp : crowdPeel l with
    | none => simp [hp] at h
    | some p =>
      simp only [hp] at h
      exact (ih h).trans (step_tag_perm hp)

/-- Finite distances stay within `[0, c + m]` over `m` objectives. -/
theorem loop_range {m : Nat} {l r : List CEnt} {c : Rat} (h : crowdLoop m l = some r)
    (hl : ∀ e ∈ l, ∀ v, e.acc = some v → 0 ≤ v ∧ v ≤ c) :
    ∀ e ∈ r, ∀ v, e.acc = some v → 0 ≤ v ∧ v ≤ c + m := by
  induction m generalizing l c with
  | zero => simp [crowdLoop] at h; subst h; simpa using hl
  | succ m ih =>
    unfold crowdLoop at h
    cases hp : crowdPeel l with
    | none => simp [hp] at h
    | some p =>
      simp only [hp] at h
      have := ih (c := c + 1) h ?_
      · intro e he v hv
        have := this e he v hv
        push_cast
        constructor <;> linarith
      · intro x hx v hv
        obtain ⟨e, he, _, _, _, hacc⟩ := (step_rel hp).1 x hx
        rcases hacc with hn | ⟨t, t0, t1, ht⟩
        · rw [hn] at hv; cases hv
        · rw [hv] at ht
          cases hea : e.acc with
          | none => simp [hea, addOpt] at ht
          | some a =>
            simp only [hea, addOpt, Option.some.injEq] at ht
            have := hl e he a hea
            subst ht
            constructor <;> linarith

/-- Once infinite, always infinite. -/
theorem loop_persist {m : Nat} {l r : List CEnt} (h : crowdLoop m l = some r) :
    ∀ e ∈ l, e.acc = none → ∃ x ∈ r, x.tag = e.tag ∧ x.acc = none := by
  induction m generalizing l with
  | zero => simp [crowdLoop] at h; subst h; intro e he hn; exact ⟨e, he, rfl, hn⟩
  | succ m ih =>
    unfold crowdLoop at h
    cases hp : crowdPeel l with
    | none => simp [hp] at h
    | some p =>
      simp only [hp] at h
      intro e he hn
      obtain ⟨x, hx, hi, hc, _, hacc⟩ := (step_rel hp).2 e he
      have hxn : x.acc = none := by
        rcases hacc with h1 | ⟨t, _, _, ht⟩
        · exact h1
        · rw [ht, hn]; rfl
      obtain ⟨y, hy, hty, hyn⟩ := ih h x hx hxn
      exact ⟨y, hy, by rw [hty]; simp [CEnt.tag, hi, hc], hyn⟩

end Artap

namespace Artap

/-- Loop invariant: `rest` is what is left of `costs` after `d` objectives. -/
def RestInv (d : Nat) (l : List CEnt) : Prop := ∀ e ∈ l, e.rest = e.costs.drop d

theorem drop_cons_facts {l : List Rat} {d : Nat} {k : Rat} {tl : List Rat} (h : l.drop d = k :: tl) :
    l[d]? = some k ∧ l.drop (d + 1) = tl := by
  constructor
  · have := List.head?_drop (l := l) (i := d)
    rw [h] at this
    simpa using this.symm
  · have := List.tail_drop (l := l) (i := d)
    rw [h] at this
    simpa using this.symm

/-- After `crowdPeel` under the invariant every key is the member's value in objective `d`. -/
theorem peel_key {l : List CEnt} {p : List (Rat × CEnt)} {d : Nat} (h : crowdPeel l = some p)
    (hi : RestInv d l) : ∀ q ∈ p, q.2.costs[d]? = some q.1 ∧ q.2.rest = q.2.costs.drop (d + 1) := by
  intro q hq
  obtain ⟨e, he, h1, _, h3, _⟩ := forall2_mem_right (peel_eq h) q hq
  have := hi e he
  rw [h1] at this
  have := drop_cons_facts this.symm
  rw [h3]
  exact ⟨this.1, this.2.symm⟩

theorem step_restInv {l : List CEnt} {p : List (Rat × CEnt)} {d : Nat} (h : crowdPeel l = some p)
    (hi : RestInv d l) : RestInv (d + 1) (sweep (p.mergeSort keyLe)) := by
  intro r hr
  obtain ⟨q, hq, hqr⟩ := forall2_mem_right (sweep_rel _ (sorted_keys p)) r hr
  have := (peel_key h hi q ((List.mergeSort_perm p keyLe).subset hq)).2
  rw [hqr.2.2.1, hqr.2.1]; exact this

theorem interior_last_mem (mx prev : Rat) (l : List (Rat × CEnt)) (hne : l ≠ []) :
    { (l.getLast hne).2 with acc := none } ∈ interior mx prev l := by
  induction l generalizing prev with
  | nil => exact absurd rfl hne
  | cons q tl ih =>
    obtain ⟨k, e⟩ := q
    cases tl with
    | nil => simp [interior]
    | cons q2 tl2 =>
      obtain ⟨k2, e2⟩ := q2
      simp only [interior]
      rw [List.getLast_cons (by simp)]
      exact List.mem_cons_of_mem _ (ih k (by simp))

theorem sweep_last_mem (s : List (Rat × CEnt)) (hne : s ≠ []) :
    ∃ r ∈ sweep s, r.acc = none ∧ r.costs = (s.getLast hne).2.costs := by
  cases s with
  | nil => exact absurd rfl hne
  | cons q tl =>
    obtain ⟨k0, e0⟩ := q
    rw [sweep_cons]
    cases tl with
    | nil => exact ⟨_, List.mem_cons_self, rfl, by simp⟩
    | cons q2 tl2 =>
      refine ⟨_, List.mem_cons_of_mem _ (interior_last_mem _ _ (q2 :: tl2) (by simp)), rfl, ?_⟩
      simp

/-- One objective: a holder of the minimum and a holder of the maximum become infinite. -/
theorem step_extreme {l : List CEnt} {p : List (Rat × CEnt)} {d : Nat} (h : crowdPeel l = some p)
    (hi : RestInv d l) (hne : l ≠ []) :
    (∃ r ∈ sweep (p.mergeSort keyLe), r.acc = none ∧ ∃ v, r.costs[d]? = some v ∧
      ∀ x ∈ sweep (p.mergeSort keyLe), ∀ w, x.costs[d]? = some w → v ≤ w) ∧
    (∃ r ∈ sweep (p.mergeSort keyLe), r.acc = none ∧ ∃ v, r.costs[d]? = some v ∧
      ∀ x ∈ sweep (p.mergeSort keyLe), ∀ w, x.costs[d]? = some w → w ≤ v) := by
  have hperm := List.mergeSort_perm p keyLe
  have hsorted := sorted_keys p
  have hsw := sweep_rel _ hsorted
  have hkey : ∀ q ∈ p.mergeSort keyLe, q.2.costs[d]? = some q.1 :=
    fun q hq => (peel_key h hi q (hperm.subset hq)).1
  have hpne : p.mergeSort keyLe ≠ [] := by
    intro e
    have h1 : (p.mergeSort keyLe).length = l.length := by
      rw [hperm.length_eq]; exact (peel_eq h).length_eq.symm
    rw [e] at h1
    exact hne (List.length_eq_zero_iff.1 h1.symm)
  -- every member of the swept list carries a key of the sorted list
  have hback : ∀ x ∈ sweep (p.mergeSort keyLe), ∀ w, x.costs[d]? = some w →
      ∃ q ∈ p.mergeSort keyLe, q.1 = w := by
    intro x hx w hw
    obtain ⟨q, hq, hqx⟩ := forall2_mem_right hsw x hx
    refine ⟨q, hq, ?_⟩
    have := hkey q hq
    rw [← hqx.2.1, hw] at this
    exact (Option.some.inj this).symm
  constructor
  · cases hs : p.mergeSort keyLe with
    | nil => exact absurd hs hpne
    | cons q tl =>
      obtain ⟨k0, e0⟩ := q
      rw [hs] at hkey hback hsorted
      refine ⟨{ e0 with acc := none }, by rw [sweep_cons]; exact List.mem_cons_self, rfl, k0,
        hkey (k0, e0) List.mem_cons_self, ?_⟩
      intro x hx w hw
      obtain ⟨q, hq, rfl⟩ := hback x hx w hw
      rcases List.mem_cons.1 hq with rfl | hq
      · exact le_refl _
      · exact (List.pairwise_cons.1 hsorted).1 q hq
  · obtain ⟨r, hr, hrn, hrc⟩ := sweep_last_mem _ hpne
    refine ⟨r, hr, hrn, ((p.mergeSort keyLe).getLast hpne).1, ?_, ?_⟩
    · rw [hrc]; exact hkey _ (List.getLast_mem _)
    · intro x hx w hw
      obtain ⟨q, hq, rfl⟩ := hback x hx w hw
      exact le_getLast_of_pairwise _ hpne hsorted q hq

/-- Over the whole loop: for every objective processed, some holder of its minimum and some
holder of its maximum end up infinite. -/
theorem loop_extremes {m : Nat} {l r : List CEnt} {d : Nat} (h : crowdLoop m l = some r)
    (hi : RestInv d l) (hne : l ≠ []) (j : Nat) (hj : d ≤ j) (hjm : j < d + m) :
    (∃ x ∈ r, x.acc = none ∧ ∃ v, x.costs[j]? = some v ∧
      ∀ y ∈ r, ∀ w, y.costs[j]? = some w → v ≤ w) ∧
    (∃ x ∈ r, x.acc = none ∧ ∃ v, x.costs[j]? = some v ∧
      ∀ y ∈ r, ∀ w, y.costs[j]? = some w → w ≤ v) := by
  induction m generalizing l d with
  | zero => omega
  | succ m ih =>
    unfold crowdLoop at h
    cases hp : crowdPeel l with
    | none => simp [hp] at h
    | some p =>
      simp only [hp] at h
      have hne' : sweep (p.mergeSort keyLe) ≠ [] := by
        intro e
        have := (step_tag_perm hp).length_eq
        rw [e] at this
        simp at this
        exact hne (List.length_eq_zero_iff.1 this.symm)
      by_cases hjd : j = d
      · subst hjd
        have hback : ∀ y ∈ r, ∃ y' ∈ sweep (p.mergeSort keyLe), y'.costs = y.costs := by
          intro y hy
          have : y.tag ∈ (sweep (p.mergeSort keyLe)).map CEnt.tag :=
            (loop_tag_perm h).subset (List.mem_map_of_mem hy)
          obtain ⟨y', hy', e⟩ := List.mem_map.1 this
          exact ⟨y', hy', by simpa [CEnt.tag] using (congrArg Prod.snd e)⟩
        obtain ⟨⟨x, hx, hxn, v, hv, hmin⟩, ⟨x2, hx2, hxn2, v2, hv2, hmax⟩⟩ := step_extreme hp hi hne
        obtain ⟨z, hz, htz, hzn⟩ := loop_persist h x hx hxn
        obtain ⟨z2, hz2, htz2, hzn2⟩ := loop_persist h x2 hx2 hxn2
        have ez : z.costs = x.costs := by simpa [CEnt.tag] using (congrArg Prod.snd htz)
        have ez2 : z2.costs = x2.costs := by simpa [CEnt.tag] using (congrArg Prod.snd htz2)
        refine ⟨⟨z, hz, hzn, v, by rw [ez]; exact hv, ?_⟩, ⟨z2, hz2, hzn2, v2, by rw [ez2]; exact hv2, ?_⟩⟩
        · intro y hy w hw
          obtain ⟨y', hy', e⟩ := hback y hy
          exact hmin y' hy' w (by rw [e]; exact hw)
        · intro y hy w hw
          obtain ⟨y', hy', e⟩ := hback y hy
          exact hmax y' hy' w (by rw [e]; exact hw)
      · exact ih h (step_restInv hp hi) hne' (by omega) (by omega)

end Artap

namespace Artap

theorem initEnts_mem {front : List (List Rat)} {a : Option Rat} {e : CEnt} (h : e ∈ initEnts front a) :
    e.acc = a ∧ e.rest = e.costs ∧ front[e.idx]? = some e.costs := by
  simp only [initEnts, List.mem_map] at h
  obtain ⟨⟨c, i⟩, hm, rfl⟩ := h
  refine ⟨rfl, rfl, ?_⟩
  have := List.mem_zipIdx hm
  simp at this
  obtain ⟨h1, h2⟩ := this
  simp [h1, h2]

theorem initEnts_tag (front : List (List Rat)) (a : Option Rat) :
    (initEnts front a).map (fun e => (e.costs, e.idx)) = front.zipIdx := by
  simp [initEnts, Function.comp_def]

theorem initEnts_restInv (front : List (List Rat)) (a : Option Rat) : RestInv 0 (initEnts front a) := by
  intro e he
  simp [(initEnts_mem he).2.1]

/-- What `crowding` is on a front of at least three members. -/
theorem crowding_big {front : List (List Rat)} {r : List CEnt} (h : crowding front = some r)
    (hn : 3 ≤ front.length) :
    ∃ f0 tl, front = f0 :: tl ∧ crowdLoop f0.length (initEnts front (some 0)) = some r := by
  unfold crowding at h
  have : ¬ front.length ≤ 2 := by omega
  simp only [this, if_false] at h
  cases front with
  | nil => simp at hn
  | cons f0 tl => exact ⟨f0, tl, rfl, h⟩

theorem tag_perm_swap {r l : List CEnt} (h : (r.map CEnt.tag).Perm (l.map CEnt.tag)) :
    (r.map (fun e => (e.costs, e.idx))).Perm (l.map (fun e => (e.costs, e.idx))) := by
  have := h.map (fun (x : Nat × List Rat) => (x.2, x.1))
  simpa [List.map_map, Function.comp_def, CEnt.tag] using this

end Artap

namespace Artap

/-! ### Fronts without tied values: the order-theoretic formula -/

def IsMinOf (vals : List Rat) (v : Rat) : Prop := v ∈ vals ∧ ∀ w ∈ vals, v ≤ w
def IsMaxOf (vals : List Rat) (v : Rat) : Prop := v ∈ vals ∧ ∀ w ∈ vals, w ≤ v
/-- `p` is the greatest value of `vals` below `v`. -/
def IsPredOf (vals : List Rat) (v p : Rat) : Prop := p ∈ vals ∧ p < v ∧ ∀ w ∈ vals, w < v → w ≤ p
/-- `s` is the least value of `vals` above `v`. -/
def IsSuccOf (vals : List Rat) (v s : Rat) : Prop := s ∈ vals ∧ v < s ∧ ∀ w ∈ vals, v < w → s ≤ w

def StrictRel (vals : List Rat) (mx : Rat) (q : Rat × CEnt) (r : CEnt) : Prop :=
  (r.acc = none ∧ IsMaxOf vals q.1) ∨
  (∃ p s, IsPredOf vals q.1 p ∧ IsSuccOf vals q.1 s ∧
    r.acc = if 0 < mx then addOpt q.2.acc ((s - p) / mx) else q.2.acc)

theorem interior_strict (vals : List Rat) (mx prev : Rat) (l : List (Rat × CEnt))
    (hs : l.Pairwise (fun a b => a.1 < b.1)) (hp : ∀ q ∈ l, prev < q.1)
    (hpv : prev ∈ vals) (hlv : ∀ q ∈ l, q.1 ∈ vals)
    (hv : ∀ w ∈ vals, w ≤ prev ∨ ∃ q ∈ l, q.1 = w) :
    List.Forall₂ (StrictRel vals mx) l (interior mx prev l) := by
  induction l generalizing prev with
  | nil => simp [interior]
  | cons q tl ih =>
    obtain ⟨k, e⟩ := q
    have hk : prev < k := hp (k, e) List.mem_cons_self
    have hs' := List.pairwise_cons.1 hs
    cases tl with
    | nil =>
      simp only [interior]
      refine List.Forall₂.cons (Or.inl ⟨rfl, hlv _ List.mem_cons_self, ?_⟩) List.Forall₂.nil
      intro w hw
      rcases hv w hw with h | ⟨q, hq, rfl⟩
      · exact le_of_lt (lt_of_le_of_lt h hk)
      · simp at hq; subst hq; exact le_refl _
    | cons q2 tl2 =>
      obtain ⟨k2, e2⟩ := q2
      simp only [interior]
      have hk2 : k < k2 := hs'.1 (k2, e2) List.mem_cons_self
      refine List.Forall₂.cons (Or.inr ⟨prev, k2, ⟨hpv, hk, ?_⟩, ⟨hlv (k2, e2) (by simp), hk2, ?_⟩, rfl⟩) ?_
      · intro w hw hwk
        rcases hv w hw with h | ⟨q, hq, rfl⟩
        · exact h
        · exfalso
          rcases List.mem_cons.1 hq with rfl | hq
          · exact lt_irrefl _ hwk
          · exact lt_asymm hwk (hs'.1 q hq)
      · intro w hw hkw
        rcases hv w hw with h | ⟨q, hq, rfl⟩
        · exfalso; exact lt_irrefl _ (lt_of_lt_of_le (lt_trans hk hkw) h)
        · rcases List.mem_cons.1 hq with rfl | hq
          · exact absurd hkw (lt_irrefl _)
          · rcases List.mem_cons.1 hq with rfl | hq
            · exact le_refl _
            · exact le_of_lt ((List.pairwise_cons.1 hs'.2).1 q hq)
      · apply ih k hs'.2 (fun q hq => hs'.1 q hq) (hlv _ List.mem_cons_self)
          (fun q hq => hlv q (List.mem_cons_of_mem _ hq))
        intro w hw
        rcases hv w hw with h | ⟨q, hq, rfl⟩
        · exact Or.inl (le_of_lt (lt_of_le_of_lt h hk))
        · rcases List.mem_cons.1 hq with rfl | hq
          · exact Or.inl (le_refl _)
          · exact Or.inr ⟨q, hq, rfl⟩

/-- What one objective without ties does to a member, in order-theoretic terms. -/
def FormulaRel (vals : List Rat) (q : Rat × CEnt) (r : CEnt) : Prop :=
  (r.acc = none ∧ (IsMinOf vals q.1 ∨ IsMaxOf vals q.1)) ∨
  (∃ p s lo hi, IsPredOf vals q.1 p ∧ IsSuccOf vals q.1 s ∧ IsMinOf vals lo ∧ IsMaxOf vals hi ∧
    lo < hi ∧ r.acc = addOpt q.2.acc ((s - p) / (hi - lo)))

theorem sweep_strict (vals : List Rat) (s : List (Rat × CEnt))
    (hs : s.Pairwise (fun a b => a.1 < b.1)) (hv : ∀ w, w ∈ vals ↔ ∃ q ∈ s, q.1 = w) :
    List.Forall₂ (FormulaRel vals) s (sweep s) := by
  cases s with
  | nil => simp [sweep]
  | cons q tl =>
    obtain ⟨k0, e0⟩ := q
    rw [sweep_cons]
    have hs' := List.pairwise_cons.1 hs
    have hle : ((k0, e0) :: tl).Pairwise (fun a b => a.1 ≤ b.1) := hs.imp le_of_lt
    have hmin : IsMinOf vals k0 := by
      refine ⟨(hv k0).2 ⟨_, List.mem_cons_self, rfl⟩, ?_⟩
      intro w hw
      obtain ⟨q, hq, rfl⟩ := (hv w).1 hw
      rcases List.mem_cons.1 hq with rfl | hq
      · exact le_refl _
      · exact le_of_lt (hs'.1 q hq)
    have hmax : IsMaxOf vals (((k0, e0) :: tl).getLast (by simp)).1 := by
      refine ⟨(hv _).2 ⟨_, List.getLast_mem _, rfl⟩, ?_⟩
      intro w hw
      obtain ⟨q, hq, rfl⟩ := (hv w).1 hw
      exact le_getLast_of_pairwise _ (by simp) hle q hq
    refine List.Forall₂.cons (Or.inl ⟨rfl, Or.inl hmin⟩) ?_
    have := interior_strict vals ((((k0, e0) :: tl).getLast (by simp)).1 - k0) k0 tl hs'.2
      (fun q hq => hs'.1 q hq) hmin.1 (fun q hq => (hv q.1).2 ⟨q, List.mem_cons_of_mem _ hq, rfl⟩) ?_
    · refine this.imp ?_
      intro q r hqr
      rcases hqr with ⟨hn, hm⟩ | ⟨p, s, hp, hsu, hacc⟩
      · exact Or.inl ⟨hn, Or.inr hm⟩
      · have h1 : k0 ≤ p := hmin.2 p hp.1
        have h2 : s ≤ _ := hmax.2 s hsu.1
        have h3 : k0 < (((k0, e0) :: tl).getLast (by simp)).1 :=
          lt_of_le_of_lt h1 (lt_of_lt_of_le (lt_trans hp.2.1 hsu.2.1) h2)
        have h4 : 0 < (((k0, e0) :: tl).getLast (by simp)).1 - k0 := by linarith
        rw [if_pos h4] at hacc
        exact Or.inr ⟨p, s, k0, _, hp, hsu, hmin, hmax, h3, hacc⟩
    · intro w hw
      obtain ⟨q, hq, rfl⟩ := (hv w).1 hw
      rcases List.mem_cons.1 hq with rfl | hq
      · exact Or.inl (le_refl _)
      · exact Or.inr ⟨q, hq, rfl⟩

end Artap

namespace Artap

/-- Values of objective `j` over the front. -/
def column (front : List (List Rat)) (j : Nat) : List Rat := front.filterMap (·[j]?)

/-- The member with cost vector `c` holds the minimum or the maximum of objective `j`. -/
def Extreme (front : List (List Rat)) (c : List Rat) (j : Nat) : Prop :=
  ∃ v, c[j]? = some v ∧ (IsMinOf (column front j) v ∨ IsMaxOf (column front j) v)

/-- Objective `j` contributes `t` = (least greater value − greatest smaller value) / range. -/
def Term (front : List (List Rat)) (c : List Rat) (j : Nat) (t : Rat) : Prop :=
  ∃ v p s lo hi, c[j]? = some v ∧ IsPredOf (column front j) v p ∧ IsSuccOf (column front j) v s ∧
    IsMinOf (column front j) lo ∧ IsMaxOf (column front j) hi ∧ lo < hi ∧ t = (s - p) / (hi - lo)

/-- The property's crowding distance over objectives `0 … d-1` (`none` = inf): inf as soon as
the member is extreme in one objective, otherwise the sum of the terms. -/
inductive CrowdSpec (front : List (List Rat)) (c : List Rat) : Nat → Option Rat → Prop
  | zero : CrowdSpec front c 0 (some 0)
  | extreme {d a} : CrowdSpec front c d a → Extreme front c d → CrowdSpec front c (d + 1) none
  | stay {d t} : CrowdSpec front c d none → Term front c d t → CrowdSpec front c (d + 1) none
  | add {d a t} : CrowdSpec front c d (some a) → Term front c d t →
      CrowdSpec front c (d + 1) (some (a + t))

theorem forall2_and {α β} {R Q : α → β → Prop} {l : List α} {p : List β}
    (h₁ : List.Forall₂ R l p) (h₂ : List.Forall₂ Q l p) :
    List.Forall₂ (fun a b => R a b ∧ Q a b) l p := by
  induction h₁ with
  | nil => exact List.Forall₂.nil
  | cons hab _ ih =>
    cases h₂ with
    | cons hq ht => exact List.Forall₂.cons ⟨hab, hq⟩ (ih ht)

/-- The keys of one pass are the column of the objective, as a multiset. -/
theorem keys_perm_column {front : List (List Rat)} {l : List CEnt} {p : List (Rat × CEnt)} {d : Nat}
    (h : crowdPeel l = some p) (hi : RestInv d l) (hf : (l.map (·.costs)).Perm front) :
    ((p.mergeSort keyLe).map (·.1)).Perm (column front d) := by
  have h1 : ((p.mergeSort keyLe).map (·.1)).Perm (p.map (·.1)) := (List.mergeSort_perm p keyLe).map _
  have h2 : l.map (·.costs) = p.map (·.2.costs) :=
    forall2_map_eq _ _ (peel_eq h) (fun e q r => r.2.2.1.symm)
  have h3 : (p.map (·.2.costs)).filterMap (·[d]?) = p.map (·.1) := by
    rw [List.filterMap_map]
    have : ∀ q ∈ p, ((fun c : List Rat => c[d]?) ∘ fun q : Rat × CEnt => q.2.costs) q = some q.1 :=
      fun q hq => (peel_key h hi q hq).1
    rw [List.filterMap_congr this]
    exact congrFun (List.filterMap_eq_map (f := fun q : Rat × CEnt => q.1)) p
  rw [← h3, ← h2] at h1
  exact h1.trans (hf.filterMap _)

theorem strict_of_nodup (s : List (Rat × CEnt)) (hs : s.Pairwise (fun a b => a.1 ≤ b.1))
    (hn : (s.map (·.1)).Nodup) : s.Pairwise (fun a b => a.1 < b.1) := by
  have hn' : s.Pairwise (fun a b => a.1 ≠ b.1) := by
    simpa [List.Nodup, List.pairwise_map] using hn
  exact (hs.and hn').imp (fun h => lt_of_le_of_ne h.1 h.2)

/-- One pass of the loop on an objective without ties advances the specification. -/
theorem step_formula {front : List (List Rat)} {l : List CEnt} {p : List (Rat × CEnt)} {d : Nat}
    (h : crowdPeel l = some p) (hi : RestInv d l) (hf : (l.map (·.costs)).Perm front)
    (hnd : (column front d).Nodup) (hspec : ∀ e ∈ l, CrowdSpec front e.costs d e.acc) :
    ∀ r ∈ sweep (p.mergeSort keyLe), CrowdSpec front r.costs (d + 1) r.acc := by
  have hperm := List.mergeSort_perm p keyLe
  have hkp := keys_perm_column h hi hf
  have hstrict := strict_of_nodup _ (sorted_keys p) (hkp.nodup_iff.2 hnd)
  have hv : ∀ w, w ∈ column front d ↔ ∃ q ∈ p.mergeSort keyLe, q.1 = w := by
    intro w
    rw [← hkp.mem_iff, List.mem_map]
  have hboth := forall2_and (sweep_rel _ (sorted_keys p)) (sweep_strict _ _ hstrict hv)
  intro r hr
  obtain ⟨q, hq, hrel, hform⟩ := forall2_mem_right hboth r hr
  have hqp : q ∈ p := hperm.subset hq
  obtain ⟨e, he, _, _, hec, hea⟩ := forall2_mem_right (peel_eq h) q hqp
  have hkey := (peel_key h hi q hqp).1
  have hsp := hspec e he
  rw [← hec] at hsp
  rw [hrel.2.1]
  rcases hform with ⟨hn, hext⟩ | ⟨pr, su, lo, hi', hp, hs, hlo, hhi, hlt, hacc⟩
  · rw [hn]
    exact CrowdSpec.extreme (hea ▸ hsp) ⟨q.1, hkey, hext⟩
  · have hterm : Term front q.2.costs d ((su - pr) / (hi' - lo)) :=
      ⟨q.1, pr, su, lo, hi', hkey, hp, hs, hlo, hhi, hlt, rfl⟩
    rw [hacc]
    cases hqa : q.2.acc with
    | none =>
      rw [← hea, hqa] at hsp
      exact CrowdSpec.stay hsp hterm
    | some a =>
      rw [← hea, hqa] at hsp
      exact CrowdSpec.add hsp hterm

theorem loop_formula {front : List (List Rat)} {m : Nat} {l r : List CEnt} {d : Nat}
    (h : crowdLoop m l = some r) (hi : RestInv d l) (hf : (l.map (·.costs)).Perm front)
    (hnd : ∀ j, d ≤ j → j < d + m → (column front j).Nodup)
    (hspec : ∀ e ∈ l, CrowdSpec front e.costs d e.acc) :
    ∀ e ∈ r, CrowdSpec front e.costs (d + m) e.acc := by
  induction m generalizing l d with
  | zero => simp [crowdLoop] at h; subst h; simpa using hspec
  | succ m ih =>
    unfold crowdLoop at h
    cases hp : crowdPeel l with
    | none => simp [hp] at h
    | some p =>
      simp only [hp] at h
      have hf' : ((sweep (p.mergeSort keyLe)).map (·.costs)).Perm front := by
        have := (step_tag_perm hp).map Prod.snd
        simp only [List.map_map, Function.comp_def, CEnt.tag] at this
        exact this.trans hf
      have := ih h (step_restInv hp hi) hf' (fun j h1 h2 => hnd j (by omega) (by omega))
        (step_formula hp hi hf (hnd d (le_refl _) (by omega)) hspec)
      intro e he
      have := this e he
      rwa [show d + 1 + m = d + (m + 1) by omega] at this

end Artap

namespace Artap

/-- A member cannot be extreme in an objective and have an interior term there. -/
theorem term_not_extreme {front : List (List Rat)} {c : List Rat} {j : Nat} {t : Rat}
    (ht : Term front c j t) : ¬ Extreme front c j := by
  obtain ⟨v, p, s, lo, hi, hv, hp, hs, _⟩ := ht
  rintro ⟨v', hv', hm | hm⟩
  · rw [hv] at hv'; cases hv'
    exact absurd (hm.2 p hp.1) (not_le.2 hp.2.1)
  · rw [hv] at hv'; cases hv'
    exact absurd (hm.2 s hs.1) (not_le.2 hs.2.1)

theorem sum_append_singleton (l : List Rat) (t : Rat) : (l ++ [t]).sum = l.sum + t := by
  induction l with
  | nil => simp
  | cons a l ih => simp [ih, add_assoc]

/-- Reading of `CrowdSpec … none`: the member is extreme in some objective. -/
theorem crowdSpec_none {front : List (List Rat)} {c : List Rat} {d : Nat} {a : Option Rat}
    (h : CrowdSpec front c d a) (ha : a = none) : ∃ j, j < d ∧ Extreme front c j := by
  induction h with
  | zero => cases ha
  | extreme _ he _ => exact ⟨_, Nat.lt_succ_self _, he⟩
  | stay _ _ ih =>
    obtain ⟨j, hj, he⟩ := ih rfl
    exact ⟨j, Nat.lt_succ_of_lt hj, he⟩
  | add _ _ _ => cases ha

/-- Reading of `CrowdSpec … (some a)`: `a` is the sum of one interior term per objective. -/
theorem crowdSpec_some {front : List (List Rat)} {c : List Rat} {d : Nat} {a : Option Rat}
    (h : CrowdSpec front c d a) (x : Rat) (ha : a = some x) :
    ∃ ts : List Rat, ts.length = d ∧ x = ts.sum ∧ ∀ j t, ts[j]? = some t → Term front c j t := by
  induction h generalizing x with
  | zero => cases ha; exact ⟨[], rfl, by simp, by simp⟩
  | extreme _ _ _ => cases ha
  | stay _ _ _ => cases ha
  | @add d a t _ ht ih =>
    cases ha
    obtain ⟨ts, hl, hs, hts⟩ := ih a rfl
    refine ⟨ts ++ [t], by simp [hl], by rw [sum_append_singleton, hs], ?_⟩
    intro j u hu
    by_cases hj : j < ts.length
    · rw [List.getElem?_append_left hj] at hu
      exact hts j u hu
    · rw [List.getElem?_append_right (by omega)] at hu
      have : j - ts.length = 0 := by
        by_contra hne
        have : [t][j - ts.length]? = none := by
          apply List.getElem?_eq_none; simp; omega
        rw [this] at hu; cases hu
      rw [this] at hu
      simp at hu
      subst hu
      have : j = d := by omega
      subst this
      exact ht

theorem peel_isSome {l : List CEnt} (h : ∀ e ∈ l, e.rest ≠ []) : ∃ p, crowdPeel l = some p := by
  induction l with
  | nil => exact ⟨[], rfl⟩
  | cons e l ih =>
    obtain ⟨t, ht⟩ := ih (fun x hx => h x (List.mem_cons_of_mem _ hx))
    have := h e List.mem_cons_self
    cases hr : e.rest with
    | nil => exact absurd hr this
    | cons k r => exact ⟨(k, { e with rest := r }) :: t, by simp [crowdPeel, hr, ht]⟩

/-- The loop does not raise when every cost vector is long enough. -/
theorem loop_total {m : Nat} {l : List CEnt} {d : Nat} (hi : RestInv d l)
    (hlen : ∀ e ∈ l, d + m ≤ e.costs.length) : ∃ r, crowdLoop m l = some r := by
  induction m generalizing l d with
  | zero => exact ⟨l, rfl⟩
  | succ m ih =>
    have hne : ∀ e ∈ l, e.rest ≠ [] := by
      intro e he h0
      have h1 := hi e he
      have h2 := hlen e he
      rw [h0] at h1
      have := congrArg List.length h1
      simp at this
      omega
    obtain ⟨p, hp⟩ := peel_isSome hne
    have hlen' : ∀ e ∈ sweep (p.mergeSort keyLe), d + 1 + m ≤ e.costs.length := by
      intro x hx
      obtain ⟨e, he, _, hc, _⟩ := (step_rel hp).1 x hx
      rw [hc]; have := hlen e he; omega
    obtain ⟨r, hr⟩ := ih (step_restInv hp hi) hlen'
    exact ⟨r, by simp [crowdLoop, hp, hr]⟩

end Artap

namespace Artap

instance (vals : List Rat) (v : Rat) : Decidable (IsMinOf vals v) := by unfold IsMinOf; infer_instance
instance (vals : List Rat) (v : Rat) : Decidable (IsMaxOf vals v) := by unfold IsMaxOf; infer_instance
instance (vals : List Rat) (v p : Rat) : Decidable (IsPredOf vals v p) := by unfold IsPredOf; infer_instance
instance (vals : List Rat) (v s : Rat) : Decidable (IsSuccOf vals v s) := by unfold IsSuccOf; infer_instance
instance (pop : List Ind) : Decidable (RankConsistent pop) := by unfold RankConsistent; infer_instance

end Artap

namespace Artap

/-- Positions of the first occurrence of every design (the representatives CPython's `set`
keeps), in population order: a witness that every population has an admissible oracle. -/
def firstOcc : List Ind → Nat → List Nat → List Nat
  | [], _, _ => []
  | x :: l, i, seen =>
    if x.design ∈ seen then firstOcc l (i + 1) seen else i :: firstOcc l (i + 1) (x.design :: seen)

theorem firstOcc_spec (pre l : List Ind) (seen : List Nat) :
    ∃ picked, pick (pre ++ l) (firstOcc l pre.length seen) = some picked ∧
      (∀ p ∈ picked, p.2.design ∉ seen) ∧ (picked.map (·.2.design)).Nodup ∧
      ∀ x ∈ l, x.design ∈ seen ∨ ∃ p ∈ picked, p.2.design = x.design := by
  induction l generalizing pre seen with
  | nil => exact ⟨[], by simp [firstOcc, pick], by simp, by simp, by simp⟩
  | cons x l ih =>
    have hpop : pre ++ x :: l = (pre ++ [x]) ++ l := by simp
    have hlen : (pre ++ [x]).length = pre.length + 1 := by simp
    by_cases hx : x.design ∈ seen
    · obtain ⟨picked, h1, h2, h3, h4⟩ := ih (pre ++ [x]) seen
      refine ⟨picked, ?_, h2, h3, ?_⟩
      · rw [hpop]; simp only [firstOcc, hx, if_true]; rw [← hlen]; exact h1
      · intro y hy
        rcases List.mem_cons.1 hy with rfl | hy
        · exact Or.inl hx
        · exact h4 y hy
    · obtain ⟨picked, h1, h2, h3, h4⟩ := ih (pre ++ [x]) (x.design :: seen)
      have hget : (pre ++ x :: l)[pre.length]? = some x := by simp
      refine ⟨(pre.length, x) :: picked, ?_, ?_, ?_, ?_⟩
      · simp only [firstOcc, hx, if_false]
        rw [hlen, ← hpop] at h1
        simp only [pick, hget, h1]
      · intro p hp
        rcases List.mem_cons.1 hp with rfl | hp
        · exact hx
        · exact fun hm => h2 p hp (List.mem_cons_of_mem _ hm)
      · simp only [List.map_cons, List.nodup_cons, h3, and_true, List.mem_map, not_exists, not_and]
        intro p hp he
        exact h2 p hp (by rw [he]; exact List.mem_cons_self)
      · intro y hy
        rcases List.mem_cons.1 hy with rfl | hy
        · exact Or.inr ⟨_, List.mem_cons_self, rfl⟩
        · rcases h4 y hy with hm | ⟨p, hp, he⟩
          · rcases List.mem_cons.1 hm with he | hm
            · exact Or.inr ⟨_, List.mem_cons_self, he.symm⟩
            · exact Or.inl hm
          · exact Or.inr ⟨p, List.mem_cons_of_mem _ hp, he⟩

end Artap
