import ArtapModel.Model.Equality
import Mathlib.Algebra.Order.Field.Basic
import Mathlib.Algebra.Order.Field.Rat
import Mathlib.Data.List.Forall2
import Mathlib.Tactic.Linarith
/-! # Lemmas about `Individual.__eq__` and its consumers (helper file for `Props/C20.lean`) -/
namespace Artap.Equality

theorem absR_eq (x : Rat) : absR x = |x| := by
  unfold absR
  split
  · rw [abs_of_neg (by assumption)]
  · rw [abs_of_nonneg (by linarith)]

theorem tol_pos : 0 < tol := by unfold tol; norm_num

/-- One coordinate coincides to `1e-10`. -/
def CloseC (a b : Rat) : Prop := |a - b| < tol
/-- Specification of design-point equality: equal length and every coordinate within `1e-10`. -/
def Close (v w : Vec) : Prop := List.Forall₂ CloseC v w

/-- `o` is a Python boolean that did not raise and decides `P`. -/
def Decides (o : Option Bool) (P : Prop) : Prop := (o = some true ↔ P) ∧ (o = some false ↔ ¬ P)

theorem Decides.pos {o P} (h : Decides o P) (p : P) : o = some true := h.1.2 p
theorem Decides.neg {o P} (h : Decides o P) (p : ¬ P) : o = some false := h.2.2 p
theorem Decides.total {o P} (h : Decides o P) : o = some true ∨ o = some false := by
  by_cases p : P
  · exact Or.inl (h.pos p)
  · exact Or.inr (h.neg p)

theorem closeC_symm {a b : Rat} (h : CloseC a b) : CloseC b a := by
  unfold CloseC at *; rwa [abs_sub_comm]

theorem closeC_refl (a : Rat) : CloseC a a := by
  unfold CloseC; simpa using tol_pos

theorem close_symm {v w : Vec} (h : Close v w) : Close w v := by
  induction h with
  | nil => exact List.Forall₂.nil
  | cons h _ ih => exact List.Forall₂.cons (closeC_symm h) ih

theorem close_comm (v w : Vec) : Close v w ↔ Close w v := ⟨close_symm, close_symm⟩

theorem close_refl (v : Vec) : Close v v := by
  induction v with
  | nil => exact List.Forall₂.nil
  | cons a v ih => exact List.Forall₂.cons (closeC_refl a) ih

theorem close_length {v w : Vec} (h : Close v w) : v.length = w.length := h.length_eq

/-- Index form of the specification. -/
theorem close_iff_index (v w : Vec) :
    Close v w ↔ v.length = w.length ∧
      ∀ i (h1 : i < v.length) (h2 : i < w.length), |v[i] - w[i]| < tol := by
  unfold Close
  rw [List.forall₂_iff_get]
  simp only [List.get_eq_getElem, CloseC]

theorem eqLoop_spec (as bs : Vec) (d : Rat) (hl : as.length = bs.length)
    (hd : as ≠ [] ∨ d < tol) : Decides (eqLoop as bs d) (Close as bs) := by
  induction as generalizing bs d with
  | nil =>
    cases bs with
    | nil =>
      have hd' : d < tol := by simpa using hd
      simp [Decides, eqLoop, hd', Close]
    | cons b bs => simp at hl
  | cons a as ih =>
    cases bs with
    | nil => simp at hl
    | cons b bs =>
      simp only [List.length_cons, Nat.add_right_cancel_iff] at hl
      simp only [Decides, eqLoop, absR_eq, Close, List.forall₂_cons]
      by_cases h : |a - b| < tol
      · have := ih bs (|a - b|) hl (Or.inr h)
        have hc : CloseC a b := h
        simp only [h, if_true, hc, true_and]
        exact this
      · have hc : ¬ CloseC a b := h
        simp [h, hc]

/-- `__eq__` on vectors of equal length `≥ 1` never raises and decides `Close`. -/
theorem indEq_spec (v w : Vec) (hl : v.length = w.length) (hn : v ≠ []) :
    Decides (indEq v w) (Close v w) := eqLoop_spec v w 1 hl (Or.inl hn)

/-- vectors of one common length `n` -/
def Uniform (n : Nat) (l : List Vec) : Prop := ∀ v ∈ l, v.length = n

theorem ne_nil_of_length {n : Nat} (hn : 1 ≤ n) {v : Vec} (h : v.length = n) : v ≠ [] := by
  intro e; subst e; simp at h; omega

theorem anyEq_spec (f : Vec → Option Bool) (P : Vec → Prop) (l : List Vec)
    (h : ∀ e ∈ l, Decides (f e) (P e)) : Decides (anyEq f l) (∃ e ∈ l, P e) := by
  induction l with
  | nil => simp [Decides, anyEq]
  | cons e es ih =>
    have he := h e (by simp)
    have ih' := ih (fun x hx => h x (by simp [hx]))
    by_cases p : P e
    · have : f e = some true := he.pos p
      simp only [anyEq, this, Decides]
      constructor
      · simp only [true_iff]; exact ⟨e, by simp, p⟩
      · simp only [Option.some.injEq, Bool.true_eq_false, false_iff, not_not]
        exact ⟨e, by simp, p⟩
    · have : f e = some false := he.neg p
      simp only [anyEq, this, List.mem_cons, exists_eq_or_imp, p, false_or]
      exact ih'


theorem indEq_close_left {n : Nat} (hn : 1 ≤ n) {e x : Vec} (he : e.length = n) (hx : x.length = n) :
    Decides (indEq e x) (Close e x) :=
  indEq_spec e x (he.trans hx.symm) (ne_nil_of_length hn he)

/-- `x in l` -/
theorem memInd_spec {n : Nat} (hn : 1 ≤ n) (l : List Vec) (x : Vec) (hl : Uniform n l)
    (hx : x.length = n) : Decides (memInd l x) (∃ e ∈ l, Close e x) :=
  anyEq_spec _ _ l (fun e he => indEq_close_left hn (hl e he) hx)

/-- `any(c == o for o in offs)` -/
theorem seen_spec {n : Nat} (hn : 1 ≤ n) (l : List Vec) (c : Vec) (hl : Uniform n l)
    (hc : c.length = n) : Decides (anyEq (indEq c) l) (∃ o ∈ l, Close c o) :=
  anyEq_spec _ _ l (fun e he => indEq_close_left hn hc (hl e he))

theorem removeFirst_spec {n : Nat} (hn : 1 ≤ n) (l : List Vec) (x : Vec) (hl : Uniform n l)
    (hx : x.length = n) :
    (removeFirst x l = .valueError ∧ ∀ e ∈ l, ¬ Close e x) ∨
    (∃ l1 e l2, l = l1 ++ e :: l2 ∧ removeFirst x l = .removed (l1 ++ l2) ∧ Close e x ∧
      ∀ o ∈ l1, ¬ Close o x) := by
  induction l with
  | nil => left; simp [removeFirst]
  | cons e es ih =>
    have he := indEq_close_left hn (hl e (by simp)) hx
    have ih' := ih (fun v hv => hl v (by simp [hv]))
    by_cases p : Close e x
    · right
      refine ⟨[], e, es, by simp, ?_, p, by simp⟩
      simp [removeFirst, he.pos p]
    · rcases ih' with ⟨h1, h2⟩ | ⟨l1, e', l2, h1, h2, h3, h4⟩
      · left
        refine ⟨by simp [removeFirst, he.neg p, h1], ?_⟩
        intro o ho
        rcases List.mem_cons.mp ho with rfl | ho
        · exact p
        · exact h2 o ho
      · right
        refine ⟨e :: l1, e', l2, by simp [h1], by simp [removeFirst, he.neg p, h2], h3, ?_⟩
        intro o ho
        rcases List.mem_cons.mp ho with rfl | ho
        · exact p
        · exact h4 o ho

theorem setInsert_eq (s : List Vec) (x : Vec) (hx : x ≠ []) :
    setInsert s x = if x ∈ s then s else s ++ [x] := by
  unfold setInsert
  have hxx : indEq x x = some true := (indEq_spec x x rfl hx).pos (close_refl x)
  have : s.any (fun e => hashKey e == hashKey x && indEq e x == some true) = decide (x ∈ s) := by
    rw [Bool.eq_iff_iff]
    simp only [List.any_eq_true, Bool.and_eq_true, beq_iff_eq, hashKey, decide_eq_true_eq]
    constructor
    · rintro ⟨e, he, rfl, _⟩; exact he
    · intro h; exact ⟨x, h, rfl, hxx⟩
  rw [this]
  by_cases h : x ∈ s <;> simp [h]

theorem foldl_setInsert (l acc : List Vec) (hl : ∀ v ∈ l, v ≠ []) (hacc : acc.Nodup) :
    (l.foldl setInsert acc).Nodup ∧ (∀ x, x ∈ l.foldl setInsert acc ↔ x ∈ acc ∨ x ∈ l) ∧
    ∃ t, l.foldl setInsert acc = acc ++ t ∧ t.Sublist l := by
  induction l generalizing acc with
  | nil => exact ⟨hacc, by simp, [], by simp⟩
  | cons a l ih =>
    have ha : a ≠ [] := hl a (by simp)
    have hl' : ∀ v ∈ l, v ≠ [] := fun v hv => hl v (by simp [hv])
    simp only [List.foldl_cons, setInsert_eq _ _ ha]
    by_cases h : a ∈ acc
    · simp only [h, if_true]
      obtain ⟨h1, h2, t, h3, h4⟩ := ih acc hl' hacc
      refine ⟨h1, ?_, t, h3, h4.trans (List.sublist_cons_self a l)⟩
      intro x; rw [h2 x]; simp only [List.mem_cons]
      constructor
      · rintro (h | h); exact Or.inl h; exact Or.inr (Or.inr h)
      · rintro (h' | rfl | h'); exact Or.inl h'; exact Or.inl h; exact Or.inr h'
    · simp only [h, if_false]
      have hn : (acc ++ [a]).Nodup := by
        rw [List.nodup_append]
        refine ⟨hacc, by simp, ?_⟩
        intro x hx y hy
        simp at hy; subst hy
        intro e; subst e; exact h hx
      obtain ⟨h1, h2, t, h3, h4⟩ := ih (acc ++ [a]) hl' hn
      refine ⟨h1, ?_, a :: t, by simp [h3], h4.cons_cons a⟩
      intro x; rw [h2 x]; simp only [List.mem_append, List.mem_cons, List.not_mem_nil, or_false]
      tauto

/-- no two members are equal designs -/
def Distinct (l : List Vec) : Prop := l.Pairwise (fun a b => ¬ Close a b)

theorem distinct_snoc {l : List Vec} {c : Vec} (hd : Distinct l) (hc : ∀ o ∈ l, ¬ Close c o) :
    Distinct (l ++ [c]) := by
  unfold Distinct at *
  rw [List.pairwise_append]
  refine ⟨hd, List.pairwise_singleton _ _, ?_⟩
  intro a ha b hb
  simp at hb; subst hb
  exact fun h => hc a ha (close_symm h)

open Classical in
theorem addChild1_eq {n : Nat} (hn : 1 ≤ n) (N : Nat) (offs : List Vec) (c : Vec)
    (hu : Uniform n offs) (hc : c.length = n) :
    addChild1 N offs c =
      some (if (∃ o ∈ offs, Close c o) ∧ offs.length < N then offs else offs ++ [c]) := by
  have h := seen_spec hn offs c hu hc
  unfold addChild1
  by_cases p : ∃ o ∈ offs, Close c o
  · rw [h.pos p]; simp [p]
  · rw [h.neg p]; simp [p]

open Classical in
theorem addChild2_eq {n : Nat} (hn : 1 ≤ n) (N : Nat) (offs : List Vec) (c : Vec)
    (hu : Uniform n offs) (hc : c.length = n) :
    addChild2 N offs c =
      some (if (∃ o ∈ offs, Close c o) ∨ ¬ offs.length < N then offs else offs ++ [c]) := by
  have h := seen_spec hn offs c hu hc
  unfold addChild2
  by_cases p : ∃ o ∈ offs, Close c o
  · rw [h.pos p]; by_cases q : offs.length < N <;> simp [p, q]
  · rw [h.neg p]; by_cases q : offs.length < N <;> simp [p, q]

theorem uniform_snoc {n : Nat} {l : List Vec} {c : Vec} (hu : Uniform n l) (hc : c.length = n) :
    Uniform n (l ++ [c]) := by
  intro v hv
  simp at hv
  rcases hv with hv | rfl
  · exact hu v hv
  · exact hc

/-- What one pass of the loop body does to the offspring list. -/
theorem genStep_spec {n : Nat} (hn : 1 ≤ n) {N : Nat} (hN : 2 ≤ N) (offs : List Vec) (c1 c2 : Vec)
    (hlen : offs.length < N) (hu : Uniform n offs) (h1 : c1.length = n) (h2 : c2.length = n)
    (hd : Distinct offs) :
    ∃ add, genStep N offs c1 c2 = some (offs ++ add) ∧ add.Sublist [c1, c2] ∧
      Distinct (offs ++ add) ∧ (offs ++ add).length ≤ N ∧
      (∃ o ∈ offs ++ add, Close c1 o) ∧
      ((∃ o ∈ offs ++ add, Close c2 o) ∨ (offs ++ add).length = N) ∧
      ((∀ o ∈ offs, ¬ Close c1 o) → c1 ∈ offs ++ add) ∧
      ((∀ o ∈ offs, ¬ Close c2 o) → ¬ Close c2 c1 → c2 ∈ offs ++ add ∨ (offs ++ add).length = N) := by
  classical
  -- state after "always create new individual" and child 1
  have key : ∃ a1, (a1 = [] ∨ a1 = [c1]) ∧
      addChild1 N (if offs.length == 0 then offs ++ [c1] else offs) c1 = some (offs ++ a1) ∧
      Distinct (offs ++ a1) ∧ (offs ++ a1).length ≤ N ∧ (∃ o ∈ offs ++ a1, Close c1 o) ∧
      ((∀ o ∈ offs, ¬ Close c1 o) → a1 = [c1]) := by
    by_cases he : offs = []
    · subst he
      refine ⟨[c1], Or.inr rfl, ?_, ?_, by simp; omega, ⟨c1, by simp, close_refl c1⟩, fun _ => rfl⟩
      · have hu1 : Uniform n [c1] := by intro v hv; simp at hv; subst hv; exact h1
        have : ∃ o ∈ [c1], Close c1 o := ⟨c1, by simp, close_refl c1⟩
        simp only [List.length_nil, beq_self_eq_true, if_true, List.nil_append]
        rw [addChild1_eq hn N [c1] c1 hu1 h1]
        have hl : [c1].length < N := by simp; omega
        rw [if_pos ⟨this, hl⟩]
      · simp [Distinct]
    · have hl0 : (offs.length == 0) = false := by
        simp [he]
      simp only [hl0, Bool.false_eq_true, if_false]
      rw [addChild1_eq hn N offs c1 hu h1]
      by_cases p : ∃ o ∈ offs, Close c1 o
      · refine ⟨[], Or.inl rfl, by simp [p, hlen], by simpa using hd, by simp; omega, ?_, ?_⟩
        · simpa using p
        · intro hall; obtain ⟨o, ho, hc⟩ := p; exact absurd hc (hall o ho)
      · refine ⟨[c1], Or.inr rfl, by simp [p], ?_, by simp; omega, ⟨c1, by simp, close_refl c1⟩, fun _ => rfl⟩
        exact distinct_snoc hd (by simpa using p)
  obtain ⟨a1, ha1, hk1, hk2, hk3, hk4, hk5⟩ := key
  have hu1 : Uniform n (offs ++ a1) := by
    rcases ha1 with rfl | rfl
    · simpa using hu
    · exact uniform_snoc hu h1
  unfold genStep
  rw [hk1]
  simp only
  rw [addChild2_eq hn N (offs ++ a1) c2 hu1 h2]
  by_cases q : (∃ o ∈ offs ++ a1, Close c2 o) ∨ ¬ (offs ++ a1).length < N
  · refine ⟨a1, by rw [if_pos q], ?_, hk2, hk3, hk4, ?_, ?_, ?_⟩
    · rcases ha1 with rfl | rfl <;> simp
    · rcases q with q | q
      · exact Or.inl q
      · exact Or.inr (by omega)
    · intro hall
      rw [hk5 hall]; simp
    · intro hall hnc
      right
      rcases q with ⟨o, ho, hc⟩ | q
      · exfalso
        rcases List.mem_append.mp ho with ho | ho
        · exact hall o ho hc
        · rcases ha1 with rfl | rfl
          · simp at ho
          · simp at ho; subst ho; exact hnc hc
      · omega
  · have q1 : ¬ ∃ o ∈ offs ++ a1, Close c2 o := fun h => q (Or.inl h)
    have q2 : (offs ++ a1).length < N := by
      by_contra h; exact q (Or.inr h)
    refine ⟨a1 ++ [c2], by rw [if_neg q, List.append_assoc], ?_, ?_, ?_, ?_, ?_, ?_, ?_⟩
    · rcases ha1 with rfl | rfl <;> simp
    · rw [← List.append_assoc]; exact distinct_snoc hk2 (by simpa using q1)
    · rw [← List.append_assoc]; simp at q2 ⊢; omega
    · obtain ⟨o, ho, hc⟩ := hk4
      exact ⟨o, by rw [← List.append_assoc]; simp [List.mem_append] at ho ⊢; tauto, hc⟩
    · exact Or.inl ⟨c2, by simp, close_refl c2⟩
    · intro hall; rw [hk5 hall]; simp
    · intro _ _; left; simp

/-- The whole `while` loop of `GeneticAlgorithm.generate` on a stream of child pairs. -/
theorem generate_spec {n : Nat} (hn : 1 ≤ n) {N : Nat} (hN : 2 ≤ N) (ps : List (Vec × Vec))
    (offs : List Vec) (k0 : Nat) (hu : Uniform n offs)
    (hp : ∀ p ∈ ps, p.1.length = n ∧ p.2.length = n) (hd : Distinct offs) (hlen : offs.length ≤ N) :
    ∃ add k, generate N ps offs k0 = some (offs ++ add, k0 + k) ∧ k ≤ ps.length ∧
      Distinct (offs ++ add) ∧ (offs ++ add).length ≤ N ∧
      (k = ps.length ∨ (offs ++ add).length = N) ∧
      (∀ p ∈ ps.take k, (∃ o ∈ offs ++ add, Close p.1 o) ∧
        ((∃ o ∈ offs ++ add, Close p.2 o) ∨ (offs ++ add).length = N)) ∧
      (∀ o ∈ add, ∃ p ∈ ps.take k, o = p.1 ∨ o = p.2) := by
  induction ps generalizing offs k0 with
  | nil =>
    exact ⟨[], 0, by simp [generate], by simp, by simpa using hd, by simpa using hlen, by simp,
      by simp, by simp⟩
  | cons p rest ih =>
    obtain ⟨c1, c2⟩ := p
    by_cases hl : offs.length < N
    · have hc := hp (c1, c2) (by simp)
      obtain ⟨a, g1, g2, g3, g4, g5, g6, _, _⟩ :=
        genStep_spec hn hN offs c1 c2 hl hu hc.1 hc.2 hd
      have hu' : Uniform n (offs ++ a) := by
        intro v hv
        rcases List.mem_append.mp hv with hv | hv
        · exact hu v hv
        · have := g2.subset hv
          simp at this
          rcases this with rfl | rfl
          · exact hc.1
          · exact hc.2
      obtain ⟨add, k, e1, e2, e3, e4, e5, e6, e7⟩ :=
        ih (offs ++ a) (k0 + 1) hu' (fun p hp' => hp p (by simp [hp'])) g3 g4
      rw [List.append_assoc] at e1 e3 e4 e5 e6
      refine ⟨a ++ add, k + 1, ?_, by simp; omega, e3, e4, ?_, ?_, ?_⟩
      · simp only [generate, hl, if_true, g1, e1]
        congr 2; omega
      · rcases e5 with e5 | e5
        · left; simp [e5]
        · right; exact e5
      · intro p hp'
        simp only [List.take_succ_cons, List.mem_cons] at hp'
        rcases hp' with rfl | hp'
        · have hsub : ∀ o, o ∈ offs ++ a → o ∈ offs ++ (a ++ add) := by
            intro o ho; simp only [List.mem_append] at ho ⊢; tauto
          constructor
          · obtain ⟨o, ho, hc⟩ := g5; exact ⟨o, hsub o ho, hc⟩
          · rcases g6 with ⟨o, ho, hc⟩ | g6
            · exact Or.inl ⟨o, hsub o ho, hc⟩
            · right
              have : (offs ++ a).length ≤ (offs ++ (a ++ add)).length := by simp
              omega
        · exact e6 p hp'
      · intro o ho
        rcases List.mem_append.mp ho with ho | ho
        · have := g2.subset ho
          simp at this
          exact ⟨(c1, c2), by simp, this⟩
        · obtain ⟨p, hp', h⟩ := e7 o ho
          exact ⟨p, by simp [hp'], h⟩
    · refine ⟨[], 0, by simp [generate, hl], by simp, by simpa using hd, by simpa using hlen,
        Or.inr (by simp; omega), by simp, by simp⟩

end Artap.Equality
