import ArtapModel.Model.BenchMO
import ArtapModel.Proofs.NumReal
import Mathlib.Analysis.SpecialFunctions.Trigonometric.Inverse
/-!
# C16 — helper lemmas: the real interpretation of `Model/BenchMO.lean`

* `g1`, `g2`, `sqSum`, `InBox01`: the plain real expressions the theorems of `Props/C16.lean` are stated with;
* the loops of the model computed in closed form over ℝ (`mulLoop_real`, `distLoop_real`, `dtlzObj_real`);
* the telescoping identity behind `Σ f_i = (1+g)/2` and `Σ f_i² = (1+g)²` (`tele`, `sum_objVal`, `sumSq_objVal`);
* sign lemmas for the box;
* surjectivity of the product scheme onto the simplex / the non-negative unit sphere (`onto_lin`, `simplex_onto`,
  `sphere_onto`; `arcsin` from `Mathlib.Analysis.SpecialFunctions.Trigonometric.Inverse`).
-/
namespace Artap.BenchMO
open Artap

@[simp] theorem half_real : (half : ℝ) = 1 / 2 := by simp [half]
@[simp] theorem nat_real (n : ℕ) : (nat n : ℝ) = (n : ℝ) := by simp [nat]

theorem foldl_add_real (l : List ℝ) : ∀ init : ℝ, l.foldl (fun acc y => acc + y) init = init + l.sum := by
  induction l with
  | nil => intro init; simp
  | cons a t ih => intro init; simp [ih, add_assoc]

theorem sumL_real (l : List ℝ) : sumL l = l.sum := by
  unfold sumL
  simpa using foldl_add_real l 0

theorem mulLoop_real (c : ℝ → ℝ) (x : List ℝ) (init : ℝ) :
    ∀ n, n ≤ x.length → mulLoop c x n init = some (init * ((x.take n).map c).prod) := by
  intro n
  induction n with
  | zero => intro _; simp [mulLoop]
  | succ n ih =>
    intro h
    have hn : n < x.length := by omega
    unfold mulLoop at ih ⊢
    rw [List.range_succ, List.foldlM_append, ih (by omega)]
    rw [List.take_add_one]
    simp [hn]
    ring

theorem distLoop_real (h : ℝ → ℝ) (x : List ℝ) (init : ℝ) :
    ∀ k, k ≤ x.length → distLoop h x k init = some (init + ((x.drop (x.length - k)).map h).sum) := by
  intro k
  induction k with
  | zero => intro _; simp [distLoop]
  | succ k ih =>
    intro hk
    have h1 : x.length - (k + 1) < x.length := by omega
    unfold distLoop at ih ⊢
    rw [List.range_succ, List.foldlM_append, ih (by omega)]
    rw [List.drop_eq_getElem_cons h1]
    have h2 : x.length - (k + 1) + 1 = x.length - k := by omega
    have h3 : x.length - k - 1 = x.length - (k + 1) := by omega
    have h4 : k < x.length := by omega
    simp [h4, h2, h3, h1]
    ring

theorem mapM_some {β γ : Type} (f : β → Option γ) (g : β → γ) (l : List β)
    (h : ∀ b ∈ l, f b = some (g b)) : l.mapM f = some (l.map g) := by
  induction l with
  | nil => simp
  | cons a t ih =>
    have ha := h a (by simp)
    have ht := ih (fun b hb => h b (by simp [hb]))
    simp [List.mapM_cons, ha, ht]

/-- value of objective `i` of the DTLZ product scheme over ℝ -/
noncomputable def objVal (c s : ℝ → ℝ) (m : ℕ) (x : List ℝ) (init : ℝ) (i : ℕ) : ℝ :=
  init * ((x.take (m - i - 1)).map c).prod * (if 0 < i then s (x.getD (m - i - 1) 0) else 1)

theorem dtlzObj_real (c s : ℝ → ℝ) (m : ℕ) (x : List ℝ) (init : ℝ) (i : ℕ)
    (hi : i < m) (hm : m ≤ x.length + 1) :
    dtlzObj c s m x init i = some (objVal c s m x init i) := by
  unfold dtlzObj objVal
  rw [mulLoop_real c x init _ (by omega)]
  by_cases h0 : 0 < i
  · have hlt : m - i - 1 < x.length := by omega
    simp [h0, hlt]
  · simp [h0]


/-- Telescoping: `F 0 = P (m-1)` and `F i = P (m-1-i) - P (m-i)` for `0 < i < m` sum to `P 0`. -/
theorem tele (m : ℕ) (hm : 1 ≤ m) (P F : ℕ → ℝ) (h0 : F 0 = P (m - 1))
    (hi : ∀ i, 0 < i → i < m → F i = P (m - 1 - i) - P (m - i)) :
    ((List.range m).map F).sum = P 0 := by
  obtain ⟨k, rfl⟩ : ∃ k, m = k + 1 := ⟨m - 1, by omega⟩
  have key : ∀ t, t ≤ k → ((List.range (t + 1)).map F).sum = P (k - t) := by
    intro t
    induction t with
    | zero => intro _; simpa using h0
    | succ t ih =>
      intro ht
      rw [List.range_succ, List.map_append, List.sum_append, ih (by omega)]
      have := hi (t + 1) (by omega) (by omega)
      have e1 : k + 1 - 1 - (t + 1) = k - (t + 1) := by omega
      have e2 : k + 1 - (t + 1) = k - t := by omega
      rw [e1, e2] at this
      simp [this]
  simpa using key k (le_refl k)

/-- The objectives of the product scheme add up to `init` when `s = 1 - c`. -/
theorem sum_objVal (c s : ℝ → ℝ) (m : ℕ) (x : List ℝ) (init : ℝ) (hm : 1 ≤ m)
    (hmx : m ≤ x.length + 1) (hs : ∀ y, s y = 1 - c y) :
    ((List.range m).map (objVal c s m x init)).sum = init := by
  have := tele m hm (fun e => init * ((x.take e).map c).prod) (objVal c s m x init) ?_ ?_
  · simpa using this
  · simp [objVal]
  · intro i h0 him
    have hlt : m - 1 - i < x.length := by omega
    have e1 : m - i - 1 = m - 1 - i := by omega
    have e2 : m - i = m - 1 - i + 1 := by omega
    simp only [objVal, h0, if_true, e1]
    rw [e2, List.take_add_one]
    simp [hlt, hs]
    ring

theorem prod_map_sq (c : ℝ → ℝ) (l : List ℝ) : ((l.map c).prod) ^ 2 = (l.map (fun y => c y ^ 2)).prod := by
  induction l with
  | nil => simp
  | cons a t ih => simp [mul_pow, ih]

theorem objVal_sq (c s : ℝ → ℝ) (m : ℕ) (x : List ℝ) (init : ℝ) (i : ℕ) :
    (objVal c s m x init i) ^ 2 = objVal (fun y => c y ^ 2) (fun y => s y ^ 2) m x (init ^ 2) i := by
  unfold objVal
  rw [mul_pow, mul_pow, prod_map_sq]
  split <;> simp

/-- Sum of squares of `objVal … 1 i * G` is `G²` when `s² = 1 - c²`. -/
theorem sumSq_objVal (c s : ℝ → ℝ) (m : ℕ) (x : List ℝ) (G : ℝ) (hm : 1 ≤ m)
    (hmx : m ≤ x.length + 1) (hs : ∀ y, s y ^ 2 = 1 - c y ^ 2) :
    (((List.range m).map (fun i => objVal c s m x 1 i * G)).map (fun t => t ^ 2)).sum = G ^ 2 := by
  rw [List.map_map]
  have : ((fun t : ℝ => t ^ 2) ∘ fun i => objVal c s m x 1 i * G)
      = fun i => objVal (fun y => c y ^ 2) (fun y => s y ^ 2) m x 1 i * G ^ 2 := by
    funext i
    simp [mul_pow, objVal_sq]
  rw [this, List.sum_map_mul_right, sum_objVal _ _ m x 1 hm hmx hs]
  ring

/-! ### specification-side definitions (plain real expressions) -/

/-- DTLZ1 / DTLZ3 distance function of the distance variables `xm`. -/
noncomputable def g1 (xm : List ℝ) : ℝ :=
  100 * (xm.length + (xm.map (fun y => (y - 1 / 2) ^ 2 - Real.cos (20 * Real.pi * (y - 1 / 2)))).sum)
/-- DTLZ2 / DTLZ4 distance function. -/
noncomputable def g2 (xm : List ℝ) : ℝ := (xm.map (fun y => (y - 1 / 2) ^ 2)).sum
/-- `Σ f_i²` -/
noncomputable def sqSum (f : List ℝ) : ℝ := (f.map (fun t => t ^ 2)).sum
/-- the box `[0,1]ⁿ` -/
def InBox01 (x : List ℝ) : Prop := ∀ y ∈ x, 0 ≤ y ∧ y ≤ 1

theorem rastTerm1_real (y : ℝ) : rastTerm1 y = (y - 1 / 2) ^ 2 - Real.cos (20 * Real.pi * (y - 1 / 2)) := by
  simp [rastTerm1, sq]
theorem rastTerm3_real (y : ℝ) : rastTerm3 y = (y - 1 / 2) ^ 2 - Real.cos (20 * Real.pi * (y - 1 / 2)) := by
  simp [rastTerm3]
theorem sqTerm_real (y : ℝ) : sqTerm y = (y - 1 / 2) ^ 2 := by
  simp [sqTerm]


theorem rastTerm1_fun : (rastTerm1 : ℝ → ℝ) = fun y => (y - 1 / 2) ^ 2 - Real.cos (20 * Real.pi * (y - 1 / 2)) :=
  funext rastTerm1_real
theorem rastTerm3_fun : (rastTerm3 : ℝ → ℝ) = fun y => (y - 1 / 2) ^ 2 - Real.cos (20 * Real.pi * (y - 1 / 2)) :=
  funext rastTerm3_real
theorem sqTerm_fun : (sqTerm : ℝ → ℝ) = fun y => (y - 1 / 2) ^ 2 := funext sqTerm_real

theorem g1Spec_real (xm : List ℝ) : g1Spec xm = g1 xm := by
  simp [g1Spec, g1, sumL_real, rastTerm1_fun]
theorem g2Spec_real (xm : List ℝ) : g2Spec xm = g2 xm := by
  simp [g2Spec, g2, sumL_real, sq]
theorem sumSq_real (f : List ℝ) : sumSq f = sqSum f := by
  simp [sumSq, sqSum, sumL_real, sq]
theorem zdt1GSpec_real (x : List ℝ) : zdt1GSpec x = 1 + 9 * (x.tail.sum / ((x.length - 1 : ℕ) : ℝ)) := by
  simp [zdt1GSpec, sumL_real]

/-- closed form of `dtlz1G` -/
theorem dtlz1G_real (m : ℕ) (x : List ℝ) (hm : 1 ≤ m) (hmx : m ≤ x.length + 1) :
    dtlz1G m x = g1 (x.drop (m - 1)) := by
  have e : x.length - (x.length + 1 - m) = m - 1 := by omega
  have e2 : x.length - (m - 1) = x.length + 1 - m := by omega
  simp [dtlz1G, g1, sumL_real, rastTerm1_fun, e, e2]


/-- `DTLZI.evaluate` in closed form. -/
theorem dtlz1_eval (m : ℕ) (x : List ℝ) (hm : 1 ≤ m) (hmx : m ≤ x.length + 1) :
    dtlz1 m x = some ((List.range m).map
      (objVal (fun y => y) (fun y => 1 - y) m x (1 / 2 * (1 + g1 (x.drop (m - 1)))))) := by
  unfold dtlz1
  rw [if_neg (by omega)]
  simp only []
  rw [mapM_some _ _ _ (fun i hi => dtlzObj_real _ _ m x _ i (by simpa using hi) hmx)]
  rw [dtlz1G_real m x hm hmx]
  simp

/-- cos/sin functions of DTLZ2/3 and DTLZ4 over ℝ -/
noncomputable def cosA (a : ℕ) (y : ℝ) : ℝ := Real.cos (y ^ a * Real.pi / 2)
noncomputable def sinA (a : ℕ) (y : ℝ) : ℝ := Real.sin (y ^ a * Real.pi / 2)


theorem objVal_congr {c s c' s' : ℝ → ℝ} (hc : ∀ y, c y = c' y) (hs : ∀ y, s y = s' y)
    (m : ℕ) (x : List ℝ) (init : ℝ) (i : ℕ) : objVal c s m x init i = objVal c' s' m x init i := by
  have h1 : c = c' := funext hc
  have h2 : s = s' := funext hs
  rw [h1, h2]

/-- `DTLZII.evaluate` in closed form. -/
theorem dtlz2_eval (m : ℕ) (x : List ℝ) (hmx : m ≤ x.length + 1) (hk : 10 ≤ x.length) :
    dtlz2 m x = some ((List.range m).map (fun i =>
      objVal (cosA 1) (sinA 1) m x 1 i * (1 + g2 (x.drop (x.length - 10))))) := by
  unfold dtlz2
  apply mapM_some
  intro i hi
  rw [dtlzObj_real _ _ m x _ i (by simpa using hi) hmx, distLoop_real _ x _ kDist (by simpa [kDist] using hk)]
  simp only []
  rw [objVal_congr (c' := cosA 1) (s' := sinA 1)]
  · simp [g2, sqTerm_fun, kDist]
  · intro y; simp [cosA]; congr 1; ring
  · intro y; simp [sinA]

/-- `DTLZIII.evaluate` in closed form. -/
theorem dtlz3_eval (m : ℕ) (x : List ℝ) (hmx : m ≤ x.length + 1) (hk : 10 ≤ x.length) :
    dtlz3 m x = some ((List.range m).map (fun i =>
      objVal (cosA 1) (sinA 1) m x 1 i * (1 + g1 (x.drop (x.length - 10))))) := by
  unfold dtlz3
  apply mapM_some
  intro i hi
  rw [dtlzObj_real _ _ m x _ i (by simpa using hi) hmx, distLoop_real _ x _ kDist (by simpa [kDist] using hk)]
  simp only []
  rw [objVal_congr (c' := cosA 1) (s' := sinA 1)]
  · have hl : (x.drop (x.length - 10)).length = 10 := by simp; omega
    simp [g1, rastTerm3_fun, kDist, hl]
  · intro y; simp [cosA]; congr 1; ring
  · intro y; simp [sinA]

/-- `DTLZIV.evaluate` in closed form. -/
theorem dtlz4_eval (m : ℕ) (x : List ℝ) (hmx : m ≤ x.length + 1) (hk : 10 ≤ x.length) :
    dtlz4 m x = some ((List.range m).map (fun i =>
      objVal (cosA 100) (sinA 100) m x 1 i * (1 + g2 (x.drop (x.length - 10))))) := by
  unfold dtlz4
  apply mapM_some
  intro i hi
  rw [dtlzObj_real _ _ m x _ i (by simpa using hi) hmx, distLoop_real _ x _ kDist (by simpa [kDist] using hk)]
  simp only []
  rw [objVal_congr (c' := cosA 100) (s' := sinA 100)]
  · simp [g2, sqTerm_fun, kDist]
  · intro y; simp [cosA, alpha]; congr 1; ring
  · intro y; simp [sinA, alpha]


/-! ### signs and special values -/

theorem g1_nonneg (xm : List ℝ) : 0 ≤ g1 xm := by
  have h : ∀ l : List ℝ, 0 ≤ (l.length : ℝ) +
      (l.map (fun y => (y - 1 / 2) ^ 2 - Real.cos (20 * Real.pi * (y - 1 / 2)))).sum := by
    intro l
    induction l with
    | nil => simp
    | cons a t ih =>
      have h1 := Real.cos_le_one (20 * Real.pi * (a - 1 / 2))
      have h2 := sq_nonneg (a - 1 / 2)
      simp only [List.length_cons, List.map_cons, List.sum_cons, Nat.cast_add, Nat.cast_one]
      linarith
  unfold g1
  have := h xm
  positivity

theorem g2_nonneg (xm : List ℝ) : 0 ≤ g2 xm := by
  unfold g2
  apply List.sum_nonneg
  intro a ha
  obtain ⟨y, _, rfl⟩ := List.mem_map.1 ha
  positivity

theorem g1_at_half (xm : List ℝ) (h : ∀ y ∈ xm, y = 1 / 2) : g1 xm = 0 := by
  have h' : ∀ l : List ℝ, (∀ y ∈ l, y = 1 / 2) → (l.length : ℝ) +
      (l.map (fun y => (y - 1 / 2) ^ 2 - Real.cos (20 * Real.pi * (y - 1 / 2)))).sum = 0 := by
    intro l
    induction l with
    | nil => simp
    | cons a t ih =>
      intro hl
      have ha : a = 1 / 2 := hl a (by simp)
      have ht := ih (fun y hy => hl y (by simp [hy]))
      simp only [List.length_cons, List.map_cons, List.sum_cons, Nat.cast_add, Nat.cast_one]
      rw [ha]
      simp
      linarith
  unfold g1
  rw [h' xm h]
  simp

theorem g2_at_half (xm : List ℝ) (h : ∀ y ∈ xm, y = 1 / 2) : g2 xm = 0 := by
  unfold g2
  induction xm with
  | nil => simp
  | cons a t ih =>
    have ha : a = 1 / 2 := h a (by simp)
    have ht := ih (fun y hy => h y (by simp [hy]))
    rw [List.map_cons, List.sum_cons, ht, ha]
    norm_num

theorem sin_sq_cosA (a : ℕ) (y : ℝ) : sinA a y ^ 2 = 1 - cosA a y ^ 2 := by
  unfold sinA cosA
  exact Real.sin_sq _

theorem pow_mem_unit (a : ℕ) {y : ℝ} (h0 : 0 ≤ y) (h1 : y ≤ 1) : 0 ≤ y ^ a ∧ y ^ a ≤ 1 :=
  ⟨pow_nonneg h0 a, pow_le_one₀ h0 h1⟩

theorem cosA_nonneg (a : ℕ) {y : ℝ} (h0 : 0 ≤ y) (h1 : y ≤ 1) : 0 ≤ cosA a y := by
  obtain ⟨p0, p1⟩ := pow_mem_unit a h0 h1
  have hpi := Real.pi_pos
  unfold cosA
  apply Real.cos_nonneg_of_mem_Icc
  constructor
  · have : 0 ≤ y ^ a * Real.pi / 2 := by positivity
    linarith
  · nlinarith

theorem sinA_nonneg (a : ℕ) {y : ℝ} (h0 : 0 ≤ y) (h1 : y ≤ 1) : 0 ≤ sinA a y := by
  obtain ⟨p0, p1⟩ := pow_mem_unit a h0 h1
  have hpi := Real.pi_pos
  unfold sinA
  apply Real.sin_nonneg_of_nonneg_of_le_pi
  · positivity
  · nlinarith

theorem objVal_nonneg (c s : ℝ → ℝ) (m : ℕ) (x : List ℝ) (init : ℝ) (i : ℕ) (hinit : 0 ≤ init)
    (hc : ∀ y ∈ x, 0 ≤ c y) (hs : ∀ y ∈ x, 0 ≤ s y) (hi : i < m) (hmx : m ≤ x.length + 1) :
    0 ≤ objVal c s m x init i := by
  unfold objVal
  have hp : 0 ≤ ((x.take (m - i - 1)).map c).prod := by
    apply List.prod_nonneg
    intro a ha
    obtain ⟨y, hy, rfl⟩ := List.mem_map.1 ha
    exact hc y (List.mem_of_mem_take hy)
  have hlast : 0 ≤ (if 0 < i then s (x.getD (m - i - 1) 0) else 1) := by
    split
    · have hlt : m - i - 1 < x.length := by omega
      have : x.getD (m - i - 1) 0 = x[m - i - 1] := by simp [List.getD, hlt]
      rw [this]
      exact hs _ (List.getElem_mem hlt)
    · norm_num
  positivity

/-! ### surjectivity onto the front (simplex / positive unit sphere) -/

/-- recursive structure of the objective list on the first position variable -/
theorem objs_cons (c s : ℝ → ℝ) (m : ℕ) (hm : 1 ≤ m) (x0 : ℝ) (x' : List ℝ) (init : ℝ) :
    (List.range (m + 1)).map (objVal c s (m + 1) (x0 :: x') init) =
      (List.range m).map (objVal c s m x' (init * c x0)) ++ [init * s x0] := by
  rw [List.range_succ, List.map_append]
  congr 1
  · apply List.map_congr_left
    intro i hi
    have hi' : i < m := by simpa using hi
    have e : m + 1 - i - 1 = (m - i - 1) + 1 := by omega
    unfold objVal
    rw [e]
    simp only [List.take_succ_cons, List.map_cons, List.prod_cons, List.getD_cons_succ]
    ring
  · have h0 : 0 < m := by omega
    simp [objVal, h0]

theorem onto_lin (c s : ℝ → ℝ) (hsum : ∀ y, s y = 1 - c y)
    (hsurj : ∀ u : ℝ, 0 ≤ u → u ≤ 1 → ∃ y, 0 ≤ y ∧ y ≤ 1 ∧ s y = u) :
    ∀ (R : List ℝ) (h init : ℝ), (∀ b ∈ h :: R, 0 ≤ b) → (h :: R).sum = init →
      ∃ xp : List ℝ, xp.length = R.length ∧ InBox01 xp ∧
        ∀ xd : List ℝ, (List.range (R.length + 1)).map (objVal c s (R.length + 1) (xp ++ xd) init)
          = (h :: R).reverse := by
  intro R
  induction R with
  | nil =>
    intro h init _ hs
    refine ⟨[], rfl, by intro y hy; simp at hy, ?_⟩
    intro xd
    simp at hs
    simp [objVal, hs]
  | cons h' R ih =>
    intro h init hnn hs
    have hh : 0 ≤ h := hnn h (by simp)
    have hrest : ∀ b ∈ h' :: R, 0 ≤ b := fun b hb => hnn b (by simp at hb ⊢; tauto)
    have hrs : 0 ≤ (h' :: R).sum := List.sum_nonneg hrest
    have hinit : init = h + (h' :: R).sum := by rw [← hs]; simp
    -- the fraction of `init` that goes to the last objective
    obtain ⟨u, hu0, hu1, hu⟩ : ∃ u : ℝ, 0 ≤ u ∧ u ≤ 1 ∧ init * u = h := by
      by_cases hz : init = 0
      · refine ⟨0, le_refl 0, by norm_num, ?_⟩
        have : h = 0 := by linarith
        simp [this]
      · have hpos : 0 < init := lt_of_le_of_ne (by linarith) (Ne.symm hz)
        refine ⟨h / init, by positivity, ?_, by field_simp⟩
        rw [div_le_one hpos]; linarith
    obtain ⟨y, hy0, hy1, hy⟩ := hsurj u hu0 hu1
    have hc : init * c y = (h' :: R).sum := by
      have : c y = 1 - u := by have := hsum y; linarith
      rw [this]; linarith [hu]
    obtain ⟨xp, hlen, hbox, hobj⟩ := ih h' (init * c y) hrest hc.symm
    refine ⟨y :: xp, by simp [hlen], ?_, ?_⟩
    · intro z hz
      simp at hz
      rcases hz with rfl | hz
      · exact ⟨hy0, hy1⟩
      · exact hbox z hz
    · intro xd
      have := objs_cons c s (R.length + 1) (by omega) y (xp ++ xd) init
      simp only [List.length_cons, List.cons_append]
      rw [this, hobj xd, hy, hu]
      simp


theorem eq_of_map_sq_eq : ∀ (l1 l2 : List ℝ), (∀ a ∈ l1, 0 ≤ a) → (∀ a ∈ l2, 0 ≤ a) →
    l1.map (fun t => t ^ 2) = l2.map (fun t => t ^ 2) → l1 = l2 := by
  intro l1
  induction l1 with
  | nil => intro l2 _ _ h; simpa using h
  | cons a t ih =>
    intro l2 h1 h2 h
    cases l2 with
    | nil => simp at h
    | cons b t2 =>
      simp only [List.map_cons, List.cons.injEq] at h
      have ha : 0 ≤ a := h1 a (by simp)
      have hb : 0 ≤ b := h2 b (by simp)
      have hab : a = b := by
        have := h.1
        nlinarith [sq_nonneg (a - b), sq_nonneg (a + b)]
      rw [hab, ih t2 (fun x hx => h1 x (by simp [hx])) (fun x hx => h2 x (by simp [hx])) h.2]

/-- every `u ∈ [0,1]` is `sin²(y^a·π/2)` for some `y ∈ [0,1]` (`a ≥ 1`) -/
theorem sinA_sq_surj (a : ℕ) (ha : a ≠ 0) (u : ℝ) (hu0 : 0 ≤ u) (hu1 : u ≤ 1) :
    ∃ y, 0 ≤ y ∧ y ≤ 1 ∧ sinA a y ^ 2 = u := by
  have hw0 : 0 ≤ Real.sqrt u := Real.sqrt_nonneg u
  have hw1 : Real.sqrt u ≤ 1 := by
    have := Real.sqrt_le_sqrt hu1
    simpa using this
  have hpi := Real.pi_pos
  set θ := Real.arcsin (Real.sqrt u) with hθ
  have hθ0 : 0 ≤ θ := Real.arcsin_nonneg.2 hw0
  have hθ1 : θ ≤ Real.pi / 2 := Real.arcsin_le_pi_div_two _
  have hsin : Real.sin θ = Real.sqrt u := Real.sin_arcsin (by linarith) hw1
  set z := 2 * θ / Real.pi with hz
  have hz0 : 0 ≤ z := by positivity
  have hz1 : z ≤ 1 := by rw [hz, div_le_one hpi]; linarith
  refine ⟨z ^ ((a : ℝ)⁻¹), Real.rpow_nonneg hz0 _, Real.rpow_le_one hz0 hz1 (by positivity), ?_⟩
  unfold sinA
  rw [Real.rpow_inv_natCast_pow hz0 ha]
  have : z * Real.pi / 2 = θ := by rw [hz]; field_simp
  rw [this, hsin, Real.sq_sqrt hu0]


/-- DTLZ1 product scheme (`c = id`, `s = 1 - ·`) reaches every non-negative vector of sum `init`. -/
theorem simplex_onto (m : ℕ) (hm : 1 ≤ m) (t : List ℝ) (hl : t.length = m) (h0 : ∀ a ∈ t, 0 ≤ a) :
    ∃ xp : List ℝ, xp.length = m - 1 ∧ InBox01 xp ∧
      ∀ xd : List ℝ, (List.range m).map (objVal (fun y => y) (fun y => 1 - y) m (xp ++ xd) t.sum) = t := by
  obtain ⟨h, R, hR⟩ : ∃ h R, t.reverse = h :: R := by
    cases hr : t.reverse with
    | nil => simp at hr; subst hr; simp at hl; omega
    | cons h R => exact ⟨h, R, rfl⟩
  have hlen : R.length + 1 = m := by
    have := congrArg List.length hR
    simp at this; omega
  have hnn : ∀ b ∈ h :: R, 0 ≤ b := by
    intro b hb; rw [← hR] at hb; exact h0 b (by simpa using hb)
  have hsum : (h :: R).sum = t.sum := by rw [← hR, List.sum_reverse]
  obtain ⟨xp, hxl, hbox, hobj⟩ := onto_lin (fun y => y) (fun y => 1 - y) (fun _ => rfl)
    (fun u hu0 hu1 => ⟨1 - u, by linarith, by linarith, by ring⟩) R h t.sum hnn hsum
  refine ⟨xp, by omega, hbox, ?_⟩
  intro xd
  have := hobj xd
  rw [hlen] at this
  rw [this, ← hR, List.reverse_reverse]

/-- the squared scheme (`c = cos²`, `s = sin²`) reaches every non-negative vector of sum 1 -/
theorem simplex_like (a : ℕ) (ha : a ≠ 0) (m : ℕ) (hm : 1 ≤ m) (u : List ℝ) (hl : u.length = m)
    (h0 : ∀ b ∈ u, 0 ≤ b) (hs : u.sum = 1) :
    ∃ xp : List ℝ, xp.length = m - 1 ∧ InBox01 xp ∧
      ∀ xd : List ℝ, (List.range m).map
        (objVal (fun y => cosA a y ^ 2) (fun y => sinA a y ^ 2) m (xp ++ xd) 1) = u := by
  obtain ⟨h, R, hR⟩ : ∃ h R, u.reverse = h :: R := by
    cases hr : u.reverse with
    | nil => simp at hr; subst hr; simp at hl; omega
    | cons h R => exact ⟨h, R, rfl⟩
  have hlen : R.length + 1 = m := by
    have := congrArg List.length hR
    simp at this; omega
  have hnn : ∀ b ∈ h :: R, 0 ≤ b := by
    intro b hb; rw [← hR] at hb; exact h0 b (by simpa using hb)
  have hsum : (h :: R).sum = 1 := by rw [← hR, List.sum_reverse, hs]
  obtain ⟨xp, hxl, hbox, hobj⟩ := onto_lin (fun y => cosA a y ^ 2) (fun y => sinA a y ^ 2)
    (sin_sq_cosA a) (sinA_sq_surj a ha) R h 1 hnn hsum
  refine ⟨xp, by omega, hbox, ?_⟩
  intro xd
  have := hobj xd
  rw [hlen] at this
  rw [this, ← hR, List.reverse_reverse]

/-- The DTLZ2–4 product scheme with radius 1 reaches every non-negative unit vector. -/
theorem sphere_onto (a : ℕ) (ha : a ≠ 0) (m : ℕ) (hm : 1 ≤ m) (t : List ℝ) (hl : t.length = m)
    (h0 : ∀ b ∈ t, 0 ≤ b) (hs : sqSum t = 1) :
    ∃ xp : List ℝ, xp.length = m - 1 ∧ InBox01 xp ∧
      ∀ xd : List ℝ, InBox01 xd →
        (List.range m).map (objVal (cosA a) (sinA a) m (xp ++ xd) 1) = t := by
  have hl2 : (t.map (fun b => b ^ 2)).length = m := by simpa using hl
  have hnn2 : ∀ b ∈ t.map (fun b => b ^ 2), 0 ≤ b := by
    intro b hb
    obtain ⟨y, _, rfl⟩ := List.mem_map.1 hb
    positivity
  obtain ⟨xp, hxl, hbox, hobj⟩ := simplex_like a ha m hm (t.map (fun b => b ^ 2)) hl2 hnn2 hs
  refine ⟨xp, hxl, hbox, ?_⟩
  intro xd hxd
  have hb : InBox01 (xp ++ xd) := by
    intro y hy
    rcases List.mem_append.1 hy with h | h
    · exact hbox y h
    · exact hxd y h
  have hmx : m ≤ (xp ++ xd).length + 1 := by simp; omega
  apply eq_of_map_sq_eq _ _ _ h0
  · rw [List.map_map]
    have : ((fun t : ℝ => t ^ 2) ∘ objVal (cosA a) (sinA a) m (xp ++ xd) 1)
        = objVal (fun y => cosA a y ^ 2) (fun y => sinA a y ^ 2) m (xp ++ xd) 1 := by
      funext i
      simp [objVal_sq]
    rw [this]
    exact hobj xd
  · intro b hb'
    obtain ⟨i, hi, rfl⟩ := List.mem_map.1 hb'
    exact objVal_nonneg _ _ m _ 1 i (by norm_num) (fun y hy => cosA_nonneg a (hb y hy).1 (hb y hy).2)
      (fun y hy => sinA_nonneg a (hb y hy).1 (hb y hy).2) (by simpa using hi) hmx

end Artap.BenchMO
