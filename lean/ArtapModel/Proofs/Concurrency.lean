import ArtapModel.Model.Concurrency
/-! # Projection lemmas for the schedule model (helper file for `Props/C07.lean`, core Lean only) -/
namespace Artap.Conc

variable {L B : Type}

/-- One step of a single task on its own triple (record, own store row, program counter). -/
def tstep (prog : List (Action L B)) : L × Option B × Nat → L × Option B × Nat
  | (l, b, k) =>
    match prog[k]? with
    | none => (l, b, k)
    | some a => (a.upd l, (match a.write (a.upd l) with | some r => some r | none => b), k + 1)

def iter {α} (f : α → α) : Nat → α → α
  | 0, a => a
  | n + 1, a => iter f n (f a)

theorem iter_succ' {α} (f : α → α) (n : Nat) (a : α) : iter f (n + 1) a = f (iter f n a) := by
  induction n generalizing a with
  | zero => rfl
  | succ n ih => rw [iter, ih]; rfl

/-- does the next step of the task invoke the objective? -/
def tcall (prog : List (Action L B)) : L × Option B × Nat → Bool
  | (l, _, k) => match prog[k]? with
    | none => false
    | some a => a.call l

/-- number of objective calls in the next `m` steps of a task -/
def tcalls (prog : List (Action L B)) : Nat → L × Option B × Nat → Nat
  | 0, _ => 0
  | m + 1, v => (if tcall prog v then 1 else 0) + tcalls prog m (tstep prog v)

@[simp] theorem setRow_length (st : List (Option B)) (t : Nat) (w : Option B) :
    (setRow st t w).length = st.length := by cases w <;> simp [setRow]

theorem setRow_get (st : List (Option B)) (t u : Nat) (w : Option B) :
    (setRow st t w)[u]? = if t = u ∧ u < st.length then (match w with | some b => some (some b) | none => st[u]?) else st[u]? := by
  cases w with
  | none => simp [setRow]
  | some b =>
    simp only [setRow, List.getElem?_set]
    by_cases e : t = u
    · subst e; by_cases h : t < st.length <;> simp [h]
    · simp [e]

def WF (s : Sys L B) (n : Nat) : Prop := s.locals.length = n ∧ s.store.length = n ∧ s.pc.length = n

def view (s : Sys L B) (t : Nat) : Option (L × Option B × Nat) :=
  match s.locals[t]?, s.store[t]?, s.pc[t]? with
  | some l, some b, some k => some (l, b, k)
  | _, _, _ => none

theorem view_none_of_ge {s : Sys L B} {n t : Nat} (h : WF s n) (ht : n ≤ t) : view s t = none := by
  unfold view
  have : s.locals[t]? = none := by rw [List.getElem?_eq_none_iff]; have := h.1; omega
  simp [this]

theorem step_wf (prog : List (Action L B)) {s : Sys L B} {n : Nat} (h : WF s n) (t : Nat) :
    WF (step prog s t) n := by
  obtain ⟨h1, h2, h3⟩ := h
  unfold step
  split
  · split
    · exact ⟨h1, h2, h3⟩
    · exact ⟨by simp [h1], by simp [h2], by simp [h3]⟩
  · exact ⟨h1, h2, h3⟩

theorem run_wf (prog : List (Action L B)) {s : Sys L B} {n : Nat} (h : WF s n) (σ : List Nat) :
    WF (run prog σ s) n := by
  induction σ generalizing s with
  | nil => exact h
  | cons t σ ih => exact ih (step_wf prog h t)

theorem step_view (prog : List (Action L B)) {s : Sys L B} {n : Nat} (h : WF s n) (u t : Nat) :
    view (step prog s u) t = if u = t then (view s t).map (tstep prog) else view s t := by
  obtain ⟨h1, h2, h3⟩ := h
  by_cases hu : u < n
  · have hl : u < s.locals.length := by omega
    have hp : u < s.pc.length := by omega
    have hs : u < s.store.length := by omega
    unfold step
    simp only [List.getElem?_eq_getElem hl, List.getElem?_eq_getElem hp]
    cases hk : prog[s.pc[u]]? with
    | none =>
      simp only
      split
      · rename_i e; subst e
        simp [view, List.getElem?_eq_getElem hl, List.getElem?_eq_getElem hp,
          List.getElem?_eq_getElem hs, tstep, hk]
      · rfl
    | some a =>
      simp only
      by_cases e : u = t
      · subst e
        simp only [if_true]
        unfold view
        simp only [List.getElem?_eq_getElem hl, List.getElem?_eq_getElem hp,
          List.getElem?_eq_getElem hs, Option.map_some, tstep, hk]
        cases hw : a.write (a.upd s.locals[u]) <;>
          simp [setRow, hl, hp, hs]
      · simp only [e, if_false]
        unfold view
        simp [setRow_get, List.getElem?_set, e]
  · have hu' : n ≤ u := Nat.le_of_not_lt hu
    have e1 : s.locals[u]? = none := by rw [List.getElem?_eq_none_iff]; omega
    have : step prog s u = s := by unfold step; simp [e1]
    rw [this]
    split
    · rename_i e; subst e
      rw [view_none_of_ge ⟨h1, h2, h3⟩ hu']; rfl
    · rfl

theorem run_view (prog : List (Action L B)) {s : Sys L B} {n : Nat} (h : WF s n) (σ : List Nat) (t : Nat) :
    view (run prog σ s) t = (view s t).map (iter (tstep prog) (σ.count t)) := by
  induction σ generalizing s with
  | nil => simp [run, iter]
  | cons u σ ih =>
    have := ih (step_wf prog h u)
    simp only [run, List.foldl_cons] at this ⊢
    rw [this, step_view prog h]
    by_cases e : u = t
    · subst e
      simp only [if_true, List.count_cons_self, Option.map_map]
      congr 1
    · have : (u == t) = false := by simpa using e
      simp [e, List.count_cons, this, iter]

theorem step_calls (prog : List (Action L B)) {s : Sys L B} {n : Nat} (h : WF s n) (u t : Nat) :
    (step prog s u).calls.count t = s.calls.count t +
      (if u = t then (match view s t with | some v => if tcall prog v then 1 else 0 | none => 0) else 0) := by
  obtain ⟨h1, h2, h3⟩ := h
  by_cases hu : u < n
  · have hl : u < s.locals.length := by omega
    have hp : u < s.pc.length := by omega
    have hs : u < s.store.length := by omega
    unfold step
    simp only [List.getElem?_eq_getElem hl, List.getElem?_eq_getElem hp]
    cases hk : prog[s.pc[u]]? with
    | none =>
      simp only
      by_cases e : u = t
      · subst e
        simp [view, List.getElem?_eq_getElem hl, List.getElem?_eq_getElem hp,
          List.getElem?_eq_getElem hs, tcall, hk]
      · simp [e]
    | some a =>
      simp only
      by_cases e : u = t
      · subst e
        simp only [view, List.getElem?_eq_getElem hl, List.getElem?_eq_getElem hp,
          List.getElem?_eq_getElem hs, tcall, hk, if_true]
        cases a.call s.locals[u] <;> simp [List.count_append]
      · simp only [e, if_false, Nat.add_zero]
        cases a.call s.locals[u]
        · simp
        · have : (u == t) = false := by simpa using e
          simp [List.count_append, List.count_cons, this]
  · have e1 : s.locals[u]? = none := by rw [List.getElem?_eq_none_iff]; omega
    have : step prog s u = s := by unfold step; simp [e1]
    rw [this]
    by_cases e : u = t
    · subst e
      rw [view_none_of_ge ⟨h1, h2, h3⟩ (Nat.le_of_not_lt hu)]; simp
    · simp [e]

theorem run_calls (prog : List (Action L B)) {s : Sys L B} {n : Nat} (h : WF s n) (σ : List Nat) (t : Nat) :
    (run prog σ s).calls.count t = s.calls.count t +
      (match view s t with | some v => tcalls prog (σ.count t) v | none => 0) := by
  induction σ generalizing s with
  | nil => cases view s t <;> simp [run, tcalls]
  | cons u σ ih =>
    have := ih (step_wf prog h u)
    simp only [run, List.foldl_cons] at this ⊢
    rw [this, step_calls prog h, step_view prog h]
    by_cases e : u = t
    · subst e
      simp only [if_true, List.count_cons_self]
      cases view s u with
      | none => simp
      | some v => simp only [Option.map_some, tcalls]; omega
    · have : (u == t) = false := by simpa using e
      simp [e, List.count_cons, this]

/-- Two well-formed systems with the same views are equal up to the call log. -/
theorem ext_of_view {s s' : Sys L B} {n : Nat} (h : WF s n) (h' : WF s' n)
    (hv : ∀ t, t < n → view s t = view s' t) :
    s.locals = s'.locals ∧ s.store = s'.store ∧ s.pc = s'.pc := by
  obtain ⟨h1, h2, h3⟩ := h
  obtain ⟨h1', h2', h3'⟩ := h'
  have key : ∀ t, t < n → s.locals[t]? = s'.locals[t]? ∧ s.store[t]? = s'.store[t]? ∧ s.pc[t]? = s'.pc[t]? := by
    intro t ht
    have := hv t ht
    unfold view at this
    have a1 : t < s.locals.length := by omega
    have a2 : t < s.store.length := by omega
    have a3 : t < s.pc.length := by omega
    have b1 : t < s'.locals.length := by omega
    have b2 : t < s'.store.length := by omega
    have b3 : t < s'.pc.length := by omega
    simp only [List.getElem?_eq_getElem a1, List.getElem?_eq_getElem a2, List.getElem?_eq_getElem a3,
      List.getElem?_eq_getElem b1, List.getElem?_eq_getElem b2, List.getElem?_eq_getElem b3,
      Option.some.injEq, Prod.mk.injEq] at this ⊢
    exact this
  refine ⟨?_, ?_, ?_⟩
  · apply List.ext_getElem? ; intro t
    by_cases ht : t < n
    · exact (key t ht).1
    · rw [List.getElem?_eq_none_iff.mpr (by omega), List.getElem?_eq_none_iff.mpr (by omega)]
  · apply List.ext_getElem? ; intro t
    by_cases ht : t < n
    · exact (key t ht).2.1
    · rw [List.getElem?_eq_none_iff.mpr (by omega), List.getElem?_eq_none_iff.mpr (by omega)]
  · apply List.ext_getElem? ; intro t
    by_cases ht : t < n
    · exact (key t ht).2.2
    · rw [List.getElem?_eq_none_iff.mpr (by omega), List.getElem?_eq_none_iff.mpr (by omega)]

theorem init_wf (ls : List L) : WF (init ls : Sys L B) ls.length := by simp [WF, init]

theorem init_view (ls : List L) (t : Nat) (h : t < ls.length) :
    view (init ls : Sys L B) t = some (ls[t], none, 0) := by
  simp [view, init, h]

theorem count_serial (n len t : Nat) : (serialSchedule n len).count t = if t < n then len else 0 := by
  unfold serialSchedule
  induction n with
  | zero => simp
  | succ n ih =>
    rw [List.range_succ, List.flatMap_append, List.count_append, ih]
    simp only [List.flatMap_cons, List.flatMap_nil, List.append_nil, List.count_replicate]
    by_cases h1 : t < n
    · have : ¬ n = t := by omega
      have h2 : t < n + 1 := by omega
      simp [h1, h2, this]
    · by_cases h2 : n = t
      · subst h2; simp
      · have : ¬ t < n + 1 := by omega
        simp [h1, h2, this]

end Artap.Conc
