import ArtapModel.Model.Sampling
import Mathlib.Tactic.Ring
import Mathlib.Tactic.Linarith
import Mathlib.Tactic.FieldSimp
import Mathlib.Data.Rat.Floor
import Mathlib.Data.List.Nodup
/-!
# Lemmas about the samplers (helper file; property theorems are in `Props/C12.lean`)

Sections: list plumbing (`allSome`, `constructDf`), Latin hypercube, uniform grid, `itertools.product`,
Python `round` / `gen_number`, random generator.
-/
namespace Artap.Sampling

theorem floor_eq (q : Rat) : q.floor = ⌊q⌋ := rfl

theorem allSome_eq_some {α} : ∀ {l : List (Option α)} {r : List α}, allSome l = some r → l = r.map some
  | [], r, h => by simp [allSome] at h; subst h; rfl
  | none :: _, r, h => by simp [allSome] at h
  | some a :: l, r, h => by
    simp only [allSome, Option.map_eq_some_iff] at h
    obtain ⟨r', h1, rfl⟩ := h
    simp [allSome_eq_some h1]

theorem allSome_map {α β} {l : List α} {f : α → Option β} {r : List β} (h : allSome (l.map f) = some r) :
    r.length = l.length ∧ ∀ (i : Nat) (a : α), l[i]? = some a → f a = r[i]? := by
  have h1 := allSome_eq_some h
  constructor
  · have := congrArg List.length h1
    simpa using this.symm
  · intro i a ha
    have := congrArg (·[i]?) h1
    simp only [List.getElem?_map, ha, Option.map_some] at this
    cases hr : r[i]? with
    | none => simp [hr] at this
    | some b => simp [hr] at this; simp [this]

theorem allSome_range {β} {N : Nat} {f : Nat → Option β} {r : List β}
    (h : allSome ((List.range N).map f) = some r) :
    r.length = N ∧ ∀ i : Nat, i < N → f i = r[i]? := by
  obtain ⟨h1, h2⟩ := allSome_map h
  refine ⟨by simpa using h1, fun i hi => h2 i i ?_⟩
  simp [hi]


/-- entry `(i, j)` of a list of rows -/
def entry (X : List (List Rat)) (i j : Nat) : Option Rat := (X[i]?).bind (·[j]?)

theorem rabs_eq (x : Rat) : rabs x = |x| := by
  unfold rabs
  split
  · rw [abs_of_neg ‹_›]
  · rw [abs_of_nonneg (not_lt.mp ‹_›)]

theorem mapRow_spec : ∀ {ws : List Rat} {bs : List (Rat × Rat)} {r : List Rat}, mapRow ws bs = some r →
    r.length = ws.length ∧ ws.length ≤ bs.length ∧
    ∀ (j : Nat) (w : Rat) (b : Rat × Rat), ws[j]? = some w → bs[j]? = some b → r[j]? = some (affine b.1 b.2 w)
  | [], _, r, h => by simp [mapRow] at h; subst h; simp
  | _ :: _, [], r, h => by simp [mapRow] at h
  | w :: ws, b :: bs, r, h => by
    simp only [mapRow, Option.map_eq_some_iff] at h
    obtain ⟨r', h1, rfl⟩ := h
    obtain ⟨l1, l2, l3⟩ := mapRow_spec h1
    refine ⟨by simp [l1], by simp [l2], ?_⟩
    intro j w' b' hw hb
    cases j with
    | zero => simp at hw hb; subst hw hb; simp
    | succ j => simp at hw hb; simpa using l3 j w' b' hw hb

theorem constructDf_spec {x : List (List Rat)} {bounds : List (Rat × Rat)} {X : List (List Rat)}
    (h : constructDf x bounds = some X) :
    X.length = x.length ∧ ∀ (i : Nat) (row : List Rat), x[i]? = some row →
      ∃ r, X[i]? = some r ∧ mapRow row bounds = some r := by
  obtain ⟨h1, h2⟩ := allSome_map h
  refine ⟨h1, fun i row hr => ?_⟩
  have := h2 i row hr
  have hi : i < X.length := by
    rw [h1]; exact (List.getElem?_eq_some_iff.mp hr).1
  rw [List.getElem?_eq_getElem hi] at this ⊢
  exact ⟨X[i], rfl, this⟩

/-- `constructDf` entrywise. -/
theorem constructDf_entry {x : List (List Rat)} {bounds : List (Rat × Rat)} {X : List (List Rat)}
    (h : constructDf x bounds = some X) {i j : Nat} {w : Rat} {b : Rat × Rat}
    (hw : entry x i j = some w) (hb : bounds[j]? = some b) :
    entry X i j = some (affine b.1 b.2 w) := by
  obtain ⟨_, h2⟩ := constructDf_spec h
  unfold entry at hw ⊢
  cases hx : x[i]? with
  | none => simp [hx] at hw
  | some row =>
    simp [hx] at hw
    obtain ⟨r, hr, hm⟩ := h2 i row hx
    obtain ⟨_, _, l3⟩ := mapRow_spec hm
    simp [hr, l3 j w b hw hb]

theorem constructDf_rowlen {x : List (List Rat)} {bounds : List (Rat × Rat)} {X : List (List Rat)}
    (h : constructDf x bounds = some X) {n : Nat} (hx : ∀ row ∈ x, row.length = n) :
    ∀ row ∈ X, row.length = n := by
  obtain ⟨h1, h2⟩ := constructDf_spec h
  intro row hrow
  obtain ⟨i, hi, rfl⟩ := List.mem_iff_getElem.mp hrow
  have hi' : i < x.length := h1 ▸ hi
  obtain ⟨r, hr, hm⟩ := h2 i x[i] (by simp [hi'])
  obtain ⟨l1, _, _⟩ := mapRow_spec hm
  have : X[i] = r := by
    have := List.getElem?_eq_getElem hi
    rw [this] at hr; exact Option.some.inj hr
  rw [this, l1]; exact hx _ (List.getElem_mem hi')


/-- `x` lies in stratum `s` (0-based) of `[lb, ub]` cut into `N` equal-width strata `[lb + s·w, lb + (s+1)·w)`,
`w = (ub − lb)/N`. -/
def InStratum (N : Nat) (lb ub : Rat) (s : Nat) (x : Rat) : Prop :=
  lb + (s : Rat) * ((ub - lb) / N) ≤ x ∧ x < lb + ((s : Rat) + 1) * ((ub - lb) / N)

theorem affine_rdpoint {N s : Nat} {lb ub u0 : Rat} (hN : 0 < N) (hb : lb < ub) :
    affine lb ub (rdpoint N s u0) = lb + ((s : Rat) + u0) * ((ub - lb) / N) := by
  have hN' : (N : Rat) ≠ 0 := by exact_mod_cast hN.ne'
  unfold affine rdpoint cut
  rw [rabs_eq, abs_of_pos (by linarith)]
  push_cast
  field_simp
  ring

theorem rdpoint_stratum {N s s' : Nat} {lb ub u0 : Rat} (hN : 0 < N) (hb : lb < ub) (h0 : 0 ≤ u0) (h1 : u0 < 1) :
    InStratum N lb ub s' (affine lb ub (rdpoint N s u0)) ↔ s' = s := by
  have hN' : (0 : Rat) < N := by exact_mod_cast hN
  have hw : 0 < (ub - lb) / N := div_pos (by linarith) hN'
  rw [affine_rdpoint hN hb]
  unfold InStratum
  constructor
  · rintro ⟨a, b⟩
    have a' : (s' : Rat) ≤ s + u0 := by
      have := le_of_mul_le_mul_right (by linarith : (s' : Rat) * ((ub - lb) / N) ≤ ((s : Rat) + u0) * ((ub - lb) / N)) hw
      exact this
    have b' : (s : Rat) + u0 < s' + 1 := by
      have := lt_of_mul_lt_mul_right (by linarith : ((s : Rat) + u0) * ((ub - lb) / N) < ((s' : Rat) + 1) * ((ub - lb) / N)) hw.le
      exact this
    have c1 : (s' : Rat) < s + 1 := by linarith
    have c2 : (s : Rat) < s' + 1 := by linarith
    have d1 : s' < s + 1 := by exact_mod_cast c1
    have d2 : s < s' + 1 := by exact_mod_cast c2
    omega
  · rintro rfl
    constructor
    · have : (s' : Rat) * ((ub - lb) / N) ≤ ((s' : Rat) + u0) * ((ub - lb) / N) :=
        mul_le_mul_of_nonneg_right (by linarith) hw.le
      linarith
    · have : ((s' : Rat) + u0) * ((ub - lb) / N) < ((s' : Rat) + 1) * ((ub - lb) / N) :=
        mul_lt_mul_of_pos_right (by linarith) hw
      linarith


theorem inStratum_of_scaled {N s : Nat} {lb ub x t : Rat} (hN : 0 < N) (hb : lb < ub)
    (hx : x = lb + t * ((ub - lb) / N)) :
    InStratum N lb ub s x ↔ (s : Rat) ≤ t ∧ t < s + 1 := by
  have hN' : (0 : Rat) < N := by exact_mod_cast hN
  have hw : 0 < (ub - lb) / N := div_pos (by linarith) hN'
  unfold InStratum
  rw [hx]
  constructor
  · rintro ⟨a, b⟩
    exact ⟨le_of_mul_le_mul_right (by linarith) hw, lt_of_mul_lt_mul_right (by linarith) hw.le⟩
  · rintro ⟨a, b⟩
    have := mul_le_mul_of_nonneg_right a hw.le
    have := mul_lt_mul_of_pos_right b hw
    constructor <;> linarith

theorem affine_inStratum {N s : Nat} {lb ub w : Rat} (hN : 0 < N) (hb : lb < ub) :
    InStratum N lb ub s (affine lb ub w) ↔ (s : Rat) ≤ N * w ∧ (N : Rat) * w < s + 1 := by
  have hN' : (N : Rat) ≠ 0 := by exact_mod_cast hN.ne'
  apply inStratum_of_scaled hN hb
  unfold affine
  rw [rabs_eq, abs_of_pos (by linarith)]
  field_simp

theorem stratum_eq_iff {N s : Nat} {lb ub x : Rat} (hN : 0 < N) (hb : lb < ub) :
    stratum N lb ub x = (s : Int) ↔ InStratum N lb ub s x := by
  have hN' : (N : Rat) ≠ 0 := by exact_mod_cast hN.ne'
  have hd : ub - lb ≠ 0 := by intro h; linarith
  have hx : x = lb + ((N : Rat) * ((x - lb) / (ub - lb))) * ((ub - lb) / N) := by
    field_simp; ring
  rw [inStratum_of_scaled hN hb hx]
  unfold stratum
  rw [floor_eq, Int.floor_eq_iff]
  push_cast
  rfl


theorem inStratum_bounds {N s : Nat} {lb ub x : Rat} (hN : 0 < N) (hb : lb < ub) (hs : s < N)
    (h : InStratum N lb ub s x) : lb ≤ x ∧ x < ub := by
  have hN' : (0 : Rat) < N := by exact_mod_cast hN
  have hw : 0 < (ub - lb) / N := div_pos (by linarith) hN'
  have hs0 : (0 : Rat) ≤ s := by exact_mod_cast Nat.zero_le s
  have hs1 : (s : Rat) + 1 ≤ N := by exact_mod_cast hs
  have e : (N : Rat) * ((ub - lb) / N) = ub - lb := by field_simp
  obtain ⟨h1, h2⟩ := h
  constructor
  · have := mul_nonneg hs0 hw.le; linarith
  · have := mul_le_mul_of_nonneg_right hs1 hw.le; linarith

theorem lhsUnit_spec {N n : Nat} {u : List (List Rat)} {perms : List (List Nat)} {H : List (List Rat)}
    (h : lhsUnit N n u perms = some H) :
    H.length = N ∧ (∀ row ∈ H, row.length = n) ∧
    ∀ i j : Nat, i < N → j < n → lhsEntry N u perms i j = entry H i j ∧ (entry H i j).isSome := by
  obtain ⟨h1, h2⟩ := allSome_range h
  have rows : ∀ i : Nat, (hi : i < N) → allSome ((List.range n).map fun j => lhsEntry N u perms i j) = some (H[i]'(h1 ▸ hi)) := by
    intro i hi
    rw [h2 i hi, List.getElem?_eq_getElem]
  refine ⟨h1, ?_, ?_⟩
  · intro row hrow
    obtain ⟨i, hi, rfl⟩ := List.mem_iff_getElem.mp hrow
    exact (allSome_range (rows i (h1 ▸ hi))).1
  · intro i j hi hj
    obtain ⟨l1, l2⟩ := allSome_range (rows i hi)
    have e : entry H i j = (H[i]'(h1 ▸ hi))[j]? := by
      unfold entry
      rw [List.getElem?_eq_getElem (h1 ▸ hi)]; rfl
    rw [e, l2 j hj]
    refine ⟨rfl, ?_⟩
    rw [List.getElem?_eq_getElem (l1 ▸ hj)]; rfl

theorem lhsEntry_eq_some {N : Nat} {u : List (List Rat)} {perms : List (List Nat)} {i j : Nat} {x : Rat}
    (h : lhsEntry N u perms i j = some x) :
    ∃ p s row u0, perms[j]? = some p ∧ p[i]? = some s ∧ u[s]? = some row ∧ row[j]? = some u0 ∧
      x = rdpoint N s u0 := by
  unfold lhsEntry at h
  simp only [Option.bind_eq_bind, Option.bind_eq_some_iff, Option.some.injEq] at h
  obtain ⟨p, hp, s, hs, row, hrow, u0, hu, rfl⟩ := h
  exact ⟨p, s, row, u0, hp, hs, hrow, hu, rfl⟩


theorem perm_unique_index {N : Nat} {p : List Nat} (hp : p.Perm (List.range N)) {s : Nat} (hs : s < N) :
    ∃! i : Nat, p[i]? = some s := by
  have hmem : s ∈ p := hp.mem_iff.mpr (List.mem_range.mpr hs)
  have hnd : p.Nodup := hp.nodup_iff.mpr List.nodup_range
  obtain ⟨i, hi⟩ := List.mem_iff_getElem?.mp hmem
  refine ⟨i, hi, fun i' hi' => ?_⟩
  have hlt : i' < p.length := (List.getElem?_eq_some_iff.mp hi').1
  exact (List.getElem?_inj hlt hnd).mp (by rw [hi, hi'])

theorem entry_none_of_le {X : List (List Rat)} {i j : Nat} (h : X.length ≤ i) : entry X i j = none := by
  unfold entry
  rw [List.getElem?_eq_none h]; rfl

theorem lhs_latin_aux {N : Nat} {bounds : List (Rat × Rat)} {u : List (List Rat)} {perms : List (List Nat)}
    {X : List (List Rat)} (hN : 0 < N)
    (hb : ∀ b ∈ bounds, b.1 < b.2)
    (hu : ∀ row ∈ u, ∀ x ∈ row, 0 ≤ x ∧ x < 1)
    (hp : ∀ p ∈ perms, p.Perm (List.range N))
    (h : buildLhs N bounds u perms = some X) :
    X.length = N ∧ (∀ row ∈ X, row.length = bounds.length) ∧
    ∀ (j : Nat) (b : Rat × Rat), bounds[j]? = some b →
      ∃ p, perms[j]? = some p ∧ ∀ i s : Nat,
        (∃ x, entry X i j = some x ∧ InStratum N b.1 b.2 s x) ↔ p[i]? = some s := by
  simp only [buildLhs, Option.bind_eq_bind, Option.bind_eq_some_iff] at h
  obtain ⟨H, hH, hX⟩ := h
  obtain ⟨l1, l2, l3⟩ := lhsUnit_spec hH
  obtain ⟨c1, _⟩ := constructDf_spec hX
  refine ⟨by rw [c1, l1], constructDf_rowlen hX l2, ?_⟩
  intro j b hjb
  have hj : j < bounds.length := (List.getElem?_eq_some_iff.mp hjb).1
  have hblt : b.1 < b.2 := hb b (List.mem_of_getElem? hjb)
  -- the permutation of column j
  obtain ⟨e0, s0⟩ := l3 0 j hN hj
  obtain ⟨x0, hx0⟩ := Option.isSome_iff_exists.mp s0
  obtain ⟨p, _, _, _, hp0, _⟩ := lhsEntry_eq_some (e0.trans hx0)
  refine ⟨p, hp0, ?_⟩
  have hperm := hp p (List.mem_of_getElem? hp0)
  have hplen : p.length = N := by simpa using hperm.length_eq
  intro i s
  by_cases hi : i < N
  · obtain ⟨e, si⟩ := l3 i j hi hj
    obtain ⟨x, hx⟩ := Option.isSome_iff_exists.mp si
    obtain ⟨p', si', row, u0, hp', hs', hrow, hu0, rfl⟩ := lhsEntry_eq_some (e.trans hx)
    have : p' = p := by rw [hp0] at hp'; exact (Option.some.inj hp').symm
    subst this
    have hur := hu row (List.mem_of_getElem? hrow) u0 (List.mem_of_getElem? hu0)
    have hXe := constructDf_entry hX hx hjb
    rw [hXe, hs']
    constructor
    · rintro ⟨x, hx', hin⟩
      cases Option.some.inj hx'
      rw [(rdpoint_stratum hN hblt hur.1 hur.2).mp hin]
    · intro hs
      cases Option.some.inj hs
      exact ⟨_, rfl, (rdpoint_stratum hN hblt hur.1 hur.2).mpr rfl⟩
  · have hi' : N ≤ i := Nat.le_of_not_lt hi
    rw [entry_none_of_le (by rw [c1, l1]; exact hi'), List.getElem?_eq_none (by rw [hplen]; exact hi')]
    simp


/-! ## uniform grid -/

/-- the `k` levels of one parameter -/
def levels (lb ub : Rat) (k : Nat) : List Rat :=
  (List.range k).map fun (i : Nat) => lb + (i : Rat) * ((ub - lb) / ((k : Rat) - 1))

theorem gridLevels_eq {lb ub : Rat} {k : Nat} (hk : k ≠ 1) : gridLevels lb ub k = some (levels lb ub k) := by
  simp [gridLevels, hk, levels]

theorem gridLevels_none (lb ub : Rat) : gridLevels lb ub 1 = none := by simp [gridLevels]

theorem allSome_map_some {α β} (f : α → β) : ∀ l : List α, allSome (l.map fun a => some (f a)) = some (l.map f)
  | [] => rfl
  | a :: l => by simp [allSome, allSome_map_some f l]

theorem uniformGrid_eq {bounds : List (Rat × Rat)} {k : Nat} (hk : k ≠ 1) :
    uniformGrid bounds k = some (product (bounds.map fun b => levels b.1 b.2 k)) := by
  unfold uniformGrid
  simp only [gridLevels_eq hk]
  rw [allSome_map_some]
  rfl

theorem levels_length (lb ub : Rat) (k : Nat) : (levels lb ub k).length = k := by simp [levels]

theorem levels_get {lb ub : Rat} {k i : Nat} (hi : i < k) :
    (levels lb ub k)[i]? = some (lb + (i : Rat) * ((ub - lb) / ((k : Rat) - 1))) := by
  simp [levels, hi]

theorem mem_levels {lb ub : Rat} {k : Nat} {x : Rat} :
    x ∈ levels lb ub k ↔ ∃ i : Nat, i < k ∧ x = lb + (i : Rat) * ((ub - lb) / ((k : Rat) - 1)) := by
  simp only [levels, List.mem_map, List.mem_range]
  constructor
  · rintro ⟨i, hi, rfl⟩; exact ⟨i, hi, rfl⟩
  · rintro ⟨i, hi, rfl⟩; exact ⟨i, hi, rfl⟩

theorem levels_sorted {lb ub : Rat} {k : Nat} (hk : 2 ≤ k) (hb : lb < ub) :
    (levels lb ub k).Pairwise (· < ·) := by
  unfold levels
  rw [List.pairwise_map]
  refine List.Pairwise.imp ?_ List.pairwise_lt_range
  intro a b hab
  have hk' : (0 : Rat) < (k : Rat) - 1 := by
    have : (2 : Rat) ≤ k := by exact_mod_cast hk
    linarith
  have hd : 0 < (ub - lb) / ((k : Rat) - 1) := div_pos (by linarith) hk'
  have : (a : Rat) < b := by exact_mod_cast hab
  have := mul_lt_mul_of_pos_right this hd
  linarith

theorem levels_last {lb ub : Rat} {k : Nat} (hk : 2 ≤ k) :
    (levels lb ub k)[k - 1]? = some ub := by
  rw [levels_get (by omega)]
  have hk' : (k : Rat) - 1 ≠ 0 := by
    have : (2 : Rat) ≤ k := by exact_mod_cast hk
    intro h; linarith
  have : ((k - 1 : Nat) : Rat) = (k : Rat) - 1 := by
    rw [Nat.cast_sub (by omega)]; simp
  rw [this]
  congr 1
  field_simp
  ring

/-! ## itertools.product -/

theorem mem_product {α} : ∀ {ls : List (List α)} {row : List α},
    row ∈ product ls ↔ List.Forall₂ (· ∈ ·) row ls
  | [], row => by simp [product]
  | l :: ls, row => by
    simp only [product, List.mem_flatMap, List.mem_map]
    constructor
    · rintro ⟨a, ha, r, hr, rfl⟩
      exact List.Forall₂.cons ha (mem_product.mp hr)
    · intro h
      cases h with
      | cons ha hr => exact ⟨_, ha, _, mem_product.mpr hr, rfl⟩

theorem length_product {α} : ∀ ls : List (List α), (product ls).length = (ls.map List.length).prod
  | [] => by simp [product]
  | l :: ls => by
    simp only [product, List.length_flatMap, List.length_map, length_product ls, List.map_cons, List.prod_cons]
    induction l with
    | nil => simp
    | cons a l ih => simp [Nat.add_mul, Nat.add_comm]

theorem nodup_product {α} : ∀ {ls : List (List α)}, (∀ l ∈ ls, l.Nodup) → (product ls).Nodup
  | [], _ => by simp [product]
  | l :: ls, h => by
    have hl : l.Nodup := h l (by simp)
    have hls : (product ls).Nodup := nodup_product fun l' hl' => h l' (by simp [hl'])
    simp only [product]
    rw [List.nodup_flatMap]
    refine ⟨fun a _ => hls.map fun x y hxy => by simpa using hxy, ?_⟩
    refine List.Pairwise.imp_of_mem ?_ hl
    intro a b _ _ hab
    simp only [Function.onFun, List.disjoint_left, List.mem_map]
    rintro x ⟨r, _, rfl⟩ ⟨r', _, h'⟩
    simp at h'
    exact hab h'.1.symm

/-! ## Python `round`, `gen_number` -/

theorem pyRound_cases (x : Rat) : pyRound x = ⌊x⌋ ∧ x - ⌊x⌋ ≤ 1 / 2 ∨ pyRound x = ⌊x⌋ + 1 ∧ 1 / 2 ≤ x - ⌊x⌋ := by
  have key : pyRound x = x.floor ∧ x - x.floor ≤ 1 / 2 ∨ pyRound x = x.floor + 1 ∧ 1 / 2 ≤ x - x.floor := by
    unfold pyRound
    simp only []
    by_cases h1 : x - (x.floor : Rat) < 1 / 2
    · rw [if_pos h1]; exact Or.inl ⟨rfl, h1.le⟩
    · rw [if_neg h1]
      by_cases h2 : 1 / 2 < x - (x.floor : Rat)
      · rw [if_pos h2]; exact Or.inr ⟨rfl, h2.le⟩
      · rw [if_neg h2]
        by_cases h3 : (x.floor % 2 == 0) = true
        · rw [if_pos h3]; exact Or.inl ⟨rfl, by linarith⟩
        · rw [if_neg h3]; exact Or.inr ⟨rfl, by linarith⟩
  exact key

theorem pyRound_near (x : Rat) : |(pyRound x : Rat) - x| ≤ 1 / 2 := by
  have h1 := Int.floor_le x
  have h2 := Int.lt_floor_add_one x
  rw [abs_le]
  rcases pyRound_cases x with ⟨h, hr⟩ | ⟨h, hr⟩ <;> rw [h] <;> push_cast <;> constructor <;> linarith

theorem pyRound_ge {x : Rat} {a : Int} (h : (a : Rat) ≤ x) : a ≤ pyRound x := by
  have := Int.le_floor.mpr h
  rcases pyRound_cases x with ⟨h', _⟩ | ⟨h', _⟩ <;> omega

theorem pyRound_le {x : Rat} {c : Int} (h : x ≤ (c : Rat)) : pyRound x ≤ c := by
  rcases pyRound_cases x with ⟨h', _⟩ | ⟨h', hr⟩
  · have : ((⌊x⌋ : Int) : Rat) ≤ c := le_trans (Int.floor_le x) h
    have : ⌊x⌋ ≤ c := by exact_mod_cast this
    omega
  · have : ((⌊x⌋ : Int) : Rat) < c := by linarith
    have : ⌊x⌋ < c := by exact_mod_cast this
    omega

theorem genNumber_mem_grid {lb ub prec u : Rat} {a c : Int} (hp : 0 < prec) (ha : lb = a * prec) (hc : ub = c * prec)
    (hlu : lb ≤ ub) (h0 : 0 ≤ u) (h1 : u ≤ 1) :
    lb ≤ genNumber lb ub prec u ∧ genNumber lb ub prec u ≤ ub := by
  unfold genNumber
  simp only []
  have hy1 : lb ≤ u * (ub - lb) + lb := by nlinarith
  have hy2 : u * (ub - lb) + lb ≤ ub := by nlinarith
  have q1 : (a : Rat) ≤ (u * (ub - lb) + lb) / prec := by
    rw [le_div_iff₀ hp]; linarith
  have q2 : (u * (ub - lb) + lb) / prec ≤ (c : Rat) := by
    rw [div_le_iff₀ hp]; linarith
  have r1 : (a : Rat) ≤ pyRound ((u * (ub - lb) + lb) / prec) := by exact_mod_cast pyRound_ge q1
  have r2 : (pyRound ((u * (ub - lb) + lb) / prec) : Rat) ≤ c := by exact_mod_cast pyRound_le q2
  constructor
  · calc lb = a * prec := ha
      _ ≤ _ := mul_le_mul_of_nonneg_right r1 hp.le
  · calc _ ≤ (c : Rat) * prec := mul_le_mul_of_nonneg_right r2 hp.le
      _ = ub := hc.symm

theorem genNumber_near {lb ub prec u : Rat} (hp : 0 < prec) (hlu : lb ≤ ub) (h0 : 0 ≤ u) (h1 : u ≤ 1) :
    lb - prec / 2 ≤ genNumber lb ub prec u ∧ genNumber lb ub prec u ≤ ub + prec / 2 := by
  unfold genNumber
  simp only []
  have hy1 : lb ≤ u * (ub - lb) + lb := by nlinarith
  have hy2 : u * (ub - lb) + lb ≤ ub := by nlinarith
  have hn := abs_le.mp (pyRound_near ((u * (ub - lb) + lb) / prec))
  have e : (u * (ub - lb) + lb) / prec * prec = u * (ub - lb) + lb := by field_simp
  constructor
  · have := mul_le_mul_of_nonneg_right hn.1 hp.le
    rw [sub_mul, e] at this
    linarith
  · have := mul_le_mul_of_nonneg_right hn.2 hp.le
    rw [sub_mul, e] at this
    linarith


theorem genVector_spec : ∀ {ps : List (Rat × Rat × Rat)} {us : List Rat} {r : List Rat},
    genVector ps us = some r →
    List.Forall₂ (fun x p => ∃ u ∈ us, x = genNumber p.1 p.2.1 p.2.2 u) r ps
  | [], _, r, h => by simp [genVector] at h; subst h; exact List.Forall₂.nil
  | _ :: _, [], r, h => by simp [genVector] at h
  | p :: ps, u :: us, r, h => by
    simp only [genVector, Option.map_eq_some_iff] at h
    obtain ⟨r', h1, rfl⟩ := h
    refine List.Forall₂.cons ⟨u, by simp, rfl⟩ ?_
    exact (genVector_spec h1).imp fun _ _ ⟨u', hu', e⟩ => ⟨u', by simp [hu'], e⟩

theorem randomDesigns_spec {N : Nat} {params : List (Rat × Rat × Rat)} {draws : List (List Rat)}
    {X : List (List Rat)} (h : randomDesigns N params draws = some X) :
    X.length = N ∧ ∀ row ∈ X, ∃ us ∈ draws, genVector params us = some row := by
  obtain ⟨h1, h2⟩ := allSome_range h
  refine ⟨h1, fun row hrow => ?_⟩
  obtain ⟨i, hi, rfl⟩ := List.mem_iff_getElem.mp hrow
  have := h2 i (h1 ▸ hi)
  rw [List.getElem?_eq_getElem hi] at this
  split at this
  · rename_i us hus
    exact ⟨us, List.mem_of_getElem? hus, this⟩
  · simp at this

/-! ## the executable Latin check -/


theorem filter_length_eq_one {α} (p : α → Bool) : ∀ l : List α,
    (l.filter p).length = 1 ↔ ∃! i : Nat, ∃ x, l[i]? = some x ∧ p x = true
  | [] => by
    simp only [List.filter_nil, List.length_nil, Nat.zero_ne_one, false_iff]
    rintro ⟨i, ⟨x, hx, _⟩, _⟩
    simp at hx
  | a :: l => by
    have ih := filter_length_eq_one p l
    by_cases ha : p a = true
    · rw [List.filter_cons_of_pos ha]
      constructor
      · intro h
        have hnil : l.filter p = [] := List.eq_nil_of_length_eq_zero (by simpa using h)
        have h0 : ∀ x ∈ l, ¬ p x = true := by
          intro x hx hpx
          have := List.mem_filter.mpr ⟨hx, hpx⟩
          rw [hnil] at this
          simp at this
        refine ⟨0, ⟨a, by simp, ha⟩, ?_⟩
        rintro i ⟨x, hx, hpx⟩
        cases i with
        | zero => rfl
        | succ i =>
          simp at hx
          exact absurd hpx (h0 x (List.mem_of_getElem? hx))
      · rintro ⟨i, _, huniq⟩
        have h0 := huniq 0 ⟨a, by simp, ha⟩
        by_contra hne
        have hnn : l.filter p ≠ [] := by
          intro hnil
          apply hne
          simp [hnil]
        obtain ⟨x, hx⟩ := List.exists_mem_of_ne_nil _ hnn
        obtain ⟨hxl, hpx⟩ := List.mem_filter.mp hx
        obtain ⟨j, hj⟩ := List.mem_iff_getElem?.mp hxl
        have := huniq (j + 1) ⟨x, by simpa using hj, hpx⟩
        omega
    · rw [List.filter_cons_of_neg ha, ih]
      constructor
      · rintro ⟨i, ⟨x, hx, hpx⟩, huniq⟩
        refine ⟨i + 1, ⟨x, by simpa using hx, hpx⟩, ?_⟩
        rintro j ⟨y, hy, hpy⟩
        cases j with
        | zero =>
          simp at hy
          subst hy
          exact absurd hpy ha
        | succ j =>
          simp at hy
          rw [huniq j ⟨y, hy, hpy⟩]
      · rintro ⟨i, ⟨x, hx, hpx⟩, huniq⟩
        cases i with
        | zero =>
          simp at hx
          subst hx
          exact absurd hpx ha
        | succ i =>
          simp at hx
          refine ⟨i, ⟨x, hx, hpx⟩, ?_⟩
          rintro j ⟨y, hy, hpy⟩
          have := huniq (j + 1) ⟨y, by simpa using hy, hpy⟩
          omega

theorem isLatinCol_iff {N : Nat} {lb ub : Rat} {col : List Rat} (hN : 0 < N) (hb : lb < ub) :
    isLatinCol N lb ub col = true ↔
      col.length = N ∧ ∀ s : Nat, s < N → ∃! i : Nat, ∃ x, col[i]? = some x ∧ InStratum N lb ub s x := by
  unfold isLatinCol
  simp only [List.filter_map, List.length_map, Function.comp_def, Bool.and_eq_true, beq_iff_eq,
    List.all_eq_true, List.mem_range, filter_length_eq_one, stratum_eq_iff hN hb]

theorem allSome_isSome {α β} {f : α → Option β} : ∀ {l : List α}, (∀ a ∈ l, (f a).isSome) →
    ∃ r, allSome (l.map f) = some r
  | [], _ => ⟨[], rfl⟩
  | a :: l, h => by
    obtain ⟨r, hr⟩ := allSome_isSome (l := l) fun a' ha' => h a' (by simp [ha'])
    obtain ⟨b, hb⟩ := Option.isSome_iff_exists.mp (h a (by simp))
    exact ⟨b :: r, by simp [allSome, hb, hr]⟩

theorem column_get {X : List (List Rat)} {j : Nat} {c : List Rat} (h : column X j = some c) :
    ∀ i : Nat, c[i]? = entry X i j := by
  obtain ⟨h1, h2⟩ := allSome_map h
  intro i
  unfold entry
  by_cases hi : i < X.length
  · rw [List.getElem?_eq_getElem hi]
    exact (h2 i X[i] (List.getElem?_eq_getElem hi)).symm
  · have hi' : X.length ≤ i := Nat.le_of_not_lt hi
    rw [List.getElem?_eq_none hi', List.getElem?_eq_none (by rw [h1]; exact hi')]
    rfl

theorem column_length {X : List (List Rat)} {j : Nat} {c : List Rat} (h : column X j = some c) :
    c.length = X.length := (allSome_map h).1

theorem column_exists {X : List (List Rat)} {j n : Nat} (hrows : ∀ row ∈ X, row.length = n) (hj : j < n) :
    ∃ c, column X j = some c := by
  apply allSome_isSome
  intro row hrow
  have : j < row.length := by rw [hrows row hrow]; exact hj
  rw [List.getElem?_eq_getElem this]; rfl

/-- The driver's executable Latin check is exactly the plain statement. -/
theorem isLatinDesign_iff' {N : Nat} {bounds : List (Rat × Rat)} {X : List (List Rat)} (hN : 0 < N)
    (hb : ∀ b ∈ bounds, b.1 < b.2) :
    isLatinDesign N bounds X = true ↔
      X.length = N ∧ (∀ row ∈ X, row.length = bounds.length) ∧
      ∀ (j : Nat) (b : Rat × Rat), bounds[j]? = some b → ∀ s : Nat, s < N →
        ∃! i : Nat, ∃ x, entry X i j = some x ∧ InStratum N b.1 b.2 s x := by
  unfold isLatinDesign
  simp only [Bool.and_eq_true, beq_iff_eq, List.all_eq_true, List.mem_range]
  constructor
  · rintro ⟨⟨h1, h2⟩, h3⟩
    refine ⟨h1, h2, fun j b hjb s hs => ?_⟩
    have hj : j < bounds.length := (List.getElem?_eq_some_iff.mp hjb).1
    have := h3 j hj
    rw [hjb] at this
    cases hc : column X j with
    | none => simp [hc] at this
    | some c =>
      simp only [hc] at this
      have := ((isLatinCol_iff hN (hb b (List.mem_of_getElem? hjb))).mp this).2 s hs
      simpa only [column_get hc] using this
  · rintro ⟨h1, h2, h3⟩
    refine ⟨⟨h1, h2⟩, fun j hj => ?_⟩
    rw [List.getElem?_eq_getElem hj]
    obtain ⟨c, hc⟩ := column_exists h2 hj
    simp only [hc]
    rw [isLatinCol_iff hN (hb _ (List.getElem_mem hj))]
    refine ⟨by rw [column_length hc, h1], fun s hs => ?_⟩
    simpa only [column_get hc] using h3 j bounds[j] (List.getElem?_eq_getElem hj) s hs

end Artap.Sampling
