import ArtapModel.Model.Eval
import ArtapModel.Model.Dominance
/-!
# Helper lemmas and specification definitions for the model of `Job.evaluate` / `Evaluator`
(C05: success path, C06: fault path)
-/
namespace Artap.Eval

/-! ## Success path -/

/-- A pure objective that never fails: every call on `v` returns `f v`. -/
def Env.AlwaysOk (env : Env) (f : Vec → List Rat) : Prop :=
  ∀ key n v, env.obj key n v = .ok (f v)

/-- What one pass of the serial loop does to a design when the objective is `f`. -/
def evalOne (env : Env) (f : Vec → List Rat) (d : Design) : Design :=
  if d.state = .empty then succeed env d (f d.vec) else d

/-- The log entries a batch adds: one per EMPTY design, in batch order. -/
def newCalls (ds : List Design) : List (Nat × Vec) :=
  (ds.filter (fun d => decide (d.state = .empty))).map (fun d => (d.key, d.vec))

theorem attempts_ok {env : Env} {f : Vec → List Rat} (h : env.AlwaysOk f) (k : Nat) (d : Design) (w : World) :
    attempts env (k + 1) d w = (none, succeed env d (f d.vec), logCall d w) := by
  simp [attempts, h d.key d.ncalls d.vec]

theorem jobEvaluate_ok {env : Env} {f : Vec → List Rat} (h : env.AlwaysOk f) (d : Design) (w : World)
    (hs : d.state ≠ .evaluated) :
    jobEvaluate env d w = (none, succeed env d (f d.vec), logCall d w) := by
  simp [jobEvaluate, hs, attempts_ok h]

theorem jobEvaluate_evaluated (env : Env) (d : Design) (w : World) (hs : d.state = .evaluated) :
    jobEvaluate env d w = (none, d, w) := by
  simp [jobEvaluate, hs]

theorem evalSerial_ok {env : Env} {f : Vec → List Rat} (h : env.AlwaysOk f) :
    ∀ (ds : List Design) (w : World),
      evalSerial env ds w =
        (none, ds.map (evalOne env f), { log := w.log ++ newCalls ds, failed := w.failed }) := by
  intro ds
  induction ds with
  | nil => intro w; simp [evalSerial, newCalls]
  | cons d ds ih =>
    intro w
    by_cases hs : d.state = .empty
    · have hne : d.state ≠ .evaluated := by rw [hs]; decide
      simp [evalSerial, hs, jobEvaluate_ok h d w hne, ih, evalOne, newCalls, logCall, List.append_assoc]
    · simp [evalSerial, hs, ih, evalOne, newCalls]

theorem evalOne_not_empty (env : Env) (f : Vec → List Rat) (d : Design) :
    (evalOne env f d).state ≠ .empty := by
  unfold evalOne
  by_cases hs : d.state = .empty
  · simp [hs, succeed]
  · simp [hs]

theorem evalOne_idem (env : Env) (f : Vec → List Rat) (d : Design) :
    evalOne env f (evalOne env f d) = evalOne env f d := by
  have h := evalOne_not_empty env f d
  generalize evalOne env f d = d' at h ⊢
  simp [evalOne, h]

theorem newCalls_evalOne (env : Env) (f : Vec → List Rat) (ds : List Design) :
    newCalls (ds.map (evalOne env f)) = [] := by
  unfold newCalls
  have : (ds.map (evalOne env f)).filter (fun d => decide (d.state = .empty)) = [] := by
    rw [List.filter_eq_nil_iff]
    intro d hd
    rw [List.mem_map] at hd
    obtain ⟨d0, _, rfl⟩ := hd
    simpa using evalOne_not_empty env f d0
  rw [this]; rfl

theorem freshFrom_length (s p : Nat) (vs : List Vec) : (freshFrom s p vs).length = vs.length := by
  induction vs generalizing s with
  | nil => rfl
  | cons v vs ih => simp [freshFrom, ih]

theorem freshFrom_all_empty (s p : Nat) (vs : List Vec) :
    (freshFrom s p vs).filter (fun d => decide (d.state = .empty)) = freshFrom s p vs := by
  induction vs generalizing s with
  | nil => rfl
  | cons v vs ih => simp [freshFrom, fresh, ih]

/-- Keys and vectors of the designs a sweep creates: `(start + i, vᵢ)`. -/
def sweepCalls (start : Nat) : List Vec → List (Nat × Vec)
  | [] => []
  | v :: vs => (start, v) :: sweepCalls (start + 1) vs

theorem newCalls_freshFrom (s p : Nat) (vs : List Vec) : newCalls (freshFrom s p vs) = sweepCalls s vs := by
  unfold newCalls
  rw [freshFrom_all_empty]
  induction vs generalizing s with
  | nil => rfl
  | cons v vs ih => simp [freshFrom, fresh, sweepCalls, ih]

theorem sweepCalls_vecs (s : Nat) (vs : List Vec) : (sweepCalls s vs).map (·.2) = vs := by
  induction vs generalizing s with
  | nil => rfl
  | cons v vs ih => simp [sweepCalls, ih]

/-! ## Fault path -/

theorem failDesign_key (env : Env) (d : Design) : (failDesign env d).key = d.key := rfl

/-- Shape of everything `attempts` can do, by induction on the remaining iterations:
the failed vectors `fs` (at most `k`), then – unless the loop ran out – one last call. -/
theorem attempts_shape (env : Env) : ∀ (k : Nat) (d : Design) (w : World),
    ∃ fs : List Vec, fs.length ≤ k ∧
      (attempts env k d w).2.2.failed = w.failed ++ fs ∧
      (attempts env k d w).2.1.key = d.key ∧
      (attempts env k d w).2.1.ncalls =
        d.ncalls + fs.length + (if (attempts env k d w).1 = some .tooMany then 0 else 1) ∧
      (attempts env k d w).2.2.log = w.log ++ fs.map (fun v => (d.key, v)) ++
        (if (attempts env k d w).1 = some .tooMany then [] else [(d.key, (attempts env k d w).2.1.vec)]) ∧
      ((attempts env k d w).1 = some .tooMany → fs.length = k) := by
  intro k
  induction k with
  | zero => intro d w; exact ⟨[], by simp [attempts]⟩
  | succ k ih =>
    intro d w
    cases ho : env.obj d.key d.ncalls d.vec with
    | ok c => exact ⟨[], by simp [attempts, ho, succeed, logCall]⟩
    | fatal t => exact ⟨[], by simp [attempts, ho, abortDesign, logCall]⟩
    | transient t =>
      obtain ⟨fs, hlen, hf, hk, hn, hl, ht⟩ := ih (failDesign env d) (failWorld d w)
      refine ⟨d.vec :: fs, by simp; omega, ?_, ?_, ?_, ?_, ?_⟩
      · simp only [attempts, ho]
        rw [hf]; simp [failWorld]
      · simp only [attempts, ho]
        rw [hk]; rfl
      · simp only [attempts, ho]
        rw [hn]; simp [failDesign]; omega
      · simp only [attempts, ho]
        rw [hl]; simp [failWorld, failDesign, List.append_assoc]
      · intro h
        simp only [attempts, ho] at h
        simp [ht h]

/-- A successful run of the loop stores the outcome of its last call, made on the stored vector. -/
theorem attempts_success (env : Env) : ∀ (k : Nat) (d : Design) (w : World),
    (attempts env k d w).1 = none →
      (attempts env k d w).2.1.state = .evaluated ∧
      0 < (attempts env k d w).2.1.ncalls ∧
      env.obj d.key ((attempts env k d w).2.1.ncalls - 1) (attempts env k d w).2.1.vec
        = .ok (attempts env k d w).2.1.costs ∧
      (attempts env k d w).2.1.signed =
        signedCosts env d.prec (attempts env k d w).2.1.costs := by
  intro k
  induction k with
  | zero => intro d w h; simp [attempts] at h
  | succ k ih =>
    intro d w h
    cases ho : env.obj d.key d.ncalls d.vec with
    | ok c => simp [attempts, ho, succeed]
    | fatal t => simp [attempts, ho] at h
    | transient t =>
      simp only [attempts, ho] at h ⊢
      have := ih (failDesign env d) (failWorld d w) h
      simpa [failDesign] using this

/-- Every vector put on the failed list was the argument of a call that raised a transient error. -/
theorem attempts_failed_were_transient (env : Env) : ∀ (k : Nat) (d : Design) (w : World) (fs : List Vec),
    (attempts env k d w).2.2.failed = w.failed ++ fs →
      ∀ j (hj : j < fs.length), ∃ t, env.obj d.key (d.ncalls + j) fs[j] = .transient t := by
  intro k
  induction k with
  | zero =>
    intro d w fs h j hj
    simp [attempts] at h
    subst h; simp at hj
  | succ k ih =>
    intro d w fs h j hj
    cases ho : env.obj d.key d.ncalls d.vec with
    | ok c =>
      simp [attempts, ho, logCall] at h
      subst h; simp at hj
    | fatal t =>
      simp [attempts, ho, logCall] at h
      subst h; simp at hj
    | transient t =>
      simp only [attempts, ho] at h
      obtain ⟨fs', _, hf', _⟩ := attempts_shape env k (failDesign env d) (failWorld d w)
      rw [hf'] at h
      simp only [failWorld, List.append_assoc] at h
      have hfs : fs = d.vec :: fs' := by
        have := List.append_cancel_left h
        simpa using this.symm
      subst hfs
      cases j with
      | zero => exact ⟨t, by simpa using ho⟩
      | succ j =>
        have hj' : j < fs'.length := by simpa using hj
        have := ih (failDesign env d) (failWorld d w) fs' hf' j hj'
        obtain ⟨t', ht'⟩ := this
        refine ⟨t', ?_⟩
        simp only [failDesign] at ht'
        simpa [Nat.add_assoc, Nat.add_comm 1 j] using ht'

/-- The state a run of the loop leaves behind is determined by its result. -/
theorem attempts_state (env : Env) : ∀ (k : Nat) (d : Design) (w : World),
    match (attempts env k d w).1 with
    | none => (attempts env k d w).2.1.state = .evaluated
    | some .tooMany => (attempts env k d w).2.1.state = (if k = 0 then d.state else .empty)
    | some (.fatal _) => (attempts env k d w).2.1.state = .inProgress := by
  intro k
  induction k with
  | zero => intro d w; simp [attempts]
  | succ k ih =>
    intro d w
    cases ho : env.obj d.key d.ncalls d.vec with
    | ok c => simp [attempts, ho, succeed]
    | fatal t => simp [attempts, ho, abortDesign]
    | transient t =>
      simp only [attempts, ho]
      have := ih (failDesign env d) (failWorld d w)
      cases hr : (attempts env k (failDesign env d) (failWorld d w)).1 with
      | none => simpa [hr] using this
      | some e =>
        cases e with
        | tooMany =>
          rw [hr] at this
          simp only at this ⊢
          rw [this]
          by_cases hk : k = 0 <;> simp [hk, failDesign]
        | fatal t' => simpa [hr] using this

/-! ### The chain of re-rolled designs -/

/-- State after `j` consecutive transient failures. -/
def failN (env : Env) : Nat → Design → World → Design × World
  | 0, d, w => (d, w)
  | j + 1, d, w => failN env j (failDesign env d) (failWorld d w)

/-- The `j`-th vector of the chain: the initial vector, then the re-rolls. -/
def vecAt (env : Env) (d : Design) (j : Nat) : Vec := (failN env j d { log := [], failed := [] }).1.vec

/-- The first `j` calls on the chain all raise a transient error. -/
def TransientRun (env : Env) : Nat → Design → Prop
  | 0, _ => True
  | j + 1, d => (∃ t, env.obj d.key d.ncalls d.vec = .transient t) ∧ TransientRun env j (failDesign env d)

theorem failN_design_indep (env : Env) : ∀ (j : Nat) (d : Design) (w w' : World),
    (failN env j d w).1 = (failN env j d w').1 := by
  intro j
  induction j with
  | zero => intro d w w'; rfl
  | succ j ih => intro d w w'; simp [failN, ih (failDesign env d) (failWorld d w) (failWorld d w')]

theorem failN_ncalls (env : Env) : ∀ (j : Nat) (d : Design) (w : World),
    (failN env j d w).1.ncalls = d.ncalls + j ∧ (failN env j d w).1.key = d.key ∧
    (failN env j d w).1.prec = d.prec := by
  intro j
  induction j with
  | zero => intro d w; simp [failN]
  | succ j ih =>
    intro d w
    obtain ⟨h1, h2, h3⟩ := ih (failDesign env d) (failWorld d w)
    simp only [failN]
    rw [h1, h2, h3]
    simp [failDesign]; omega

/-- The vectors of the first `j` chain elements. -/
def chainVecs (env : Env) (d : Design) : Nat → List Vec
  | 0 => []
  | j + 1 => d.vec :: chainVecs env (failDesign env d) j

theorem failN_world (env : Env) : ∀ (j : Nat) (d : Design) (w : World),
    (failN env j d w).2.failed = w.failed ++ chainVecs env d j ∧
    (failN env j d w).2.log = w.log ++ (chainVecs env d j).map (fun v => (d.key, v)) := by
  intro j
  induction j with
  | zero => intro d w; simp [failN, chainVecs]
  | succ j ih =>
    intro d w
    obtain ⟨h1, h2⟩ := ih (failDesign env d) (failWorld d w)
    simp only [failN]
    rw [h1, h2]
    simp [chainVecs, failWorld, failDesign, List.append_assoc]

theorem chainVecs_length (env : Env) : ∀ (j : Nat) (d : Design), (chainVecs env d j).length = j := by
  intro j
  induction j with
  | zero => intro d; rfl
  | succ j ih => intro d; simp [chainVecs, ih]

/-- `j` transient failures in a row consume `j` iterations of the loop. -/
theorem attempts_transient_run (env : Env) : ∀ (j k : Nat) (d : Design) (w : World),
    TransientRun env j d →
      attempts env (k + j) d w = attempts env k (failN env j d w).1 (failN env j d w).2 := by
  intro j
  induction j with
  | zero => intro k d w _; rfl
  | succ j ih =>
    intro k d w h
    obtain ⟨⟨t, ht⟩, hrest⟩ := h
    have : k + (j + 1) = (k + j) + 1 := by omega
    rw [this]
    simp only [attempts, ht, failN]
    exact ih k (failDesign env d) (failWorld d w) hrest

/-! ## Batches with faults -/

/-- If the loop put `k` vectors on the failed list it ran out of iterations. -/
theorem attempts_all_failed (env : Env) : ∀ (k : Nat) (d : Design) (w : World) (fs : List Vec),
    fs.length = k → (attempts env k d w).2.2.failed = w.failed ++ fs →
    (attempts env k d w).1 = some .tooMany := by
  intro k
  induction k with
  | zero => intro d w fs _ _; simp [attempts]
  | succ k ih =>
    intro d w fs hk hf
    cases ho : env.obj d.key d.ncalls d.vec with
    | ok c =>
      simp [attempts, ho, logCall] at hf
      subst hf; simp at hk
    | fatal t =>
      simp [attempts, ho, logCall] at hf
      subst hf; simp at hk
    | transient t =>
      simp only [attempts, ho] at hf ⊢
      cases fs with
      | nil => simp at hk
      | cons v fs' =>
        apply ih (failDesign env d) (failWorld d w) fs' (by simpa using hk)
        obtain ⟨fs'', _, hf'', _⟩ := attempts_shape env k (failDesign env d) (failWorld d w)
        rw [hf''] at hf ⊢
        simp only [failWorld, List.append_assoc] at hf ⊢
        have := List.append_cancel_left hf
        simp at this
        rw [this.2]

/-- One `Job.evaluate` makes at most five objective calls and logs at most five failures. -/
theorem jobEvaluate_log_bound (env : Env) (d : Design) (w : World) :
    (jobEvaluate env d w).2.2.log.length ≤ w.log.length + 5 ∧
    (jobEvaluate env d w).2.2.failed.length ≤ w.failed.length + 5 ∧
    w.log.length ≤ (jobEvaluate env d w).2.2.log.length := by
  unfold jobEvaluate
  by_cases hs : d.state = .evaluated
  · simp [hs]
  · simp only [hs, if_false]
    obtain ⟨fs, hlen, hf, _, _, hl, ht⟩ := attempts_shape env 5 d w
    rw [hl, hf]
    by_cases htm : (attempts env 5 d w).1 = some .tooMany
    · simp [htm]; omega
    · simp only [htm, if_false, List.length_append, List.length_map, List.length_cons, List.length_nil]
      have : fs.length + 1 ≤ 5 := by
        rcases Nat.lt_or_ge fs.length 5 with h | h
        · omega
        · exact absurd (attempts_all_failed env 5 d w fs (by omega) hf) htm
      omega

end Artap.Eval

namespace Artap.Eval

/-- Fields that re-rolling does not touch, and the state it leaves. -/
theorem failN_fields (env : Env) : ∀ (j : Nat) (d : Design) (w : World),
    (failN env (j + 1) d w).1.state = .empty ∧ (failN env (j + 1) d w).1.costs = d.costs ∧
    (failN env (j + 1) d w).1.signed = d.signed ∧ (failN env (j + 1) d w).1.marker = d.marker := by
  intro j
  induction j with
  | zero => intro d w; simp [failN, failDesign]
  | succ j ih =>
    intro d w
    have := ih (failDesign env d) (failWorld d w)
    rw [failN]
    simpa [failDesign] using this

theorem chainVecs_succ (env : Env) : ∀ (j : Nat) (d : Design) (w : World),
    chainVecs env d (j + 1) = chainVecs env d j ++ [(failN env j d w).1.vec] := by
  intro j
  induction j with
  | zero => intro d w; simp [chainVecs, failN]
  | succ j ih =>
    intro d w
    rw [chainVecs, ih (failDesign env d) (failWorld d w)]
    simp [chainVecs, failN]

/-- `j` transient failures followed by a successful call. -/
theorem attempts_run_then_ok (env : Env) (j k : Nat) (d : Design) (w : World) (c : List Rat)
    (h : TransientRun env j d)
    (hok : env.obj d.key (d.ncalls + j) (failN env j d w).1.vec = .ok c) :
    attempts env (k + 1 + j) d w =
      (none, succeed env (failN env j d w).1 c, logCall (failN env j d w).1 (failN env j d w).2) := by
  rw [attempts_transient_run env j (k + 1) d w h]
  obtain ⟨hn, hk, _⟩ := failN_ncalls env j d w
  simp [attempts, hn, hk, hok]

/-- `j` transient failures followed by another exception. -/
theorem attempts_run_then_fatal (env : Env) (j k : Nat) (d : Design) (w : World) (t : Nat)
    (h : TransientRun env j d)
    (hf : env.obj d.key (d.ncalls + j) (failN env j d w).1.vec = .fatal t) :
    attempts env (k + 1 + j) d w =
      (some (.fatal t), abortDesign env (failN env j d w).1, logCall (failN env j d w).1 (failN env j d w).2) := by
  rw [attempts_transient_run env j (k + 1) d w h]
  obtain ⟨hn, hk, _⟩ := failN_ncalls env j d w
  simp [attempts, hn, hk, hf]

/-! ## Batches with faults -/

/-- Number of EMPTY designs of a batch. -/
def countEmpty (ds : List Design) : Nat := (ds.filter (fun d => decide (d.state = .empty))).length

theorem evalSerial_bound (env : Env) : ∀ (ds : List Design) (w : World),
    (evalSerial env ds w).2.2.log.length ≤ w.log.length + 5 * countEmpty ds ∧
    (evalSerial env ds w).2.2.failed.length ≤ w.failed.length + 5 * countEmpty ds ∧
    (evalSerial env ds w).2.1.length = ds.length := by
  intro ds
  induction ds with
  | nil => intro w; simp [evalSerial, countEmpty]
  | cons d ds ih =>
    intro w
    by_cases hs : d.state = .empty
    · have hb := jobEvaluate_log_bound env d w
      have hc : countEmpty (d :: ds) = countEmpty ds + 1 := by simp [countEmpty, hs]
      rcases hj : jobEvaluate env d w with ⟨r, d', w'⟩
      rw [hj] at hb
      cases r with
      | some e =>
        simp only [evalSerial, hs, if_true, hj, hc]
        simp only at hb
        refine ⟨by omega, by omega, by simp⟩
      | none =>
        have := ih w'
        simp only [evalSerial, hs, if_true, hj, hc]
        rcases he : evalSerial env ds w' with ⟨r2, ds2, w2⟩
        rw [he] at this
        simp only at hb this ⊢
        refine ⟨by omega, by omega, by simp [this.2.2]⟩
    · have hc : countEmpty (d :: ds) = countEmpty ds := by simp [countEmpty, hs]
      have := ih w
      simp only [evalSerial, hs, if_false, hc]
      rcases he : evalSerial env ds w with ⟨r2, ds2, w2⟩
      rw [he] at this
      simp only at this ⊢
      exact ⟨this.1, this.2.1, by simp [this.2.2]⟩

/-- An exception aborts the serial loop: the result is a processed prefix, the design whose
evaluation raised, and the untouched rest of the batch. -/
theorem evalSerial_abort (env : Env) : ∀ (ds : List Design) (w : World) (e : Err),
    (evalSerial env ds w).1 = some e →
    ∃ (pre pre' post : List Design) (d : Design) (w₀ : World),
      ds = pre ++ d :: post ∧ pre'.length = pre.length ∧ d.state = .empty ∧
      (jobEvaluate env d w₀).1 = some e ∧
      (evalSerial env ds w).2.1 = pre' ++ (jobEvaluate env d w₀).2.1 :: post ∧
      (evalSerial env ds w).2.2 = (jobEvaluate env d w₀).2.2 := by
  intro ds
  induction ds with
  | nil => intro w e h; simp [evalSerial] at h
  | cons d ds ih =>
    intro w e h
    by_cases hs : d.state = .empty
    · rcases hj : jobEvaluate env d w with ⟨r, d', w'⟩
      cases r with
      | some e' =>
        simp only [evalSerial, hs, if_true, hj] at h ⊢
        refine ⟨[], [], ds, d, w, by simp, rfl, hs, ?_, ?_, ?_⟩
        · rw [hj]; simpa using h
        · rw [hj]; simp
        · rw [hj]
      | none =>
        simp only [evalSerial, hs, if_true, hj] at h ⊢
        obtain ⟨pre, pre', post, d₀, w₀, h1, h2, h3, h4, h5, h6⟩ := ih w' e h
        refine ⟨d :: pre, d' :: pre', post, d₀, w₀, by simp [h1], by simp [h2], h3, h4, ?_, h6⟩
        simp [h5]
    · simp only [evalSerial, hs, if_false] at h ⊢
      obtain ⟨pre, pre', post, d₀, w₀, h1, h2, h3, h4, h5, h6⟩ := ih w e h
      refine ⟨d :: pre, d :: pre', post, d₀, w₀, by simp [h1], by simp [h2], h3, h4, ?_, h6⟩
      simp [h5]

/-- Two lists of equal length related position by position. -/
inductive AllPairs {α β : Type} (R : α → β → Prop) : List α → List β → Prop
  | nil : AllPairs R [] []
  | cons {a b as bs} : R a b → AllPairs R as bs → AllPairs R (a :: as) (b :: bs)

/-- Without an exception every EMPTY design of the batch ends EVALUATED, paired with the
outcome of its own last objective call; the others are untouched. -/
theorem evalSerial_no_error (env : Env) : ∀ (ds : List Design) (w : World),
    (evalSerial env ds w).1 = none →
    AllPairs (fun d r =>
      (d.state ≠ .empty → r = d) ∧
      (d.state = .empty → r.state = .evaluated ∧ r.key = d.key ∧ 0 < r.ncalls ∧
        env.obj d.key (r.ncalls - 1) r.vec = .ok r.costs ∧ r.signed = signedCosts env d.prec r.costs))
      ds (evalSerial env ds w).2.1 := by
  intro ds
  induction ds with
  | nil => intro w _; exact AllPairs.nil
  | cons d ds ih =>
    intro w h
    by_cases hs : d.state = .empty
    · rcases hj : jobEvaluate env d w with ⟨r, d', w'⟩
      cases r with
      | some e' => simp [evalSerial, hs, hj] at h
      | none =>
        simp only [evalSerial, hs, if_true, hj] at h ⊢
        refine AllPairs.cons ⟨fun hne => absurd hs hne, fun _ => ?_⟩ (ih w' h)
        have hne : d.state ≠ .evaluated := by rw [hs]; decide
        simp only [jobEvaluate, hne, if_false] at hj
        have h1 : (attempts env 5 d w).1 = none := by rw [hj]
        have := attempts_success env 5 d w h1
        have hk := (attempts_shape env 5 d w).choose_spec.2.2.1
        rw [hj] at this hk
        exact ⟨this.1, hk, this.2.1, this.2.2.1, this.2.2.2⟩
    · simp only [evalSerial, hs, if_false] at h ⊢
      exact AllPairs.cons ⟨fun _ => rfl, fun h' => absurd h' hs⟩ (ih w h)

/-- The vector a design holds after the loop is its own or one produced by the sampler. -/
theorem attempts_vec_origin (env : Env) : ∀ (k : Nat) (d : Design) (w : World),
    (attempts env k d w).2.1.vec = d.vec ∨ ∃ n, (attempts env k d w).2.1.vec = env.reroll d.key n := by
  intro k
  induction k with
  | zero => intro d w; left; rfl
  | succ k ih =>
    intro d w
    cases ho : env.obj d.key d.ncalls d.vec with
    | ok c => left; simp [attempts, ho, succeed]
    | fatal t => left; simp [attempts, ho, abortDesign]
    | transient t =>
      simp only [attempts, ho]
      rcases ih (failDesign env d) (failWorld d w) with h | ⟨n, h⟩
      · right; exact ⟨d.ncalls, by rw [h]; rfl⟩
      · right; exact ⟨n, by rw [h]; rfl⟩

/-! ## The serial loop over object references (aliasing) -/

/-- Result of the reference loop on a pure objective (see `Props/C05.lean`, `refs_called_once`). -/
theorem evalIdx_ok {env : Env} {f : Vec → List Rat} (h : env.AlwaysOk f) :
    ∀ (is : List Nat) (pool : List Design) (w : World),
      (∀ i ∈ is, i < pool.length) →
      (∀ (j : Nat) (d : Design), pool[j]? = some d → d.key = j) →
      ∃ (pool' : List Design) (new : List (Nat × Vec)),
        evalIdx env is pool w = some (none, pool', { log := w.log ++ new, failed := w.failed }) ∧
        (∀ (j : Nat) (d : Design), pool[j]? = some d →
          pool'[j]? = some (if j ∈ is ∧ d.state = .empty then succeed env d (f d.vec) else d)) ∧
        pool'.length = pool.length ∧
        (∀ (j : Nat) (d : Design), pool[j]? = some d →
          (new.filter (fun e => e.1 == j)).length = if j ∈ is ∧ d.state = .empty then 1 else 0) ∧
        (∀ e ∈ new, ∃ d, pool[e.1]? = some d ∧ e.2 = d.vec ∧ e.1 ∈ is) := by
  intro is
  induction is with
  | nil =>
    intro pool w _ _
    exact ⟨pool, [], by simp [evalIdx], by simp, rfl, by simp, by simp⟩
  | cons i is ih =>
    intro pool w hin hkey
    have hi : i < pool.length := hin i (by simp)
    have hin' : ∀ k ∈ is, k < pool.length := fun k hk => hin k (by simp [hk])
    have hget : pool[i]? = some pool[i] := List.getElem?_eq_getElem hi
    by_cases hs : pool[i].state = .empty
    · -- evaluated now
      have hne : pool[i].state ≠ .evaluated := by rw [hs]; decide
      have hki : pool[i].key = i := hkey i _ hget
      let d' := succeed env pool[i] (f pool[i].vec)
      have hd's : d'.state ≠ .empty := by simp [d', succeed]
      have hkey2 : ∀ (j : Nat) (d : Design), (pool.set i d')[j]? = some d → d.key = j := by
        intro j d hj
        by_cases hij : i = j
        · subst hij
          rw [List.getElem?_set_self hi] at hj
          cases hj; simpa [d', succeed] using hki
        · rw [List.getElem?_set_ne hij] at hj
          exact hkey j d hj
      obtain ⟨pool', new, he, hp, hl, hc, hv⟩ :=
        ih (pool.set i d') (logCall pool[i] w) (by simpa using hin') hkey2
      refine ⟨pool', (i, pool[i].vec) :: new, ?_, ?_, by simpa using hl, ?_, ?_⟩
      · simp only [evalIdx, hget, hs, if_true, jobEvaluate_ok h _ w hne]
        rw [he]; simp [logCall, hki, List.append_assoc]
      · intro j d hj
        by_cases hij : i = j
        · subst hij
          rw [hget] at hj; cases hj
          have := hp i d' (List.getElem?_set_self hi)
          simp only [hd's, and_false, if_false] at this
          simp [this, hs, d']
        · have hj2 : (pool.set i d')[j]? = some d := by rw [List.getElem?_set_ne hij]; exact hj
          have := hp j d hj2
          rw [this]
          have : (j ∈ i :: is) ↔ j ∈ is := by simp [Ne.symm hij]
          simp [this]
      · intro j d hj
        by_cases hij : i = j
        · subst hij
          rw [hget] at hj; cases hj
          have := hc i d' (List.getElem?_set_self hi)
          simp only [hd's, and_false, if_false] at this
          simp [this, hs]
        · have hj2 : (pool.set i d')[j]? = some d := by rw [List.getElem?_set_ne hij]; exact hj
          have := hc j d hj2
          have hm : (j ∈ i :: is) ↔ j ∈ is := by simp [Ne.symm hij]
          simp [hij, this, hm]
      · intro e he'
        rw [List.mem_cons] at he'
        rcases he' with rfl | he'
        · exact ⟨pool[i], hget, rfl, by simp⟩
        · obtain ⟨d, hd, hv2, hm⟩ := hv e he'
          by_cases hij : i = e.1
          · rw [← hij, List.getElem?_set_self hi] at hd
            cases hd
            exact ⟨pool[i], by rw [← hij]; exact hget, by simpa [d', succeed] using hv2, by simp [hm]⟩
          · rw [List.getElem?_set_ne hij] at hd
            exact ⟨d, hd, hv2, by simp [hm]⟩
    · -- skipped
      obtain ⟨pool', new, he, hp, hl, hc, hv⟩ := ih pool w hin' hkey
      refine ⟨pool', new, ?_, ?_, hl, ?_, ?_⟩
      · simp only [evalIdx, hget, hs, if_false]; exact he
      · intro j d hj
        rw [hp j d hj]
        by_cases hij : i = j
        · subst hij
          rw [hget] at hj; cases hj
          simp [hs]
        · have : (j ∈ i :: is) ↔ j ∈ is := by simp [Ne.symm hij]
          simp [this]
      · intro j d hj
        rw [hc j d hj]
        by_cases hij : i = j
        · subst hij
          rw [hget] at hj; cases hj
          simp [hs]
        · have : (j ∈ i :: is) ↔ j ∈ is := by simp [Ne.symm hij]
          simp [this]
      · intro e he'
        obtain ⟨d, hd, hv2, hm⟩ := hv e he'
        exact ⟨d, hd, hv2, by simp [hm]⟩

end Artap.Eval
